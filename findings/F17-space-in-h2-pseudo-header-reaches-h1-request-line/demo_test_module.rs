// F17 demo — append to lib/src/protocol/mux/pkawa.rs of a scratch copy and run
//   cargo test --offline -p sozu-lib --lib f17_demo -- --nocapture
// Before the fix (fd… see known-findings.txt) it FAILS: handle_header accepts `:path: /a b` and the H1 converter writes
// `GET /a b HTTP/1.1`; after the fix the header list is refused (stream error) and nothing is forwarded.
#[cfg(test)]
mod f17_demo {
    use super::*;
    struct NoOp;
    impl kawa::h1::ParserCallbacks<crate::pool::Checkout> for NoOp { fn on_headers(&mut self, _k: &mut GenericHttpStream) {} }

    fn forward(fields: &[(&[u8], &[u8])]) -> Option<Vec<u8>> {
        let mut pool = crate::pool::Pool::with_capacity(1, 1, 16384);
        let mut enc = loona_hpack::Encoder::new();
        let mut block = Vec::new();
        for (n, v) in fields { enc.encode_header_into((*n, *v), &mut block).unwrap(); }
        let mut dec = loona_hpack::Decoder::new();
        let mut prio = Prioriser::default();
        let mut kawa: GenericHttpStream = kawa::Kawa::new(Kind::Request, kawa::Buffer::new(pool.checkout().unwrap()));
        handle_header(&mut dec, &mut prio, 1, &mut kawa, &block, true, &mut NoOp, 65536, u32::MAX, false).ok()?;
        kawa.prepare(&mut kawa::h1::BlockConverter);
        let mut wire = Vec::new();
        for ob in kawa.out.iter() { if let kawa::OutBlock::Store(s) = ob { wire.extend_from_slice(s.data(kawa.storage.buffer())); } }
        Some(wire)
    }

    #[test]
    fn a_space_in_a_pseudo_header_never_reaches_the_request_line() {
        for (path, authority) in [(&b"/a b"[..], &b"a.example"[..]), (b"/public HTTP/1.0", b"a.example"), (b"/x", b"a.example evil.example")] {
            let wire = forward(&[(b":method", b"GET"), (b":scheme", b"https"), (b":path", path), (b":authority", authority)]);
            if let Some(w) = wire {
                let line = String::from_utf8_lossy(&w);
                println!("forwarded: {:?}", line);
                let first = line.split("\r\n").next().unwrap();
                assert_eq!(first.split(' ').count(), 3, "request line {first:?} has more than three space-separated parts");
                assert!(!line.contains("Host: a.example evil.example"), "Host value with a space was forwarded");
            }
        }
    }
}
