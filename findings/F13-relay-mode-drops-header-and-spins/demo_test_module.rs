// Append to lib/src/protocol/proxy_protocol/relay.rs in a scratch copy of the repository and run
//   cargo test --offline -p sozu-lib --lib verif_f13 -- --nocapture
// Before the fix: `back_writable did not return within 3 s (spinning)`; after: the backend receives the header and the payload prefix.

#[cfg(test)]
mod verif_f13 {
    use std::io::{Read, Write};
    use std::net::{TcpListener as StdListener, TcpStream as StdStream};
    use std::time::Duration;
    use super::*;

    const SIG: [u8; 12] = [0x0D, 0x0A, 0x0D, 0x0A, 0x00, 0x0D, 0x0A, 0x51, 0x55, 0x49, 0x54, 0x0A];
    fn pair() -> (StdStream, TcpStream) {
        let l = StdListener::bind("127.0.0.1:0").unwrap();
        let c = StdStream::connect(l.local_addr().unwrap()).unwrap();
        let (s, _) = l.accept().unwrap();
        s.set_nonblocking(true).unwrap();
        (c, TcpStream::from_std(s))
    }

    fn relay(payload_len: usize) -> Result<(Vec<u8>, Vec<u8>), String> {
        let (mut client, front) = pair();
        let mut header = SIG.to_vec();
        header.extend_from_slice(&[0x21, 0x11, 0x00, 12, 192, 0, 2, 1, 192, 0, 2, 2, 0x1F, 0x90, 0x00, 0x50]);
        let payload: Vec<u8> = (0..payload_len).map(|i| b'a' + (i % 26) as u8).collect();
        let mut msg = header.clone();
        msg.extend_from_slice(&payload);
        client.write_all(&msg).unwrap();
        std::thread::sleep(Duration::from_millis(50));
        let (tx, rx) = std::sync::mpsc::channel();
        std::thread::spawn(move || {
            let mut pool = crate::pool::Pool::with_capacity(2, 2, 16384);
            let (mut backend_far, backend_near) = pair();
            backend_far.set_nonblocking(true).unwrap();
            let mut st = RelayProxyProtocol::new(front, Token(1), Ulid::generate(), Some(backend_near), pool.checkout().unwrap());
            let mut metrics = SessionMetrics::new(None);
            let r1 = st.readable(&mut metrics);
            let r2 = st.back_writable(&mut metrics);
            std::thread::sleep(Duration::from_millis(50));
            let mut got = Vec::new();
            let mut buf = [0u8; 4096];
            loop { match backend_far.read(&mut buf) { Ok(0) => break, Ok(n) => got.extend_from_slice(&buf[..n]), Err(_) => break } }
            let _ = tx.send((format!("{r1:?}/{r2:?}"), got));
        });
        match rx.recv_timeout(Duration::from_secs(3)) {
            Ok((res, got)) => { eprintln!("results {res}, backend got {} bytes", got.len()); Ok((got, msg)) }
            Err(_) => Err("back_writable did not return within 3 s (spinning)".to_string()),
        }
    }

    #[test]
    fn relay_mode_forwards_the_header_it_received() {
        for n in [0usize, 5, 40] {
            match relay(n) {
                Ok((got, sent)) => assert!(sent.starts_with(&got) && got.len() >= 28, "payload {n}: backend got {got:?}, client sent {sent:?}"),
                Err(e) => panic!("payload {n}: {e}"),
            }
        }
    }
}
