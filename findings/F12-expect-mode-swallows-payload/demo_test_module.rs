// Append to lib/src/tcp.rs in a scratch copy of the repository and run
//   cargo test --offline -p sozu-lib --lib verif_f12
// Fails on the tree before commit `fix: expect mode hands the bytes read behind a short PROXY header to the relay`, passes after.

#[cfg(test)]
mod verif_f12 {
    use std::io::{Read, Write};
    use std::net::{TcpListener as StdListener, TcpStream as StdStream};
    use super::*;
    use crate::protocol::proxy_protocol::expect::ExpectProxyProtocol;

    const SIG: [u8; 12] = [0x0D, 0x0A, 0x0D, 0x0A, 0x00, 0x0D, 0x0A, 0x51, 0x55, 0x49, 0x54, 0x0A];

    fn pair() -> (StdStream, MioTcpStream) {
        let l = StdListener::bind("127.0.0.1:0").unwrap();
        let c = StdStream::connect(l.local_addr().unwrap()).unwrap();
        let (s, _) = l.accept().unwrap();
        s.set_nonblocking(true).unwrap();
        (c, MioTcpStream::from_std(s))
    }

    fn relay(header: Vec<u8>, payload: &[u8]) -> Vec<u8> {
        let (mut client, front) = pair();
        let mut msg = header;
        msg.extend_from_slice(payload);
        client.write_all(&msg).unwrap();
        std::thread::sleep(Duration::from_millis(50));
        let mut st = ExpectProxyProtocol::new(TimeoutContainer::new_empty(Duration::from_secs(5)), front, Token(1), Ulid::generate());
        let mut metrics = SessionMetrics::new(None);
        let mut res = SessionResult::Continue;
        for _ in 0..8 { res = st.readable(&mut metrics); if res != SessionResult::Continue { break; } }
        assert_eq!(res, SessionResult::Upgrade);
        let mut pool = crate::pool::Pool::with_capacity(2, 2, 16384);
        let cfg = sozu_command::config::ListenerBuilder::new_tcp(sozu_command::proto::command::SocketAddress::new_v4(127, 0, 0, 1, 1)).to_tcp(None).unwrap();
        let listener = Rc::new(RefCell::new(TcpListener::new(cfg, Token(0)).unwrap()));
        let mut pipe = st.into_pipe(pool.checkout().unwrap(), pool.checkout().unwrap(), None, None, listener);
        let (mut backend_far, backend_near) = pair();
        backend_far.set_nonblocking(true).unwrap();
        pipe.set_back_socket(backend_near);
        for _ in 0..6 {
            let _ = pipe.backend_writable(&mut metrics);
            let _ = pipe.readable(&mut metrics);
        }
        let _ = pipe.backend_writable(&mut metrics);
        std::thread::sleep(Duration::from_millis(50));
        let mut got = Vec::new();
        let mut buf = [0u8; 4096];
        loop { match backend_far.read(&mut buf) { Ok(0) => break, Ok(n) => got.extend_from_slice(&buf[..n]), Err(_) => break } }
        got
    }

    #[test]
    fn expect_mode_relays_payload_that_follows_a_short_header() {
        let payload: Vec<u8> = (0..40u8).map(|i| b'a' + i % 26).collect();
        // LOCAL / AF_UNSPEC header (16 bytes)
        let mut h = SIG.to_vec(); h.extend_from_slice(&[0x20, 0x00, 0x00, 0x00]);
        assert_eq!(relay(h, &payload), payload, "LOCAL/AF_UNSPEC header + payload");
        // IPv4 header with a 7-byte TLV tail (35 bytes)
        let mut h = SIG.to_vec(); h.extend_from_slice(&[0x21, 0x11, 0x00, 19, 192, 0, 2, 1, 192, 0, 2, 2, 0x1F, 0x90, 0x00, 0x50, 0x04, 0x00, 0x04, 0, 0, 0, 0]);
        assert_eq!(relay(h, &payload), payload, "IPv4 + TLV header + payload");
        // plain IPv4 header (28 bytes): control
        let mut h = SIG.to_vec(); h.extend_from_slice(&[0x21, 0x11, 0x00, 12, 192, 0, 2, 1, 192, 0, 2, 2, 0x1F, 0x90, 0x00, 0x50]);
        assert_eq!(relay(h, &payload), payload, "plain IPv4 header + payload");
    }
}
