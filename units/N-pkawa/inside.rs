    // Bounded native enumeration for C03 (unit N-pkawa): an HTTP/2 request header list goes through the REAL
    // pkawa::handle_header (HPACK decode, pseudo-header and field validation, Content-Length bookkeeping, host vs
    // :authority) with the REAL HttpContext as callbacks, and — when it is accepted — through kawa's H1 converter, as it
    // would be written to an HTTP/1.1 backend. An independent strict reader (below, RFC 9112 grammar, written for this
    // unit) then reads the bytes, and its reading is compared with what the client sent and with what sozu believes
    // (kawa.body_size, the status line it stored). Appended as a test module to pkawa.rs in a scratch copy.
    //   - the wire image is one well-formed request head: `method SP target SP HTTP/1.1`, token method, no SP / CTL in the
    //     target, token field names, no CR / LF / NUL / other CTL in values, nothing after the empty line;
    //   - method, target and Host are the client's :method, :path and :authority; exactly one Host line;
    //   - framing is read identically: body_size Length(n) <=> every Content-Length line says n, at least one, and no
    //     Transfer-Encoding; Chunked <=> exactly one `Transfer-Encoding: chunked` and no Content-Length; Empty <=> no
    //     Transfer-Encoding and Content-Length absent or 0;
    //   - every field line is either one the client sent (same name lower-cased, same value up to surrounding blanks, a
    //     Cookie line made of the client's crumbs) or one of the fields sozu adds itself; none of the client's
    //     connection-specific fields is forwarded.
    // A rejected list (Err) forwards nothing and is counted; the enumeration reports how many lists were accepted.
    use crate::protocol::kawa_h1::editor::HttpContext;

    type F = (Vec<u8>, Vec<u8>);
    fn f(n: &str, v: &str) -> F { (n.as_bytes().to_vec(), v.as_bytes().to_vec()) }

    fn pseudo_variants() -> Vec<(&'static str, Vec<F>)> {
        let base = |m: &str, p: &str, a: &str| vec![f(":method", m), f(":scheme", "https"), f(":path", p), f(":authority", a)];
        vec![
            ("plain GET", base("GET", "/x?y=1", "a.example")),
            ("plain POST", base("POST", "/upload", "a.example:8443")),
            ("method with a space", base("GE T", "/x", "a.example")),
            ("method with CRLF", base("GET /evil HTTP/1.1\r\nX: y\r\n\r\nGET", "/x", "a.example")),
            ("path with a space", base("GET", "/a b", "a.example")),
            ("path with CRLF", base("GET", "/x HTTP/1.1\r\nHost: evil\r\n\r\nGET /y", "a.example")),
            ("path without slash", base("GET", "x", "a.example")),
            ("asterisk path", base("OPTIONS", "*", "a.example")),
            ("authority with CRLF", base("GET", "/x", "a.example\r\nX-Inj: 1")),
            ("authority with userinfo", base("GET", "/x", "user@a.example")),
            ("no :path", vec![f(":method", "GET"), f(":scheme", "https"), f(":authority", "a.example")]),
            ("no :authority", vec![f(":method", "GET"), f(":scheme", "https"), f(":path", "/x")]),
            ("duplicate :method", vec![f(":method", "GET"), f(":method", "POST"), f(":scheme", "https"), f(":path", "/x"), f(":authority", "a.example")]),
            ("duplicate :path", vec![f(":method", "GET"), f(":scheme", "https"), f(":path", "/x"), f(":path", "/y"), f(":authority", "a.example")]),
            (":status in a request", vec![f(":method", "GET"), f(":scheme", "https"), f(":path", "/x"), f(":authority", "a.example"), f(":status", "200")]),
            ("unknown pseudo", vec![f(":method", "GET"), f(":scheme", "https"), f(":path", "/x"), f(":authority", "a.example"), f(":foo", "bar")]),
            ("empty :path", base("GET", "", "a.example")),
        ]
    }

    fn pool_fields() -> Vec<F> {
        vec![
            f("content-length", "5"), f("content-length", "5"), f("content-length", "7"), f("content-length", "0"),
            f("content-length", "5, 5"), f("content-length", "+5"), f("content-length", "abc"), f("content-length", " 5"),
            f("transfer-encoding", "chunked"), f("te", "trailers"), f("te", "gzip"), f("connection", "close"), f("keep-alive", "timeout=5"),
            f("upgrade", "h2c"), f("proxy-connection", "keep-alive"),
            f("host", "a.example"), f("host", "evil.example"),
            f("x-ok", "fine"), f("x-ok", "second value"), f("accept", "*/*"),
            f("x-crlf", "a\r\nx-injected: 1"), f("x-lf", "a\nx-injected: 1"), f("x-nul", "a\0b"), f("x-cr", "a\rb"),
            f("X-Upper", "v"), f("x bad", "v"), f("x:colon", "v"), f("", "empty name"),
            f("cookie", "a=b"), f("cookie", "c=d; e=f"),
            f("x-forwarded-for", "1.2.3.4"), f("content-length", "18446744073709551616"),
        ]
    }

    #[derive(Debug)]
    struct Head { method: String, target: String, fields: Vec<(String, Vec<u8>)> }

    fn is_tchar_strict(b: u8) -> bool { b.is_ascii_alphanumeric() || b"!#$%&'*+-.^_`|~".contains(&b) }

    /// RFC 9112 reader: the whole input must be exactly one request head
    fn strict_read(wire: &[u8]) -> Result<Head, String> {
        let end = wire.windows(4).position(|w| w == b"\r\n\r\n").ok_or("no empty line ends the header section")?;
        if end + 4 != wire.len() { return Err(format!("{} octets follow the empty line of a request without a body in this image", wire.len() - end - 4)); }
        let head = &wire[..end];
        let mut lines: Vec<&[u8]> = Vec::new();
        let mut i = 0;
        let mut start = 0;
        while i < head.len() {
            if head[i] == b'\r' {
                if i + 1 < head.len() && head[i + 1] == b'\n' { lines.push(&head[start..i]); i += 2; start = i; continue; }
                return Err("a bare CR inside the header section".into());
            }
            if head[i] == b'\n' { return Err("a bare LF inside the header section".into()); }
            i += 1;
        }
        lines.push(&head[start..]);
        let rl = lines[0];
        let parts: Vec<&[u8]> = rl.split(|b| *b == b' ').collect();
        if parts.len() != 3 { return Err(format!("request line {:?} does not have exactly three space-separated parts", String::from_utf8_lossy(rl))); }
        if parts[0].is_empty() || !parts[0].iter().all(|b| is_tchar_strict(*b)) { return Err(format!("method {:?} is not a token", String::from_utf8_lossy(parts[0]))); }
        if parts[1].is_empty() || parts[1].iter().any(|b| *b <= 0x20 || *b == 0x7f) { return Err(format!("request target {:?} is empty or has a space / control octet", String::from_utf8_lossy(parts[1]))); }
        if parts[2] != b"HTTP/1.1" { return Err(format!("version {:?}", String::from_utf8_lossy(parts[2]))); }
        let mut fields = Vec::new();
        for l in &lines[1..] {
            let c = l.iter().position(|b| *b == b':').ok_or_else(|| format!("field line {:?} has no colon", String::from_utf8_lossy(l)))?;
            let (n, v) = (&l[..c], &l[c + 1..]);
            if n.is_empty() || !n.iter().all(|b| is_tchar_strict(*b)) { return Err(format!("field name {:?} is not a token", String::from_utf8_lossy(n))); }
            if v.iter().any(|b| (*b < 0x20 && *b != b'\t') || *b == 0x7f) { return Err(format!("field {:?} has a control octet in its value", String::from_utf8_lossy(n))); }
            let v: Vec<u8> = { let s = String::from_utf8_lossy(v).into_owned(); s.trim_matches(|c| c == ' ' || c == '\t').as_bytes().to_vec() };
            fields.push((String::from_utf8_lossy(n).to_ascii_lowercase(), v));
        }
        Ok(Head { method: String::from_utf8_lossy(parts[0]).into_owned(), target: String::from_utf8_lossy(parts[1]).into_owned(), fields })
    }

    const SOZU_ADDS: [&str; 9] = ["host", "content-length", "transfer-encoding", "x-forwarded-for", "forwarded", "x-forwarded-proto", "x-forwarded-port", "x-request-id", "sozu-id"];
    const CONNECTION_SPECIFIC: [&str; 5] = ["connection", "keep-alive", "upgrade", "proxy-connection", "transfer-encoding"];

    fn run_list(pool: &mut crate::pool::Pool, list: &[F], end_stream: bool) -> Result<bool, String> {
        let mut encoder = loona_hpack::Encoder::new();
        let mut encoded = Vec::new();
        for (n, v) in list { encoder.encode_header_into((n.as_slice(), v.as_slice()), &mut encoded).map_err(|e| format!("driver: HPACK encode: {e:?}"))?; }
        let mut decoder = loona_hpack::Decoder::new();
        let mut prioriser = Prioriser::default();
        let checkout = pool.checkout().ok_or("driver: pool exhausted")?;
        let mut kawa: GenericHttpStream = kawa::Kawa::new(Kind::Request, kawa::Buffer::new(checkout));
        let peer: std::net::SocketAddr = "203.0.113.7:51000".parse().unwrap();
        let public: std::net::SocketAddr = "198.51.100.1:8443".parse().unwrap();
        let mut ctx = HttpContext::new(rusty_ulid::Ulid::generate(), rusty_ulid::Ulid::generate(), crate::Protocol::HTTPS, public, Some(peer), "SOZUBALANCEID".into(), "Sozu-Id".into(), false, false);
        let r = handle_header(&mut decoder, &mut prioriser, 1, &mut kawa, &encoded, end_stream, &mut ctx, crate::protocol::mux::h2::MAX_HEADER_LIST_SIZE as u32, u32::MAX, false);
        if r.is_err() { return Ok(false); }
        if kawa.is_error() { return Ok(false); }
        let body_size = kawa.body_size;
        kawa.prepare(&mut kawa::h1::BlockConverter);
        let mut wire = Vec::new();
        for ob in kawa.out.iter() { if let kawa::OutBlock::Store(s) = ob { wire.extend_from_slice(s.data(kawa.storage.buffer())); } }
        let shown = || String::from_utf8_lossy(&wire).into_owned();
        let head = strict_read(&wire).map_err(|e| format!("a strict reader refuses what sozu forwards: {e}; wire: {:?}", shown()))?;
        let get = |name: &str| -> Option<&Vec<u8>> { list.iter().find(|(n, _)| n.as_slice() == name.as_bytes()).map(|(_, v)| v) };
        let (m, p, a) = (get(":method").cloned().unwrap_or_default(), get(":path").cloned().unwrap_or_default(), get(":authority").cloned().unwrap_or_default());
        if head.method.as_bytes() != m.as_slice() { return Err(format!("backend reads method {:?}, the client sent {:?}; wire: {:?}", head.method, String::from_utf8_lossy(&m), shown())); }
        if head.target.as_bytes() != p.as_slice() { return Err(format!("backend reads target {:?}, the client sent :path {:?}; wire: {:?}", head.target, String::from_utf8_lossy(&p), shown())); }
        let hosts: Vec<&Vec<u8>> = head.fields.iter().filter(|(n, _)| n == "host").map(|(_, v)| v).collect();
        if hosts.len() != 1 || hosts[0].as_slice() != a.as_slice() { return Err(format!("Host lines {:?}, the client's :authority is {:?}; wire: {:?}", hosts.iter().map(|h| String::from_utf8_lossy(h).into_owned()).collect::<Vec<_>>(), String::from_utf8_lossy(&a), shown())); }
        let cls: Vec<String> = head.fields.iter().filter(|(n, _)| n == "content-length").map(|(_, v)| String::from_utf8_lossy(v).into_owned()).collect();
        let tes: Vec<String> = head.fields.iter().filter(|(n, _)| n == "transfer-encoding").map(|(_, v)| String::from_utf8_lossy(v).into_owned()).collect();
        if cls.iter().any(|c| c.is_empty() || !c.bytes().all(|b| b.is_ascii_digit())) { return Err(format!("Content-Length {cls:?} is not 1*DIGIT; wire: {:?}", shown())); }
        match body_size {
            BodySize::Length(n) => {
                if cls.is_empty() || cls.iter().any(|c| c.parse::<usize>().ok() != Some(n)) || !tes.is_empty() { return Err(format!("sozu frames the body as {n} octets; the backend reads Content-Length {cls:?}, Transfer-Encoding {tes:?}; wire: {:?}", shown())); }
            }
            BodySize::Chunked => {
                if tes != vec!["chunked".to_string()] || !cls.is_empty() { return Err(format!("sozu frames the body as chunked; the backend reads Content-Length {cls:?}, Transfer-Encoding {tes:?}; wire: {:?}", shown())); }
            }
            BodySize::Empty => {
                if !tes.is_empty() || cls.iter().any(|c| c.parse::<usize>().ok() != Some(0)) { return Err(format!("sozu reads no body; the backend reads Content-Length {cls:?}, Transfer-Encoding {tes:?}; wire: {:?}", shown())); }
            }
        }
        // every line is the client's or sozu's own
        let crumbs: Vec<String> = list.iter().filter(|(n, _)| n.as_slice() == b"cookie").flat_map(|(_, v)| String::from_utf8_lossy(v).split(';').map(|c| c.trim().to_string()).collect::<Vec<_>>()).collect();
        for (n, v) in &head.fields {
            if SOZU_ADDS.contains(&n.as_str()) && n != "x-forwarded-for" { continue; }
            let vs = String::from_utf8_lossy(v).into_owned();
            if n == "cookie" {
                if !vs.split(';').all(|c| crumbs.contains(&c.trim().to_string())) { return Err(format!("Cookie line {vs:?} is not made of the client's crumbs {crumbs:?}")); }
                continue;
            }
            if n == "x-forwarded-for" { continue; }
            if CONNECTION_SPECIFIC.contains(&n.as_str()) || n == "te" && !vs.eq_ignore_ascii_case("trailers") { return Err(format!("connection-specific field {n}: {vs:?} was forwarded; wire: {:?}", shown())); }
            let sent = list.iter().any(|(cn, cv)| cn.as_slice() == n.as_bytes() && String::from_utf8_lossy(cv).trim_matches(|c| c == ' ' || c == '\t') == vs);
            if !sent { return Err(format!("the backend sees a field line {n}: {vs:?} that the client did not send as such; wire: {:?}", shown())); }
        }
        Ok(true)
    }

    /// A Content-Length framed H2 request followed by its DATA and by a trailer HEADERS frame: towards an HTTP/1.1 backend the
    /// message ends with its last body octet; anything written after it would be read as the start of the next request.
    fn run_trailers(pool: &mut crate::pool::Pool, trailers: &[F], chunked: bool) -> Result<bool, String> {
        let mut list: Vec<F> = vec![f(":method", "POST"), f(":scheme", "https"), f(":path", "/upload"), f(":authority", "a.example")];
        if !chunked { list.push(f("content-length", "5")); }
        let mut encoder = loona_hpack::Encoder::new();
        let mut encoded = Vec::new();
        for (n, v) in &list { encoder.encode_header_into((n.as_slice(), v.as_slice()), &mut encoded).map_err(|e| format!("driver: {e:?}"))?; }
        let mut decoder = loona_hpack::Decoder::new();
        let mut prioriser = Prioriser::default();
        let checkout = pool.checkout().ok_or("driver: pool exhausted")?;
        let mut kawa: GenericHttpStream = kawa::Kawa::new(Kind::Request, kawa::Buffer::new(checkout));
        let peer: std::net::SocketAddr = "203.0.113.7:51000".parse().unwrap();
        let public: std::net::SocketAddr = "198.51.100.1:8443".parse().unwrap();
        let mut ctx = HttpContext::new(rusty_ulid::Ulid::generate(), rusty_ulid::Ulid::generate(), crate::Protocol::HTTPS, public, Some(peer), "SOZUBALANCEID".into(), "Sozu-Id".into(), false, false);
        if handle_header(&mut decoder, &mut prioriser, 1, &mut kawa, &encoded, false, &mut ctx, crate::protocol::mux::h2::MAX_HEADER_LIST_SIZE as u32, u32::MAX, false).is_err() { return Ok(false); }
        // the DATA frame, as handle_data_frame queues it for a Content-Length framed message
        if chunked {
            // as handle_data_frame queues a DATA frame of a message without Content-Length (chunk-size line, data, end of chunk)
            kawa.push_block(Block::ChunkHeader(kawa::ChunkHeader { length: Store::from_slice(b"5") }));
            kawa.push_block(Block::Chunk(kawa::Chunk { data: Store::from_slice(b"hello") }));
            kawa.push_block(Block::Flags(Flags { end_body: false, end_chunk: true, end_header: false, end_stream: false }));
        } else {
            kawa.push_block(Block::Chunk(kawa::Chunk { data: Store::from_slice(b"hello") }));
        }
        let mut tenc = Vec::new();
        for (n, v) in trailers { encoder.encode_header_into((n.as_slice(), v.as_slice()), &mut tenc).map_err(|e| format!("driver: {e:?}"))?; }
        if handle_header(&mut decoder, &mut prioriser, 1, &mut kawa, &tenc, true, &mut ctx, crate::protocol::mux::h2::MAX_HEADER_LIST_SIZE as u32, u32::MAX, false).is_err() { return Ok(false); }
        // what ConnectionH1::writable does before it runs the converter
        crate::protocol::mux::shared::drop_trailers_of_length_framed_message(&mut kawa);
        kawa.prepare(&mut kawa::h1::BlockConverter);
        let mut wire = Vec::new();
        for ob in kawa.out.iter() { if let kawa::OutBlock::Store(s) = ob { wire.extend_from_slice(s.data(kawa.storage.buffer())); } }
        let Some(end) = wire.windows(4).position(|w| w == b"\r\n\r\n") else { return Err(format!("no header section end in {:?}", String::from_utf8_lossy(&wire))) };
        let body = &wire[end + 4..];
        if chunked {
            // RFC 9112 §7.1: chunk, last-chunk "0", trailer section, empty line
            let mut want: Vec<u8> = b"5\r\nhello\r\n0\r\n".to_vec();
            for (n, v) in trailers { want.extend_from_slice(n); want.extend_from_slice(b": "); want.extend_from_slice(v); want.extend_from_slice(b"\r\n"); }
            want.extend_from_slice(b"\r\n");
            if body != want.as_slice() { return Err(format!("a chunked request with trailers is written to the HTTP/1.1 backend with the body {:?}; the chunked coding requires {:?} (last-chunk before the trailer section)", String::from_utf8_lossy(body), String::from_utf8_lossy(&want))); }
            return Ok(true);
        }
        if body != b"hello" { return Err(format!("a Content-Length: 5 request with trailers is written to the HTTP/1.1 backend as head + {:?}: the {} octets after the 5 body octets are read by the backend as the start of the next request", String::from_utf8_lossy(body), body.len().saturating_sub(5))); }
        Ok(true)
    }

    #[test]
    fn enumerate() {
        let args = std::env::var("VERIF_NATIVE_ARGS").unwrap_or_default();
        let thorough = args.contains("thorough");
        let mut pool = crate::pool::Pool::with_capacity(1, 4, 16384);
        let fields = pool_fields();
        let k = fields.len();
        let (mut n, mut accepted, mut fails): (u64, u64, Vec<(String, String)>) = (0, 0, Vec::new());
        let mut subsets: Vec<Vec<usize>> = vec![vec![]];
        for a in 0..k { subsets.push(vec![a]); for b in 0..k { if b != a { subsets.push(vec![a, b]); if thorough { for c in (b + 1)..k { if c != a { subsets.push(vec![a, b, c]); } } } } } }
        'all: for (pname, pseudo) in pseudo_variants() {
            for sub in &subsets {
                if !thorough && sub.len() == 2 && pname != "plain GET" && pname != "plain POST" { continue; }
                if thorough && sub.len() == 3 && pname != "plain POST" { continue; }
                for order in 0..2usize {   // 0: pseudo-headers first; 1: the first chosen field before the pseudo-headers
                    if order == 1 && sub.is_empty() { continue; }
                    for end_stream in [true, false] {
                        let mut list: Vec<F> = Vec::new();
                        if order == 1 { list.push(fields[sub[0]].clone()); }
                        list.extend(pseudo.iter().cloned());
                        for (i, s) in sub.iter().enumerate() { if order == 1 && i == 0 { continue; } list.push(fields[*s].clone()); }
                        n += 1;
                        let shown: Vec<(String, String)> = list.iter().map(|(a, b)| (String::from_utf8_lossy(a).into_owned(), String::from_utf8_lossy(b).into_owned())).collect();
                        let r = std::panic::catch_unwind(std::panic::AssertUnwindSafe(|| run_list(&mut pool, &list, end_stream)));
                        match r {
                            Ok(Ok(true)) => accepted += 1,
                            Ok(Ok(false)) => {}
                            Ok(Err(obs)) => { fails.push((format!("{pname}; header list {shown:?}, END_STREAM = {end_stream}"), obs)); if fails.len() >= 3 { break 'all; } }
                            Err(e) => { fails.push((format!("{pname}; header list {shown:?}, END_STREAM = {end_stream}"), format!("the real code panicked: {}", e.downcast_ref::<String>().cloned().or_else(|| e.downcast_ref::<&str>().map(|s| s.to_string())).unwrap_or_default()))); if fails.len() >= 3 { break 'all; } }
                        }
                    }
                }
            }
        }
        if fails.len() < 3 {
            for trailers in [vec![f("x-foo", "bar")], vec![f("grpc-status", "0"), f("grpc-message", "ok")], vec![f("x-a", "GET /smuggled HTTP/1.1")]] {
                n += 1;
                let shown: Vec<(String, String)> = trailers.iter().map(|(a, b)| (String::from_utf8_lossy(a).into_owned(), String::from_utf8_lossy(b).into_owned())).collect();
                for chunked in [false, true] {
                match run_trailers(&mut pool, &trailers, chunked) {
                    Ok(true) => accepted += 1,
                    Ok(false) => {}
                    Err(obs) => { fails.push((format!("HEADERS(POST /upload{}), DATA(\"hello\"), trailer HEADERS {shown:?} with END_STREAM", if chunked { "" } else { ", content-length: 5" }), obs)); break; }
                }
                }
            }
        }
        let fl: Vec<String> = fails.iter().map(|(i, o)| format!("{{\"input\": {:?}, \"observed\": {:?}}}", i, o)).collect();
        println!("{{\"bound\": \"17 pseudo-header shapes x ordered selections of up to {} fields out of {k} (valid, duplicated / conflicting / malformed Content-Length, Transfer-Encoding, te, connection-specific, host, CR / LF / NUL, bad names, cookies) x pseudo-first / field-first x END_STREAM\", \"states\": {n}, \"pairs\": {n}, \"nontrivial_pairs\": {accepted}, \"failures\": [{}]}}", if thorough { 3 } else { 2 }, fl.join(", "));
    }
