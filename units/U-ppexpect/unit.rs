// Unit U-ppexpect — lib/src/protocol/proxy_protocol/expect.rs: receiving the PROXY v2 header from the client side (C18)
// Property sentences -> contract: "in expect ... mode, exactly the addresses of the incoming header ... however the
// header is fragmented; malformed or oversized headers close the session without forwarding anything" and "relays
// both byte streams exactly":
//   readable : buffer[..index] grows by EXACTLY the bytes the socket delivered, in order, never past 232 bytes;
//              Upgrade  ==> the accumulated bytes parse as a complete header and `addresses` are that header's;
//              a parse error, or 232 accumulated bytes that are still incomplete ==> Close;
//              nothing is ever written to any socket in this state.
//   into_pipe: the bytes accumulated BEHIND the parsed header (a header shorter than the staging size pulls payload
//              in) are handed to the relay's front buffer, in order: none of the client's stream is lost.
// The parser is an uninterpreted function of the bytes here (K-ppv2 proves what it accepts). Termination: no loop.
use vstd::prelude::*;
use std::marker::PhantomData;
verus! {

global layout usize is size == 8;

//@item lib/src/socket.rs enum SocketResult structural
//@item lib/src/lib.rs enum SessionResult structural
//@item lib/src/protocol/proxy_protocol/expect.rs enum HeaderLen structural
#[verifier::external_body] pub struct ProxyAddr { _p: () }
#[verifier::external_body] #[derive(Clone, Copy)] pub struct Ready { _p: () }
impl Ready {
    #[verifier::external_body] pub fn remove(&mut self, o: Ready) { unimplemented!() }
    #[verifier::external_body] pub fn verif_readable() -> Ready { unimplemented!() }
    #[verifier::external_body] pub fn verif_empty() -> Ready { unimplemented!() }
    #[verifier::external_body] pub fn is_empty(&self) -> bool { unimplemented!() }
}
//@global-subst "Ready::READABLE" => "Ready::verif_readable()"
//@item lib/src/lib.rs struct Readiness
impl Readiness {
    //@fn lib/src/lib.rs Readiness::reset
    //@  opaque_body
    //@end
}
pub struct SessionMetrics { pub bin: usize, pub bout: usize }
#[verifier::external_body] pub struct TimeoutContainer { _p: () }
#[verifier::external_body] #[derive(Clone, Copy)] pub struct Token { _p: () }
#[verifier::external_body] #[derive(Clone, Copy)] pub struct Ulid { _p: () }
#[verifier::external_body] pub struct TcpStream { _p: () }
#[verifier::external_body] pub struct TcpListener { _p: () }
#[verifier::external_body] #[verifier::reject_recursive_types(T)] pub struct Rc<T> { _p: PhantomData<T> }
#[verifier::external_body] #[verifier::reject_recursive_types(T)] pub struct RefCell<T> { _p: PhantomData<T> }
#[verifier::external_body] #[derive(Clone, Copy)] pub struct SocketAddr { _p: () }

pub trait SocketHandler {
    spec fn sent(&self) -> Seq<u8>;
    spec fn received(&self) -> Seq<u8>;
    fn socket_read(&mut self, buf: &mut [u8]) -> (r: (usize, SocketResult))
        ensures
            r.0 <= old(buf)@.len(), final(buf)@.len() == old(buf)@.len(),
            final(self).received() == old(self).received() + final(buf)@.subrange(0, r.0 as int),
            final(buf)@.subrange(r.0 as int, final(buf)@.len() as int) == old(buf)@.subrange(r.0 as int, old(buf)@.len() as int),
            final(self).sent() == old(self).sent();
}

pub open spec fn spec_be16(hi: u8, lo: u8) -> int { hi as int * 256 + lo as int }
// `u16::from_be_bytes([hi, lo])` (std; its array length is a const expression Verus cannot name in an assume_specification)
#[verifier::external_body]
pub fn verif_be16(hi: u8, lo: u8) -> (r: u16) ensures r as int == spec_be16(hi, lo) { unimplemented!() }
// nom's result shape and the parser as a function of the bytes (parser.rs; K-ppv2 proves what it accepts)
pub enum Needed { Unknown }
pub struct NomError<'a> { pub input: &'a [u8] }
pub enum Err<E> { Incomplete(Needed), Error(E), Failure(E) }
pub struct HeaderV2 { pub addr: ProxyAddr }
pub enum Parsed { Complete { consumed: nat, addr: ProxyAddr }, Incomplete, Invalid }
pub uninterp spec fn spec_parse(b: Seq<u8>) -> Parsed;
#[verifier::external_body]
pub fn parse_v2_header<'a>(i: &'a [u8]) -> (r: Result<(&'a [u8], HeaderV2), Err<NomError<'a>>>)
    ensures match r {
        // (a complete header ends exactly where its length field says: parse_v2_header's own postcondition assert; K-ppv2)
        Ok((rest, h)) => spec_parse(i@) matches Parsed::Complete { consumed, addr } && consumed <= i@.len() && rest@ == i@.subrange(consumed as int, i@.len() as int) && h.addr == addr
            && i@.len() >= 16 && consumed == 16 + spec_be16(i@[14], i@[15]),
        Err(Err::Incomplete(_)) => spec_parse(i@) is Incomplete,
        Err(_) => spec_parse(i@) is Invalid,
    }
{ unimplemented!() }

// `&mut self.frontend_buffer[a..b]` / `&self.frontend_buffer[..n]` on the [u8; 232] staging array (panic when out of range)
#[verifier::external_body]
pub fn verif_window_mut(a: &mut [u8; 232], from: usize, to: usize) -> (r: &mut [u8])
    requires from <= to <= 232,
    ensures r@ == old(a)@.subrange(from as int, to as int), final(r)@.len() == to - from,
        final(a)@ == old(a)@.subrange(0, from as int) + final(r)@ + old(a)@.subrange(to as int, 232),
{ unimplemented!() }
#[verifier::external_body]
pub fn verif_prefix(a: &[u8; 232], n: usize) -> (r: &[u8]) requires n <= 232 ensures r@ == a@.subrange(0, n as int) { unimplemented!() }

// pool::Checkout as proved in U-pipe (view = readable window), and the Pipe constructor (pipe.rs) keeping the buffer it is given
#[verifier::external_body] pub struct Checkout { _p: () }
impl Checkout {
    pub uninterp spec fn view(&self) -> Seq<u8>;
    pub uninterp spec fn tail_len(&self) -> nat;
    // U-pipe: space() is the free tail; writing into it and fill(n) appends its first n bytes
    #[verifier::external_body]
    pub fn verif_append(&mut self, bytes: &[u8]) -> (n: usize)
        ensures n as nat == (if bytes@.len() <= old(self).tail_len() { bytes@.len() } else { old(self).tail_len() }),
                final(self)@ == old(self)@ + bytes@.subrange(0, n as int),
    { unimplemented!() }
}
pub struct Pipe<Front: SocketHandler, L> { pub frontend_buffer: Checkout, pub frontend: Front, pub frontend_readiness: Readiness, pub verif_l: PhantomData<L> }
#[verifier::external_body] pub struct Backend { _p: () }
pub enum Protocol { HTTP, HTTPS, TCP, HTTPListen, HTTPSListen, TCPListen, Channel, Metrics, Timer, UDP, UDPListen }
pub enum WebSocketContext { Http, Tcp }
impl<Front: SocketHandler, L> Pipe<Front, L> {
    // Pipe::new (pipe.rs): a struct literal that stores each argument in the field of the same name (the parameter
    // list below is the real one); only the two fields this unit speaks about are specified
    #[verifier::external_body]
    pub fn new(backend_buffer: Checkout, backend_id: Option<String>, backend_socket: Option<TcpStream>, backend: Option<Rc<RefCell<Backend>>>,
               container_backend_timeout: Option<TimeoutContainer>, container_frontend_timeout: Option<TimeoutContainer>, cluster_id: Option<String>,
               frontend_buffer: Checkout, frontend_token: Token, frontend: Front, listener: Rc<RefCell<L>>, protocol: Protocol, session_id: Ulid,
               request_id: Ulid, session_address: Option<SocketAddr>, websocket_context: WebSocketContext) -> (r: Pipe<Front, L>)
        ensures r.frontend_buffer == frontend_buffer && r.frontend == frontend
    { unimplemented!() }
    #[verifier::external_body] pub fn set_back_token(&mut self, t: Token) ensures final(self).frontend_buffer == old(self).frontend_buffer && final(self).frontend == old(self).frontend { unimplemented!() }
}
// `self.addresses.as_ref().and_then(|pa| pa.source()).or_else(|| self.front_socket().peer_addr().ok())` (closures): the address logged for the session
#[verifier::external_body]
pub fn verif_session_address(a: &Option<ProxyAddr>) -> Option<SocketAddr> { unimplemented!() }

// ExpectProxyProtocol: every field of the real struct
//@item lib/src/protocol/proxy_protocol/expect.rs struct ExpectProxyProtocol

impl<Front: SocketHandler> ExpectProxyProtocol<Front> {
    pub open spec fn stage(&self) -> int { match self.header_len { HeaderLen::V4 => 28, HeaderLen::V6 => 52, HeaderLen::Unix => 232 } }
    // the cursor stays within the current stage and, once the fixed 16-byte part is in, within the declared header end
    pub open spec fn wf(&self) -> bool { self.index <= self.stage() && (self.index > 16 ==> self.index <= 16 + spec_be16(self.frontend_buffer@[14], self.frontend_buffer@[15])) }
    pub open spec fn acc(&self) -> Seq<u8> { self.frontend_buffer@.subrange(0, self.index as int) }

    //@fn lib/src/protocol/proxy_protocol/expect.rs ExpectProxyProtocol::readable
    //@  ret r
    //@  optsubst "u16::from_be_bytes([self.frontend_buffer[14], self.frontend_buffer[15]])" => "verif_be16(self.frontend_buffer[14], self.frontend_buffer[15])"
    //@  subst "&mut self.frontend_buffer[self.index..total_len]" => "verif_window_mut(&mut self.frontend_buffer, self.index, total_len)"
    //@  subst "&self.frontend_buffer[..self.index]" => "verif_prefix(&self.frontend_buffer, self.index)"
    //@  requires
    //@    old(self).wf(), old(metrics).bin + 232 <= usize::MAX,
    //@  ensures
    //@    final(self).wf(),                                                                            // [the-cursor-stays-inside-the-stage-and-the-announced-header]
    //@    final(self).frontend.received().len() >= old(self).frontend.received().len()
    //@      && final(self).acc() == old(self).acc() + final(self).frontend.received().subrange(old(self).frontend.received().len() as int, final(self).frontend.received().len() as int), // [the-header-bytes-accumulate-exactly-as-delivered-however-fragmented]
    //@    final(self).frontend.sent() == old(self).frontend.sent(),                                    // [nothing-is-forwarded-in-this-state]
    //@    r == SessionResult::Upgrade ==> (spec_parse(final(self).acc()) matches Parsed::Complete { consumed, addr } && final(self).addresses == Some(addr)), // [upgrade-only-on-a-complete-header-with-exactly-its-addresses]
    //@    spec_parse(final(self).acc()) is Invalid ==> r == SessionResult::Close,                      // [a-malformed-header-closes]
    //@    r == SessionResult::Upgrade ==> (spec_parse(final(self).acc()) matches Parsed::Complete { consumed, addr } && consumed == final(self).index), // [never-reads-past-the-end-of-the-header]
    //@    spec_parse(final(self).acc()) is Incomplete && final(self).index == 232 ==> r == SessionResult::Close, // [an-oversized-header-closes]
    //@end

    //@fn lib/src/protocol/proxy_protocol/expect.rs ExpectProxyProtocol::into_pipe
    //@  ret r
    //@  optsubst "let space = front_buf.space();\n            let len = rest.len().min(space.len());\n            space[..len].copy_from_slice(&rest[..len]);\n            front_buf.fill(len);" => "let len = front_buf.verif_append(rest);"
    //@  cut "let addr = self" .. "let mut pipe = Pipe::new(" => "let addr: Option<SocketAddr> = verif_session_address(&self.addresses);\n\n        "
    //@  optsubst "&self.frontend_buffer[..self.index]" => "verif_prefix(&self.frontend_buffer, self.index)"
    //@  requires
    //@    self.index <= 232, front_buf@.len() == 0, front_buf.tail_len() >= 232,
    //@  ensures
    //@    spec_parse(self.acc()) matches Parsed::Complete { consumed, addr } ==> r.frontend_buffer@ == self.acc().subrange(consumed as int, self.index as int), // [bytes-read-behind-the-header-are-handed-to-the-relay]
    //@    !(spec_parse(self.acc()) is Complete) ==> r.frontend_buffer@.len() == 0,
    //@    r.frontend == self.frontend,                                                                  // [the-client-socket-moves-to-the-relay-untouched]
    //@end
}

} // verus!
fn main() {}
