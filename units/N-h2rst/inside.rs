    // Bounded native scenario for C02 / C01 on the wire (unit N-h2rst): a REAL in-process worker (HTTPS listener, raw
    // HTTP/2 client over TLS, one HTTP/1.1 backend serving /big = 12 MB of the octet '0' and /small = "hello"), appended as
    // a test module to e2e/src/tests/tests.rs in a scratch copy. "A failure of one request never corrupts or stalls other
    // requests on the same connection": the client asks for /big with wide windows and does NOT read for a while (sozu's
    // socket writes stall part-way through a DATA frame of stream 1), cancels stream 1 with RST_STREAM, asks for /small on
    // stream 3, then reads everything. The frames sozu wrote must parse back to back, every DATA octet of stream 1 must
    // be '0', and stream 3 must get 200 + "hello" + END_STREAM.
    use std::io::{Read, Write};
    use crate::tests::h2_utils::{h2_handshake_with_initial_window, raw_h2_connection, H2Frame};

    #[test]
    fn enumerate() {
        const BODY: usize = 12 * 1024 * 1024;
        use sozu_command_lib::{config::ListenerBuilder, proto::command::{request::RequestType, ActivateListener, AddCertificate, CertificateAndKey, ListenerType, RequestHttpFrontend, SocketAddress}};
        let front_port = crate::port_registry::provide_port();
        let front = SocketAddress::new_v4(127, 0, 0, 1, front_port);
        let (config, listeners, state) = Worker::empty_https_config(front.clone().into());
        let mut worker = Worker::start_new_worker_owned("VERIF-H2RST", config, listeners, state);
        worker.send_proxy_request_type(RequestType::AddHttpsListener(ListenerBuilder::new_https(front.clone()).to_tls(None).unwrap()));
        worker.send_proxy_request_type(RequestType::ActivateListener(ActivateListener { address: front.clone(), proxy: ListenerType::Https.into(), from_scm: false }));
        worker.send_proxy_request_type(RequestType::AddCluster(Worker::default_cluster("cluster_0")));
        worker.send_proxy_request_type(RequestType::AddHttpsFrontend(RequestHttpFrontend { hostname: String::from("localhost"), ..Worker::default_http_frontend("cluster_0", front.clone().into()) }));
        worker.send_proxy_request_type(RequestType::AddCertificate(AddCertificate { address: front.clone(), certificate: CertificateAndKey { certificate: String::from(include_str!("../../../lib/assets/local-certificate.pem")), key: String::from(include_str!("../../../lib/assets/local-key.pem")), certificate_chain: vec![], versions: vec![], names: vec![] }, expired_at: None }));
        let back_address = create_local_address();
        worker.send_proxy_request_type(RequestType::AddBackend(Worker::default_backend("cluster_0", "cluster_0-0", back_address, None)));
        worker.read_to_last();
        let back = crate::port_registry::bind_std_listener(back_address, "blocking /big and /small backend");
        let stop = std::sync::Arc::new(std::sync::atomic::AtomicBool::new(false));
        let stop_b = stop.clone();
        let backend = thread::spawn(move || {
            back.set_nonblocking(true).unwrap();
            while !stop_b.load(std::sync::atomic::Ordering::SeqCst) {
                match back.accept() {
                    Ok((mut conn, _)) => { thread::spawn(move || {
                        conn.set_nonblocking(false).unwrap();
                        conn.set_read_timeout(Some(Duration::from_secs(20))).unwrap();
                        let mut buf = [0u8; 8192];
                        let n = conn.read(&mut buf).unwrap_or(0);
                        if String::from_utf8_lossy(&buf[..n]).starts_with("GET /small") {
                            let _ = conn.write_all(b"HTTP/1.1 200 OK\r\nContent-Length: 5\r\n\r\nhello");
                        } else {
                            let _ = conn.write_all(format!("HTTP/1.1 200 OK\r\nContent-Length: {BODY}\r\n\r\n").as_bytes());
                            let chunk = vec![b'0'; 1 << 16];
                            let mut left = BODY;
                            while left > 0 { let k = left.min(chunk.len()); if conn.write_all(&chunk[..k]).is_err() { break; } left -= k; }
                        }
                        let _ = conn.read(&mut buf);
                    }); }
                    Err(_) => thread::sleep(Duration::from_millis(10)),
                }
            }
        });
        let mut tls = raw_h2_connection(std::net::SocketAddr::from(([127, 0, 0, 1], front_port)));
        h2_handshake_with_initial_window(&mut tls, 0x7fff_0000);
        let _ = tls.write_all(&H2Frame::window_update(0, 0x7fff_0000 - 65_535).encode());
        fn lit(buf: &mut Vec<u8>, name: &[u8], value: &[u8]) { buf.push(0x00); buf.push(name.len() as u8); buf.extend_from_slice(name); buf.push(value.len() as u8); buf.extend_from_slice(value); }
        let mut h = Vec::new();
        lit(&mut h, b":method", b"GET"); lit(&mut h, b":scheme", b"https"); lit(&mut h, b":path", b"/big"); lit(&mut h, b":authority", b"localhost");
        let _ = tls.write_all(&H2Frame::headers(1, h, true, true).encode());
        let _ = tls.flush();
        // let sozu fill every buffer between it and us: its write stalls part-way through a DATA frame of stream 1
        thread::sleep(Duration::from_millis(1500));
        let _ = tls.write_all(&H2Frame::rst_stream(1, 8).encode());   // CANCEL
        let mut h3 = Vec::new();
        lit(&mut h3, b":method", b"GET"); lit(&mut h3, b":scheme", b"https"); lit(&mut h3, b":path", b"/small"); lit(&mut h3, b":authority", b"localhost");
        let _ = tls.write_all(&H2Frame::headers(3, h3, true, true).encode());
        let _ = tls.flush();
        thread::sleep(Duration::from_millis(300));
        // now read everything
        tls.sock.set_read_timeout(Some(Duration::from_millis(500))).unwrap();
        let mut carry: Vec<u8> = Vec::new();
        let mut buf = vec![0u8; 1 << 16];
        let (mut data_octets, mut bad_octet, mut frames) = (0usize, None::<(usize, u8)>, 0u64);
        let (mut s3_status, mut s3_body, mut s3_end) = (false, Vec::<u8>::new(), false);
        let mut problem: Option<String> = None;
        let deadline = Instant::now() + Duration::from_secs(60);
        let mut idle = 0;
        'read: while Instant::now() < deadline && !s3_end {
            match tls.read(&mut buf) {
                Ok(0) => break,
                Ok(n) => { idle = 0; carry.extend_from_slice(&buf[..n]); }
                Err(_) => { idle += 1; if idle > 16 { break; } continue; }
            }
            loop {
                if carry.len() < 9 { break; }
                let len = ((carry[0] as usize) << 16) | ((carry[1] as usize) << 8) | carry[2] as usize;
                let (ty, flags) = (carry[3], carry[4]);
                let sid = u32::from_be_bytes([carry[5], carry[6], carry[7], carry[8]]) & 0x7fff_ffff;
                if len > 16384 { problem = Some(format!("frame #{frames}: declared length {len} > 16384 (type {ty}, stream {sid}): the frame stream is out of step after {data_octets} body octets of the cancelled stream")); break 'read; }
                if ty > 9 && ty != 0x10 { problem = Some(format!("frame #{frames}: unknown frame type {ty} (stream {sid}, length {len}): the frame stream is out of step after {data_octets} body octets of the cancelled stream")); break 'read; }
                if carry.len() < 9 + len { break; }
                let payload: Vec<u8> = carry[9..9 + len].to_vec();
                carry.drain(..9 + len);
                frames += 1;
                match (ty, sid) {
                    (0, 1) => {
                        if bad_octet.is_none() { if let Some(p) = payload.iter().position(|b| *b != b'0') { bad_octet = Some((data_octets + p, payload[p])); } }
                        data_octets += payload.len();
                    }
                    (0, 3) => { s3_body.extend_from_slice(&payload); if flags & 0x1 != 0 { s3_end = true; } }
                    (1, 3) => { s3_status = payload.first() == Some(&0x88) || payload.windows(3).any(|w| w == b"200"); if flags & 0x1 != 0 { s3_end = true; } }
                    (0, _) => { problem = Some(format!("DATA on stream {sid}")); break 'read; }
                    (7, _) => { problem = Some(format!("sozu sent GOAWAY (error code {}) after {data_octets} body octets of the cancelled stream", u32::from_be_bytes([payload[4], payload[5], payload[6], payload[7]]))); break 'read; }
                    (3, 3) => { problem = Some("sozu reset stream 3 (the request sent after the cancellation)".to_string()); break 'read; }
                    _ => {}
                }
            }
        }
        // a DATA frame of the cancelled stream left incomplete at the end: its partial payload must still be the backend's octets
        if problem.is_none() && bad_octet.is_none() && carry.len() > 9 && carry[3] == 0 && (u32::from_be_bytes([carry[5], carry[6], carry[7], carry[8]]) & 0x7fff_ffff) == 1 {
            let declared = ((carry[0] as usize) << 16) | ((carry[1] as usize) << 8) | carry[2] as usize;
            if let Some(p) = carry[9..].iter().position(|b| *b != b'0') {
                problem = Some(format!("the last DATA frame of the cancelled stream declares {declared} octets; after {p} of them come octets that are not the backend's (0x{:02x} ..): sozu dropped the rest of that frame when the stream was cancelled and wrote the next frames inside it; the request on stream 3 is never answered", carry[9 + p]));
            }
        }
        let mut fails: Vec<String> = Vec::new();
        if let Some(p) = problem { fails.push(p); }
        if let Some((off, b)) = bad_octet { fails.push(format!("body octet #{off} of the cancelled stream is 0x{b:02x}, the backend only sent '0' (0x30): foreign octets inside a DATA frame")); }
        if fails.is_empty() && s3_end && !(s3_status && s3_body == b"hello") { fails.push(format!("the request on stream 3 is answered with status-ok {s3_status} and body {:?}, the backend sent 200 and \"hello\"", String::from_utf8_lossy(&s3_body))); }
        // no answer on stream 3 WITHOUT any sign of corruption cannot be told from a slow machine: no verdict
        let inconclusive = fails.is_empty() && !s3_end;
        if inconclusive { println!("N-h2rst: inconclusive: stream 3 not answered, {data_octets} body octets of stream 1, {} octets pending", carry.len()); }
        println!("N-h2rst: {frames} frames, {data_octets} body octets of the cancelled stream, stream 3: status-ok {s3_status}, body {:?}, END_STREAM {s3_end}", String::from_utf8_lossy(&s3_body));
        drop(tls);
        stop.store(true, std::sync::atomic::Ordering::SeqCst);
        worker.soft_stop();
        let _ = worker.wait_for_server_stop();
        let _ = backend.join();
        let fl: Vec<String> = fails.iter().take(1).map(|o| format!("{{\"input\": {:?}, \"observed\": {:?}}}", "HTTP/2 GET of a 12 MB body over TLS, the client does not read for 1.5 s, sends RST_STREAM(1, CANCEL) and GET /small on stream 3, then reads everything", o)).collect();
        println!("{{\"bound\": \"one scripted scenario on a real worker: a stalled large response is cancelled and another request follows on the same connection\", \"states\": 1, \"pairs\": 1, \"nontrivial_pairs\": {}, \"failures\": [{}]}}", if inconclusive { 0 } else { 1 }, fl.join(", "));
    }
