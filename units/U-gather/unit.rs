// Unit U-gather — bin/src/command/server.rs gatherer + completion, bin/src/command/requests.rs verdict (serves C09)
// Property sentences -> contracts:
//  "receives exactly one final answer per request, and it is OK only if every worker ... acknowledged it successfully;
//   if any worker reported failure ... or did not answer within the worker timeout the final answer is a failure"
//   -> WorkerTask::on_finish appends exactly one verdict to the client's answer log: OK <=> errors == 0 && !timed_out
//   -> CommandHub::handle_finishing_task calls the completion handler exactly once WITH THE FLAG IT WAS GIVEN
//      (ghost history `finish_log` of the flags handed to completion handlers)
//   -> DefaultGatherer counts each worker message towards completion at most once, by its status
use vstd::prelude::*;
use std::marker::PhantomData;
verus! {

// ---------------------------------------------------------------- shims (ASSUMED contracts / ghost history variables)
pub type TaskId = usize;
pub type WorkerId = u32;
#[verifier::external_body] #[derive(Clone, Copy)] pub struct Token { _p: () }
#[verifier::external_body] pub struct Instant { _p: () }
#[verifier::external_body] pub struct ResponseContent { _p: () }
#[verifier::external_body] pub struct AuditEntry { _p: () }
#[verifier::external_body] pub struct InlineAuditTarget { _p: () }
#[verifier::external_body] pub struct MetricDetailAuditFields { _p: () }
#[verifier::external_body] pub struct ClientSession { _p: () }
#[verifier::external_body] pub struct RequestId { _p: () }

// HashMap<RequestId, TaskId> as a mathematical map
#[verifier::external_body]
#[verifier::reject_recursive_types(K)]
#[verifier::reject_recursive_types(V)]
pub struct HashMap<K, V> { _p: PhantomData<(K, V)> }
impl<K, V> HashMap<K, V> {
    pub uninterp spec fn view(&self) -> Map<K, V>;
}
impl<K> HashMap<K, TaskId> {
    // `retain(|_, v| <predicate on *v>)` (closure with a `&mut` parameter, outside Verus): std semantics — exactly the
    // entries whose value satisfies the predicate stay, with their values. The predicate itself is the REAL text
    // (captured by the regex substitution and passed as a spec closure).
    #[verifier::external_body]
    pub fn verif_retain_where(&mut self, Ghost(keep): Ghost<spec_fn(TaskId) -> bool>)
        ensures
            forall|k: K| #[trigger] final(self)@.contains_key(k) <==> (old(self)@.contains_key(k) && keep(old(self)@[k])),
            forall|k: K| #[trigger] final(self)@.contains_key(k) ==> final(self)@[k] == old(self)@[k],
            forall|k: K| #[trigger] old(self)@.contains_key(k) && keep(old(self)@[k]) ==> final(self)@.contains_key(k),
    { unimplemented!() }
}

// the main-process Server: `finish_log` is a ghost history of the `timed_out` flags handed to completion handlers
pub struct Server {
    pub in_flight: HashMap<RequestId, TaskId>,
    pub ghost_finish_log: Ghost<Seq<bool>>,
    pub rest: ServerRest,
}
#[verifier::external_body] pub struct ServerRest { _p: () }
impl Server {
    pub open spec fn finish_log(&self) -> Seq<bool> { self.ghost_finish_log@ }
    #[verifier::external_body]
    pub fn update_counts(&mut self)
        ensures final(self).finish_log() == old(self).finish_log(), final(self).in_flight == old(self).in_flight,
    { unimplemented!() }
}

// the command-socket client: `answers` is a ghost history of the FINAL answers sent to it (true = OK, false = failure)
#[verifier::external_body]
pub struct OptionalClient { _p: () }
impl OptionalClient {
    pub uninterp spec fn answers(&self) -> Seq<bool>;
    #[verifier::external_body]
    pub fn finish_ok(&mut self, message: &str)
        ensures final(self).answers() == old(self).answers().push(true),
    { unimplemented!() }
    #[verifier::external_body]
    pub fn finish_failure(&mut self, message: String)
        ensures final(self).answers() == old(self).answers().push(false),
    { unimplemented!() }
    #[verifier::external_body]
    pub fn return_processing(&mut self, message: String)
        ensures final(self).answers() == old(self).answers(),
    { unimplemented!() }
}
#[verifier::external_body]
pub fn verif_lookup_client(token: Option<Token>, clients: &mut HashMap<Token, ClientSession>) -> OptionalClient { unimplemented!() }
#[verifier::external_body]
pub fn verif_processing_msg(worker_id: WorkerId, message: &WorkerResponse) -> String { unimplemented!() }
// the human-readable per-worker message list (for loop + format! + sanitiser: cut, R8) — any String
#[verifier::external_body]
pub fn verif_messages() -> String { unimplemented!() }

//@global-subst "::prost::alloc::string::String" => "String"
//@global-subst "::core::option::Option" => "Option"
//@item command/src/proto/command.rs struct WorkerResponse
//@item command/src/proto/command.rs enum ResponseStatus
// prost-generated `impl TryFrom<i32> for ResponseStatus` (pure; ASSUMED: decodes 0/1/2 to Ok/Processing/Failure, else Err)
pub open spec fn spec_status(v: i32) -> Option<ResponseStatus> {
    if v == 0 { Some(ResponseStatus::Ok) } else if v == 1 { Some(ResponseStatus::Processing) } else if v == 2 { Some(ResponseStatus::Failure) } else { None }
}
#[verifier::external_body] pub struct UnknownEnumValue { _p: () }
impl ResponseStatus {
    #[verifier::external_body]
    pub fn try_from(v: i32) -> (r: Result<ResponseStatus, UnknownEnumValue>)
        ensures (r matches Ok(s) ==> spec_status(v) == Some(s)), (r is Err ==> spec_status(v) is None),
    { unimplemented!() }
}

//@item bin/src/command/server.rs struct DefaultGatherer
//@item bin/src/command/server.rs struct TaskContainer
//@item bin/src/command/requests.rs struct WorkerTask

pub trait GatheringTask {
    fn client_token(&self) -> Option<Token>;
    // history variable: every completion handler records the flag it was handed
    fn on_finish(self: Box<Self>, server: &mut Server, client: &mut OptionalClient, timed_out: bool)
        ensures final(server).finish_log() == old(server).finish_log().push(timed_out),
                final(server).in_flight == old(server).in_flight;
}

pub struct CommandHub {
    pub server: Server,
    pub clients: HashMap<Token, ClientSession>,
}

impl DefaultGatherer {
    // representation invariant (the repository's own debug_assert in WorkerTask::on_finish)
    pub open spec fn wf(&self) -> bool { self.ok + self.errors <= self.responses@.len() && self.responses@.len() <= usize::MAX /* true of every Vec */ }

    //@fn bin/src/command/server.rs Gatherer for DefaultGatherer::inc_expected_responses
    //@  requires
    //@    old(self).expected_responses + count <= usize::MAX,
    //@  ensures
    //@    final(self).expected_responses == old(self).expected_responses + count,                      // [adds-exactly-count]
    //@    final(self).ok == old(self).ok && final(self).errors == old(self).errors && final(self).responses == old(self).responses, // [frame]
    //@end

    //@fn bin/src/command/server.rs Gatherer for DefaultGatherer::has_finished
    //@  ret r
    //@  requires
    //@    self.wf(),
    //@  ensures
    //@    r <==> self.ok + self.errors >= self.expected_responses,                                    // [finished-iff-all-terminal-answers-in]
    //@end

    //@fn bin/src/command/server.rs Gatherer for DefaultGatherer::on_message
    //@  subst "format!(\n                \"Worker {} is processing {}. {}\",\n                worker_id, message.id, message.message\n            )" => "verif_processing_msg(worker_id, &message)"
    //@  drop_dassert 1 usize::from(matches!(..)) is outside Verus; its content is the [counts-by-status] clause
    //@  requires
    //@    old(self).wf(),
    //@    old(self).responses@.len() < usize::MAX,
    //@  ensures
    //@    final(self).wf(),                                                                            // [wf]
    //@    final(self).ok == old(self).ok + (if spec_status(message.status) == Some(ResponseStatus::Ok) { 1int } else { 0 }), // [ok-counts-Ok-once]
    //@    final(self).errors == old(self).errors + (if spec_status(message.status) == Some(ResponseStatus::Failure) { 1int } else { 0 }), // [errors-counts-Failure-once]
    //@    final(self).responses@ == old(self).responses@.push((worker_id, message)),                   // [archived-exactly-once]
    //@    final(self).expected_responses == old(self).expected_responses,                              // [expected-unchanged]
    //@    final(client).answers() == old(client).answers(),                                            // [no-final-answer-from-a-worker-message]
    //@end
}

impl CommandHub {
    //@fn bin/src/command/server.rs CommandHub::handle_finishing_task
    //@  subst "task\n            .job\n            .client_token()\n            .and_then(|token| self.clients.get_mut(&token))" => "verif_lookup_client(task.job.client_token(), &mut self.clients)"
    //@  resubst "self\\.in_flight\\s*\\.retain\\(\\|_, in_flight_task_id\\| \\*in_flight_task_id ([!=<>]=?|==) task_id\\)" => "self.server.in_flight.verif_retain_where(Ghost(|verif_v: TaskId| verif_v \\1 task_id))"
    //@  drop_dassert 0 iterator adaptor values().all(..); its content is the [in-flight-purged] clause
    //@  ensures
    //@    final(self).server.finish_log() == old(self).server.finish_log().push(timed_out),            // [handler-called-once-with-the-flag-received]
    //@    forall|k: RequestId| #[trigger] final(self).server.in_flight@.contains_key(k) ==> final(self).server.in_flight@[k] != task_id, // [in-flight-purged]
    //@    forall|k: RequestId| old(self).server.in_flight@.contains_key(k) && old(self).server.in_flight@[k] != task_id
    //@        ==> #[trigger] final(self).server.in_flight@.contains_key(k) && final(self).server.in_flight@[k] == old(self).server.in_flight@[k], // [other-tasks-kept]
    //@end
}

impl WorkerTask {
    //@fn bin/src/command/requests.rs GatheringTask for WorkerTask::on_finish
    //@  cut "let mut messages = vec![];" .. "let errors = self.gatherer.errors;" => "let messages = verif_messages();\n        "
    //@  cut "let result = if errors > 0 || timed_out {" .. "if errors > 0 || timed_out {\n            client.finish_failure" => ""
    //@  subst "messages.join(\", \")" => "messages"
    //@  requires
    //@    self.gatherer.wf(),
    //@    timed_out || self.gatherer.ok + self.gatherer.errors >= self.gatherer.expected_responses,
    //@  ensures
    //@    final(client).answers() == old(client).answers().push(self.gatherer.errors == 0 && !timed_out), // [exactly-one-verdict-ok-iff-no-error-and-no-timeout]
    //@    final(server).finish_log() == old(server).finish_log(),
    //@end
}

} // verus!
fn main() {}
