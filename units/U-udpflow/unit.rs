// Unit U-udpflow — lib/src/protocol/udp/flow.rs per-flow state machine (serves C19, narrowly)
// Property sentence -> contract: "UDP flows are ... bounded and torn down once": the phase only moves forward
// (Awaiting -> Established -> Closing, nothing leaves Closing); counters saturate and never wrap back under an
// exhausted cap; a teardown reason is reported iff a configured cap is exhausted; every datagram invalidates
// the previous idle-timer generation; first-datagram-only PROXY prefix is granted exactly once.
use vstd::prelude::*;
verus! {

#[verifier::external_body] #[derive(Clone, Copy)] pub struct SocketAddr { _p: () }
#[verifier::external_body] #[derive(Clone, Copy)] pub struct Instant { _p: () }
#[verifier::external_body] #[derive(Clone, Copy)] pub struct Duration { _p: () }
pub type ClusterId = String;
pub uninterp spec fn spec_instant_add(a: Instant, d: Duration) -> Instant;
#[verifier::external_body]
pub fn verif_instant_add(a: Instant, d: Duration) -> (r: Instant) ensures r == spec_instant_add(a, d) { unimplemented!() }

//@item lib/src/protocol/udp/flow.rs enum CloseReason structural
//@item lib/src/protocol/udp/flow.rs enum FlowPhase structural
//@item lib/src/protocol/udp/mod.rs struct ClusterConfig
//@global-subst "std::time::Duration" => "Duration"
//@item lib/src/protocol/udp/flow.rs struct UdpFlow

// legal lifecycle edges, from the property ("torn down once": no edge leaves Closing, none goes backwards)
pub open spec fn legal_edge(from: FlowPhase, to: FlowPhase) -> bool {
    ||| (from == FlowPhase::AwaitingBackend && to == FlowPhase::Established)
    ||| (from == FlowPhase::AwaitingBackend && to == FlowPhase::Closing)
    ||| (from == FlowPhase::Established && to == FlowPhase::Closing)
}
pub open spec fn sat_inc(x: u32) -> u32 { if x == u32::MAX { x } else { (x + 1) as u32 } }

impl UdpFlow {
    // who the flow talks to: fixed for the life of the flow by everything in this file
    pub open spec fn same_peers(&self, o: &UdpFlow) -> bool {
        self.client == o.client && self.backend_addr == o.backend_addr && self.backend_id == o.backend_id && self.config == o.config
            && self.pending_payload == o.pending_payload
    }
    pub open spec fn spec_requests_exhausted(&self) -> bool { self.config.requests != 0 && self.requests_seen >= self.config.requests }
    pub open spec fn spec_responses_exhausted(&self) -> bool { self.config.responses != 0 && self.responses_seen >= self.config.responses }

    //@fn lib/src/protocol/udp/flow.rs UdpFlow::touch
    //@  ret r
    //@  subst "now + timeout" => "verif_instant_add(now, timeout)"
    //@  ensures
    //@    final(self).timer_gen != old(self).timer_gen && r == final(self).timer_gen,                  // [generation-invalidated]
    //@    final(self).idle_deadline == spec_instant_add(now, timeout),                                 // [deadline-pushed-back]
    //@    final(self).phase == old(self).phase && final(self).requests_seen == old(self).requests_seen
    //@      && final(self).responses_seen == old(self).responses_seen && final(self).config == old(self).config, // [frame]
    //@    final(self).same_peers(old(self)) && final(self).first_upstream_pending == old(self).first_upstream_pending, // [peers-untouched]
    //@end

    //@fn lib/src/protocol/udp/flow.rs UdpFlow::on_client_datagram
    //@  ret r
    //@  requires
    //@    old(self).phase == FlowPhase::Established,
    //@  ensures
    //@    final(self).requests_seen == sat_inc(old(self).requests_seen),                               // [requests-plus-one-saturating]
    //@    final(self).responses_seen == old(self).responses_seen && final(self).phase == old(self).phase, // [frame]
    //@    old(self).spec_requests_exhausted() ==> final(self).spec_requests_exhausted(),              // [exhausted-cap-stays-exhausted]
    //@    final(self).timer_gen != old(self).timer_gen,                                                // [generation-invalidated]
    //@    final(self).same_peers(old(self)) && final(self).first_upstream_pending == old(self).first_upstream_pending, // [peers-untouched]
    //@end

    //@fn lib/src/protocol/udp/flow.rs UdpFlow::on_backend_datagram
    //@  ret r
    //@  requires
    //@    old(self).phase == FlowPhase::Established,
    //@  ensures
    //@    final(self).responses_seen == sat_inc(old(self).responses_seen),                             // [responses-plus-one-saturating]
    //@    final(self).requests_seen == old(self).requests_seen && final(self).phase == old(self).phase, // [frame]
    //@    old(self).spec_responses_exhausted() ==> final(self).spec_responses_exhausted(),            // [exhausted-cap-stays-exhausted]
    //@    final(self).timer_gen != old(self).timer_gen,                                                // [generation-invalidated]
    //@    final(self).same_peers(old(self)) && final(self).first_upstream_pending == old(self).first_upstream_pending, // [peers-untouched]
    //@end

    //@fn lib/src/protocol/udp/flow.rs UdpFlow::set_phase
    //@  requires
    //@    legal_edge(old(self).phase, next),
    //@  ensures
    //@    final(self).phase == next,                                                                   // [phase-set]
    //@    final(self).requests_seen == old(self).requests_seen && final(self).responses_seen == old(self).responses_seen, // [frame]
    //@    final(self).same_peers(old(self)) && final(self).first_upstream_pending == old(self).first_upstream_pending && final(self).timer_gen == old(self).timer_gen, // [peers-untouched]
    //@end

    //@fn lib/src/protocol/udp/flow.rs UdpFlow::requests_exhausted
    //@  ret r
    //@  ensures
    //@    r == self.spec_requests_exhausted(),                                                         // [zero-means-unlimited]
    //@end
    //@fn lib/src/protocol/udp/flow.rs UdpFlow::responses_exhausted
    //@  ret r
    //@  ensures
    //@    r == self.spec_responses_exhausted(),                                                        // [zero-means-unlimited]
    //@end
    //@fn lib/src/protocol/udp/flow.rs UdpFlow::teardown_reason
    //@  ret r
    //@  ensures
    //@    r is Some <==> (self.spec_responses_exhausted() || self.spec_requests_exhausted()),         // [reason-iff-a-cap-is-exhausted]
    //@    self.spec_responses_exhausted() ==> r == Some(CloseReason::ResponsesReached),               // [responses-before-requests]
    //@    !self.spec_responses_exhausted() && self.spec_requests_exhausted() ==> r == Some(CloseReason::RequestsReached), // [requests]
    //@end
    //@fn lib/src/protocol/udp/flow.rs UdpFlow::take_proxy_protocol
    //@  ret r
    //@  ensures
    //@    !old(self).config.send_proxy_protocol ==> !r,                                                     // [never-when-disabled]
    //@    old(self).config.send_proxy_protocol && old(self).config.proxy_protocol_every_datagram ==> r, // [every-datagram-mode]
    //@    old(self).config.send_proxy_protocol && !old(self).config.proxy_protocol_every_datagram ==>
    //@        (r == old(self).first_upstream_pending && !final(self).first_upstream_pending),          // [first-datagram-only-exactly-once]
    //@    final(self).config == old(self).config,                                                      // [frame]
    //@    final(self).same_peers(old(self)) && final(self).phase == old(self).phase && final(self).requests_seen == old(self).requests_seen && final(self).responses_seen == old(self).responses_seen, // [peers-and-counters-untouched]
    //@end
}

} // verus!
fn main() {}
