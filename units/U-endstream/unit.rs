// Unit U-endstream — lib/src/protocol/mux/shared.rs end-of-stream decision + TLS close drain (serves C02, narrowly)
// Property sentences -> contract (decision table): "502 backend closed early ... never a truncated body presented as
// complete ... a request is retried only when nothing of it was consumed":
//   SendDefault(s)     ==> s == 502 and no response is available and part of the request was consumed
//   Reconnect          ==> no response is available and NOTHING of the request was consumed
//   ForwardTerminated <==> a response is in its main phase and complete
//   CloseDelimited     ==> a partial response on a non-keep-alive backend connection (close-delimited body)
//   ForwardUnterminated==> a partial response on a keep-alive backend connection (must be aborted, not completed)
use vstd::prelude::*;
verus! {

// kawa::Kawa accessors: uninterpreted predicates of the parser state (external crate, no specs)
#[verifier::external_body] pub struct BackKawa { _p: () }
impl BackKawa {
    pub uninterp spec fn spec_main_phase(&self) -> bool;
    pub uninterp spec fn spec_terminated(&self) -> bool;
    #[verifier::external_body] pub fn is_main_phase(&self) -> (r: bool) ensures r == self.spec_main_phase() { unimplemented!() }
    #[verifier::external_body] pub fn is_terminated(&self) -> (r: bool) ensures r == self.spec_terminated() { unimplemented!() }
    pub uninterp spec fn spec_completed(&self) -> bool;
    pub uninterp spec fn spec_initial(&self) -> bool;
    pub uninterp spec fn spec_error(&self) -> bool;
    #[verifier::external_body] pub fn is_completed(&self) -> (r: bool) ensures r == self.spec_completed() { unimplemented!() }
    #[verifier::external_body] pub fn is_initial(&self) -> (r: bool) ensures r == self.spec_initial() { unimplemented!() }
    #[verifier::external_body] pub fn is_error(&self) -> (r: bool) ensures r == self.spec_error() { unimplemented!() }
}
pub struct FrontKawa { pub consumed: bool, pub verif_rest: FrontRest }
#[verifier::external_body] pub struct FrontRest { _p: () }
// the other kawa::Kawa state accessors on the request side: uninterpreted (independent of `consumed`), so a decision
// that consults them instead of `consumed` is not accepted as equivalent
impl FrontKawa {
    pub uninterp spec fn spec_completed(&self) -> bool;
    pub uninterp spec fn spec_terminated(&self) -> bool;
    pub uninterp spec fn spec_initial(&self) -> bool;
    pub uninterp spec fn spec_main_phase(&self) -> bool;
    pub uninterp spec fn spec_error(&self) -> bool;
    #[verifier::external_body] pub fn is_completed(&self) -> (r: bool) ensures r == self.spec_completed() { unimplemented!() }
    #[verifier::external_body] pub fn is_terminated(&self) -> (r: bool) ensures r == self.spec_terminated() { unimplemented!() }
    #[verifier::external_body] pub fn is_initial(&self) -> (r: bool) ensures r == self.spec_initial() { unimplemented!() }
    #[verifier::external_body] pub fn is_main_phase(&self) -> (r: bool) ensures r == self.spec_main_phase() { unimplemented!() }
    #[verifier::external_body] pub fn is_error(&self) -> (r: bool) ensures r == self.spec_error() { unimplemented!() }
}
pub struct HttpContext { pub keep_alive_backend: bool }
pub struct Stream { pub back: BackKawa, pub front: FrontKawa, pub context: HttpContext }

//@item lib/src/protocol/mux/shared.rs enum EndStreamAction structural

//@fn lib/src/protocol/mux/shared.rs end_stream_decision
//@  ret r
//@  ensures
//@    r matches EndStreamAction::SendDefault(s) ==> s == 502 && !stream.back.spec_main_phase() && stream.front.consumed, // [502-only-when-no-response-and-request-consumed]
//@    r == EndStreamAction::Reconnect ==> !stream.back.spec_main_phase() && !stream.front.consumed,      // [retry-only-when-nothing-consumed]
//@    r == EndStreamAction::ForwardTerminated <==> (stream.back.spec_main_phase() && stream.back.spec_terminated()), // [complete-response-forwarded]
//@    r == EndStreamAction::CloseDelimited ==> stream.back.spec_main_phase() && !stream.back.spec_terminated() && !stream.context.keep_alive_backend, // [close-delimited-only-without-keep-alive]
//@    r == EndStreamAction::ForwardUnterminated ==> stream.back.spec_main_phase() && !stream.back.spec_terminated() && stream.context.keep_alive_backend, // [truncated-keep-alive-response-is-aborted]
//@    !stream.back.spec_main_phase() ==> (r is SendDefault || r == EndStreamAction::Reconnect), // [no-response-means-answer-or-retry]
//@end

// the socket as seen by drain_tls_close_notify
pub enum SocketResult { Continue, Closed, WouldBlock, Error }
pub trait SocketHandler {
    fn socket_close(&mut self);
    fn socket_wants_write(&self) -> bool;
    fn socket_write_vectored(&mut self, bufs: &[&[u8]]) -> (usize, SocketResult);
}

//@fn lib/src/protocol/mux/shared.rs drain_tls_close_notify
//@  ret r
//@  ensures
//@    *final(close_notify_sent),                                                   // [close-notify-marked-sent]
//@    r.1 <= 16,                                                                   // [bounded-drain]
//@  loop 0
//@    invariant drain_rounds <= MAX_DRAIN_ROUNDS, MAX_DRAIN_ROUNDS == 16,
//@    decreases MAX_DRAIN_ROUNDS - drain_rounds,
//@end

} // verus!
fn main() {}
