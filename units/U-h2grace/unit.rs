// Unit U-h2grace — lib/src/https.rs and lib/src/http.rs: L7ListenerHandler::get_h2_graceful_shutdown_deadline (C10)
// Property sentence -> contract: "soft stop ... cuts no request": the deadline after which a stopping worker force-closes HTTP/2
// sessions that still have streams open is the operator's: the documented knob value 0 means NEVER force-close (in-flight
// requests are allowed to finish, whatever it takes), an unset knob means the documented default of 5 s, and any other
// value is that many seconds — never shorter.
use vstd::prelude::*;
verus! {

// std::time::Duration narrowed to whole seconds (declared at top level: a derive inside a nested module trips Verus)
#[derive(PartialEq, Eq, Structural, Clone, Copy)]
pub struct VerifDuration { pub secs: u64 }
impl VerifDuration { pub fn from_secs(s: u64) -> (r: VerifDuration) ensures r.secs == s { VerifDuration { secs: s } } }
pub mod std { pub mod time { pub use super::super::VerifDuration as Duration; } }
pub struct ListenerConfig { pub h2_graceful_shutdown_deadline_seconds: Option<u32> }
pub open spec fn spec_deadline(knob: Option<u32>) -> Option<std::time::Duration> {
    match knob { None => Some(VerifDuration { secs: 5 }), Some(s) => if s == 0 { None } else { Some(VerifDuration { secs: s as u64 }) } }
}
pub struct HttpsListener { pub config: ListenerConfig }
impl HttpsListener {
    //@fn lib/src/https.rs L7ListenerHandler for HttpsListener::get_h2_graceful_shutdown_deadline
    //@  ret r
    //@  ensures
    //@    r == spec_deadline(self.config.h2_graceful_shutdown_deadline_seconds),                       // [zero-means-never-force-close-unset-means-five-seconds-else-the-configured-seconds]
    //@end
}
pub struct HttpListener { pub config: ListenerConfig }
impl HttpListener {
    //@fn lib/src/http.rs L7ListenerHandler for HttpListener::get_h2_graceful_shutdown_deadline
    //@  ret r
    //@  ensures
    //@    r == spec_deadline(self.config.h2_graceful_shutdown_deadline_seconds),                       // [zero-means-never-force-close-unset-means-five-seconds-else-the-configured-seconds]
    //@end
}

} // verus!
fn main() {}
