// Unit U-livepatch — worker side of C07: lib/src/http.rs HttpListener::update_config and
// lib/src/https.rs HttpsListener::update_config (the live listener a worker patches on UpdateHttp(s)Listener).
// Property sentence -> contract: "A configuration command that is answered with an error leaves the configuration
// exactly as it was before the command - no partially applied field ... in the main process and in every worker".
//   r is Err  ==>  every by-value field of the live listener (config, router, rustls context, ...) is unchanged
// Hand-written: opaque dependency types and shims (ASSUMED contracts). Real text: //@item, //@fn.
// The answer-template registry sits behind Rc<RefCell<_>> (interior mutability): Verus cannot speak about it; the
// staging regions that compute the fallible rebuilds are replaced by shims that take `&self.config` only, and the
// extractor checks syntactically (cut_readonly) that the dropped text is read-only on `self`.
use vstd::prelude::*;
use std::marker::PhantomData;
verus! {

#[verifier::external_body]
#[verifier::reject_recursive_types(K)]
#[verifier::reject_recursive_types(V)]
pub struct BTreeMap<K, V> { _p: PhantomData<(K, V)> }
#[verifier::external_body]
#[verifier::reject_recursive_types(T)]
pub struct Rc<T> { _p: PhantomData<T> }
#[verifier::external_body]
#[verifier::reject_recursive_types(T)]
pub struct Arc<T> { _p: PhantomData<T> }
#[verifier::external_body]
#[verifier::reject_recursive_types(T)]
pub struct RefCell<T> { _p: PhantomData<T> }
#[verifier::external_body] #[derive(Clone, Copy)] pub struct SocketAddr { _p: () }
#[verifier::external_body] #[derive(Clone, Copy)] pub struct StdSocketAddr { _p: () }
#[verifier::external_body] #[derive(Clone, Copy)] pub struct SocketAddress { _p: () }
#[verifier::external_body] pub struct HttpAnswers { _p: () }
#[verifier::external_body] pub struct Router { _p: () }
#[verifier::external_body] pub struct MioTcpListener { _p: () }
#[verifier::external_body] pub struct CachedTags { _p: () }
#[verifier::external_body] #[derive(Clone, Copy)] pub struct Token { _p: () }
#[verifier::external_body] pub struct CustomHttpAnswers { _p: () }
#[verifier::external_body] pub struct MutexCertificateResolver { _p: () }
#[verifier::external_body] pub struct RustlsServerConfig { _p: () }
#[verifier::external_body] pub struct ListenerError { _p: () }
#[verifier::external_body] pub struct StateError { _p: () }

// `?` on a Result<(), StateError> inside a fn returning Result<(), ListenerError> goes through
// `impl From<StateError> for ListenerError` (lib/src/lib.rs): Ok stays Ok, Err stays Err.
#[verifier::external_body]
pub fn verif_lift(x: Result<(), StateError>) -> (r: Result<(), ListenerError>)
    ensures r is Err <==> x is Err,
{ unimplemented!() }
// validators: pure functions of the patch
#[verifier::external_body]
pub fn validate_h2_flood_knobs_http(patch: &UpdateHttpListenerConfig) -> Result<(), StateError> { unimplemented!() }
#[verifier::external_body]
pub fn validate_h2_flood_knobs_https(patch: &UpdateHttpsListenerConfig) -> Result<(), StateError> { unimplemented!() }
#[verifier::external_body]
pub fn validate_alpn_protocols(values: &Vec<String>) -> Result<(), StateError> { unimplemented!() }
#[verifier::external_body]
pub fn validate_sozu_id_header(value: &String) -> Result<(), StateError> { unimplemented!() }
#[verifier::external_body]
pub fn verif_hsts_required() -> ListenerError { unimplemented!() }
#[verifier::external_body]
pub fn verif_string_clone(s: &String) -> (r: String) ensures r == *s { unimplemented!() }
#[verifier::external_body]
pub fn verif_vec_string_clone(s: &Vec<String>) -> (r: Vec<String>) ensures r == *s { unimplemented!() }

// The staging regions (cut_readonly): they read `self.config` (and, for HTTPS, clone the resolver Arc) and build
// the merged legacy answers, the merged template map and the rebuilt registry / rustls context, or refuse.
#[verifier::external_body]
pub fn verif_stage_answers_http(config: &HttpListenerConfig, patch: &UpdateHttpListenerConfig)
    -> Result<(Option<CustomHttpAnswers>, BTreeMap<String, String>, HttpAnswers), ListenerError> { unimplemented!() }
#[verifier::external_body]
pub fn verif_stage_answers_https(config: &HttpsListenerConfig, patch: &UpdateHttpsListenerConfig)
    -> Result<(Option<CustomHttpAnswers>, BTreeMap<String, String>, HttpAnswers), ListenerError> { unimplemented!() }
#[verifier::external_body]
pub fn verif_stage_rustls(config: &HttpsListenerConfig, alpn: &AlpnProtocols, resolver: &Arc<MutexCertificateResolver>)
    -> Result<Arc<RustlsServerConfig>, ListenerError> { unimplemented!() }
// installing the rebuilt registry: `*self.answers.borrow_mut() = rebuilt` after moving the per-cluster overrides
// over (interior mutability; happens after the last Err exit)
#[verifier::external_body]
pub fn verif_install_answers(cell: &Rc<RefCell<HttpAnswers>>, rebuilt: HttpAnswers) { unimplemented!() }
impl Router {
    #[verifier::external_body]
    pub fn refresh_inheriting_hsts(&mut self, hsts: Option<&HstsConfig>) -> usize { unimplemented!() }
}
#[verifier::external_body]
pub fn verif_answers_patch_is_empty(m: &BTreeMap<String, String>) -> bool { unimplemented!() }

//@global-subst "::core::option::Option" => "Option"
//@global-subst "::prost::alloc::string::String" => "String"
//@global-subst "::prost::alloc::vec::Vec" => "Vec"
//@global-subst "::prost::alloc::collections::BTreeMap" => "BTreeMap"
//@item command/src/proto/command.rs struct HttpListenerConfig
//@item command/src/proto/command.rs struct HttpsListenerConfig
//@item command/src/proto/command.rs struct UpdateHttpListenerConfig
//@item command/src/proto/command.rs struct UpdateHttpsListenerConfig
//@item command/src/proto/command.rs struct AlpnProtocols
//@item command/src/proto/command.rs struct HstsConfig
//@item lib/src/http.rs struct HttpListener
//@item lib/src/https.rs struct HttpsListener

impl HttpListener {
    //@fn lib/src/http.rs HttpListener::update_config
    //@  ret r
    //@  subst "validate_h2_flood_knobs_http(patch)?" => "verif_lift(validate_h2_flood_knobs_http(patch))?"
    //@  subst "validate_sozu_id_header(hdr)?" => "verif_lift(validate_sozu_id_header(hdr))?"
    //@  subst "!patch.answers.is_empty()" => "!verif_answers_patch_is_empty(&patch.answers)"
    //@  cut_readonly "let mut http_answers = self.config.http_answers.clone();" .. "} else {" => "Some(verif_stage_answers_http(&self.config, patch)?)\n        "
    //@  substall "v.to_owned()" => "verif_string_clone(v)"
    //@  cut "let preserved = std::mem::take" .. "}\n\n        Ok(())" => "verif_install_answers(&self.answers, new_answers);\n        "
    //@  ensures
    //@    r is Err ==> *final(self) == *old(self),                                                   // [http-rejected-leaves-no-trace]
    //@end
}

impl HttpsListener {
    //@fn lib/src/https.rs HttpsListener::update_config
    //@  ret r
    //@  subst "validate_h2_flood_knobs_https(patch)?" => "verif_lift(validate_h2_flood_knobs_https(patch))?"
    //@  subst "validate_alpn_protocols(&alpn.values)?" => "verif_lift(validate_alpn_protocols(&alpn.values))?"
    //@  subst "validate_sozu_id_header(hdr)?" => "verif_lift(validate_sozu_id_header(hdr))?"
    //@  substall "ListenerError::HstsEnabledRequired" => "verif_hsts_required()"
    //@  subst "!patch.answers.is_empty()" => "!verif_answers_patch_is_empty(&patch.answers)"
    //@  cut_readonly "let mut candidate = self.config.clone();" .. "}\n            None => None," => "Some(verif_stage_rustls(&self.config, alpn_wrapper, &self.resolver)?)\n            "
    //@  cut_readonly "let mut http_answers = self.config.http_answers.clone();" .. "} else {" => "Some(verif_stage_answers_https(&self.config, patch)?)\n        "
    //@  substall "v.to_owned()" => "verif_string_clone(v)"
    //@  substall "alpn_wrapper.values.clone()" => "verif_vec_string_clone(&alpn_wrapper.values)"
    //@  drop_dassert 0 Vec<String> equality has no exec spec in Verus; the statement above it is the assignment it re-checks
    //@  cut "let preserved = std::mem::take" .. "}\n\n        // HSTS: full-object" => "verif_install_answers(&self.answers, rebuilt);\n        "
    //@  cut "for _ in 0..refreshed {" .. "info!(" => ""
    //@  ensures
    //@    r is Err ==> *final(self) == *old(self),                                                   // [https-rejected-leaves-no-trace]
    //@end
}

} // verus!
fn main() {}
