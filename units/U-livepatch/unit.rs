// Unit U-livepatch — worker side of C07: lib/src/http.rs HttpListener::update_config and
// lib/src/https.rs HttpsListener::update_config (the live listener a worker patches on UpdateHttp(s)Listener).
// Property sentence -> contract: "A configuration command that is answered with an error leaves the configuration
// exactly as it was before the command - no partially applied field ... in the main process and in every worker".
//   r is Err  ==>  every by-value field of the live listener (config, router, rustls context, ...) is unchanged
// Hand-written: opaque dependency types and shims (ASSUMED contracts). Real text: //@item, //@fn.
// The answer-template registry sits behind Rc<RefCell<HttpAnswers>>. Inside update_config nothing else holds a
// borrow of it, so the cell is modelled as an exclusively owned cell (`borrow_mut(&mut self) -> &mut T`): the real
// text `self.answers.borrow_mut()...` then type-checks unchanged and the registry is an ordinary part of `*self`
// for the frame condition (ASSUMED: no other alias of the Rc is touched during the call). The rustls staging
// region is still replaced by a shim after a syntactic read-only check of the dropped text (cut_readonly).
use vstd::prelude::*;
use std::marker::PhantomData;
verus! {

#[verifier::external_body]
#[verifier::reject_recursive_types(K)]
#[verifier::reject_recursive_types(V)]
pub struct BTreeMap<K, V> { _p: PhantomData<(K, V)> }
// Rc<RefCell<T>> as an exclusively owned cell (see the header comment)
pub struct VerifCell<T> { pub verif_value: T }
impl<T> VerifCell<T> {
    pub fn borrow_mut(&mut self) -> (r: &mut T)
        ensures *r == old(self).verif_value, final(self).verif_value == *final(r),
    { &mut self.verif_value }
}
#[verifier::external_body]
#[verifier::reject_recursive_types(T)]
pub struct Arc<T> { _p: PhantomData<T> }
#[verifier::external_body] #[derive(Clone, Copy)] pub struct SocketAddr { _p: () }
#[verifier::external_body] #[derive(Clone, Copy)] pub struct StdSocketAddr { _p: () }
#[verifier::external_body] #[derive(Clone, Copy)] pub struct SocketAddress { _p: () }
// HttpAnswers (kawa_h1/answers.rs) narrowed: the per-cluster override map and everything else
#[verifier::external_body] pub struct ClusterAnswers { _p: () }
#[verifier::external_body] pub struct ListenerTemplates { _p: () }
pub struct HttpAnswers { pub cluster_answers: ClusterAnswers, pub verif_listener_templates: ListenerTemplates }
#[verifier::external_body] pub struct TemplateError { _p: () }
impl HttpAnswers {
    // template parsing: a pure, fallible function of the merged map
    #[verifier::external_body]
    pub fn new(m: &BTreeMap<String, String>) -> Result<HttpAnswers, (String, TemplateError)> { unimplemented!() }
}
// `std::mem::take` on the override map (std: returns the value, leaves Default::default() behind)
pub uninterp spec fn spec_empty_cluster_answers() -> ClusterAnswers;
#[verifier::external_body]
pub fn verif_take(x: &mut ClusterAnswers) -> (r: ClusterAnswers) ensures r == *old(x), *final(x) == spec_empty_cluster_answers() { unimplemented!() }
// `.map_err(|(name, error)| ListenerError::TemplateParse(name, error))`
#[verifier::external_body]
pub fn verif_template_err(x: Result<HttpAnswers, (String, TemplateError)>) -> (r: Result<HttpAnswers, ListenerError>)
    ensures match x { Ok(a) => r == Ok::<HttpAnswers, ListenerError>(a), Err(_) => r is Err }
{ unimplemented!() }
// clones / merges on LOCAL copies inside the staging block
impl<K, V> BTreeMap<K, V> { #[verifier::external_body] pub fn clone(&self) -> (r: Self) ensures r == *self { unimplemented!() } }
#[verifier::external_body]
pub fn verif_option_answers_clone(x: &Option<CustomHttpAnswers>) -> (r: Option<CustomHttpAnswers>) ensures r == *x { unimplemented!() }
#[verifier::external_body]
pub fn merge_custom_http_answers(target: &mut Option<CustomHttpAnswers>, patch: &CustomHttpAnswers) { unimplemented!() }
#[verifier::external_body]
pub fn merge_legacy_into_map(target: &mut BTreeMap<String, String>, legacy: &CustomHttpAnswers) { unimplemented!() }
// `for (code, body) in &patch.answers { if !body.is_empty() { answers.insert(code.clone(), body.clone()); } }` (BTreeMap iteration)
#[verifier::external_body]
pub fn verif_merge_templates(target: &mut BTreeMap<String, String>, patch: &BTreeMap<String, String>) { unimplemented!() }
#[verifier::external_body] pub struct Router { _p: () }
#[verifier::external_body] pub struct MioTcpListener { _p: () }
#[verifier::external_body] pub struct CachedTags { _p: () }
#[verifier::external_body] #[derive(Clone, Copy)] pub struct Token { _p: () }
#[verifier::external_body] pub struct CustomHttpAnswers { _p: () }
#[verifier::external_body] pub struct MutexCertificateResolver { _p: () }
#[verifier::external_body] pub struct RustlsServerConfig { _p: () }
#[verifier::external_body] pub struct ListenerError { _p: () }
#[verifier::external_body] pub struct StateError { _p: () }

// `?` on a Result<(), StateError> inside a fn returning Result<(), ListenerError> goes through
// `impl From<StateError> for ListenerError` (lib/src/lib.rs): Ok stays Ok, Err stays Err.
#[verifier::external_body]
pub fn verif_lift(x: Result<(), StateError>) -> (r: Result<(), ListenerError>)
    ensures r is Err <==> x is Err,
{ unimplemented!() }
// validators: pure functions of the patch
#[verifier::external_body]
pub fn validate_h2_flood_knobs_http(patch: &UpdateHttpListenerConfig) -> Result<(), StateError> { unimplemented!() }
#[verifier::external_body]
pub fn validate_h2_flood_knobs_https(patch: &UpdateHttpsListenerConfig) -> Result<(), StateError> { unimplemented!() }
#[verifier::external_body]
pub fn validate_alpn_protocols(values: &Vec<String>) -> Result<(), StateError> { unimplemented!() }
#[verifier::external_body]
pub fn validate_sozu_id_header(value: &String) -> Result<(), StateError> { unimplemented!() }
#[verifier::external_body]
pub fn verif_hsts_required() -> ListenerError { unimplemented!() }
#[verifier::external_body]
pub fn verif_string_clone(s: &String) -> (r: String) ensures r == *s { unimplemented!() }
#[verifier::external_body]
pub fn verif_vec_string_clone(s: &Vec<String>) -> (r: Vec<String>) ensures r == *s { unimplemented!() }

// The rustls staging region (cut_readonly): reads `self.config`, clones the resolver Arc, builds the context or refuses.
#[verifier::external_body]
pub fn verif_stage_rustls(config: &HttpsListenerConfig, alpn: &AlpnProtocols, resolver: &Arc<MutexCertificateResolver>)
    -> Result<Arc<RustlsServerConfig>, ListenerError> { unimplemented!() }
impl Router {
    #[verifier::external_body]
    pub fn refresh_inheriting_hsts(&mut self, hsts: Option<&HstsConfig>) -> usize { unimplemented!() }
}
#[verifier::external_body]
pub fn verif_answers_patch_is_empty(m: &BTreeMap<String, String>) -> bool { unimplemented!() }

//@global-subst "::core::option::Option" => "Option"
//@global-subst "::prost::alloc::string::String" => "String"
//@global-subst "::prost::alloc::vec::Vec" => "Vec"
//@global-subst "::prost::alloc::collections::BTreeMap" => "BTreeMap"
//@global-subst "Rc<RefCell<HttpAnswers>>" => "VerifCell<HttpAnswers>"
//@item command/src/proto/command.rs struct HttpListenerConfig
//@item command/src/proto/command.rs struct HttpsListenerConfig
//@item command/src/proto/command.rs struct UpdateHttpListenerConfig
//@item command/src/proto/command.rs struct UpdateHttpsListenerConfig
//@item command/src/proto/command.rs struct AlpnProtocols
//@item command/src/proto/command.rs struct HstsConfig
//@item lib/src/http.rs struct HttpListener
//@item lib/src/https.rs struct HttpsListener

impl HttpListener {
    //@fn lib/src/http.rs HttpListener::update_config
    //@  ret r
    //@  subst "validate_h2_flood_knobs_http(patch)?" => "verif_lift(validate_h2_flood_knobs_http(patch))?"
    //@  subst "validate_sozu_id_header(hdr)?" => "verif_lift(validate_sozu_id_header(hdr))?"
    //@  subst "!patch.answers.is_empty()" => "!verif_answers_patch_is_empty(&patch.answers)"
    //@  subst "self.config.http_answers.clone()" => "verif_option_answers_clone(&self.config.http_answers)"
    //@  subst "crate::sozu_command::state::merge_custom_http_answers(" => "merge_custom_http_answers("
    //@  subst "for (code, body) in &patch.answers {\n                if !body.is_empty() {\n                    answers.insert(code.clone(), body.clone());\n                }\n            }" => "verif_merge_templates(&mut answers, &patch.answers);"
    //@  subst "crate::protocol::http::answers::merge_legacy_into_map(" => "merge_legacy_into_map("
    //@  resubst "HttpAnswers::new\\(&answers_map\\)\\s*\\.map_err\\(\\|\\(name, error\\)\\| ListenerError::TemplateParse\\(name, error\\)\\)" => "verif_template_err(HttpAnswers::new(&answers_map))"
    //@  substall "std::mem::take(" => "verif_take("
    //@  substall "v.to_owned()" => "verif_string_clone(v)"
    //@  ensures
    //@    r is Err ==> *final(self) == *old(self),                                                   // [http-rejected-leaves-no-trace]
    //@end
}

impl HttpsListener {
    //@fn lib/src/https.rs HttpsListener::update_config
    //@  ret r
    //@  subst "validate_h2_flood_knobs_https(patch)?" => "verif_lift(validate_h2_flood_knobs_https(patch))?"
    //@  subst "validate_alpn_protocols(&alpn.values)?" => "verif_lift(validate_alpn_protocols(&alpn.values))?"
    //@  subst "validate_sozu_id_header(hdr)?" => "verif_lift(validate_sozu_id_header(hdr))?"
    //@  substall "ListenerError::HstsEnabledRequired" => "verif_hsts_required()"
    //@  subst "!patch.answers.is_empty()" => "!verif_answers_patch_is_empty(&patch.answers)"
    //@  cut_readonly "let mut candidate = self.config.clone();" .. "}\n            None => None," => "Some(verif_stage_rustls(&self.config, alpn_wrapper, &self.resolver)?)\n            "
    //@  subst "self.config.http_answers.clone()" => "verif_option_answers_clone(&self.config.http_answers)"
    //@  subst "crate::sozu_command::state::merge_custom_http_answers(" => "merge_custom_http_answers("
    //@  subst "for (code, body) in &patch.answers {\n                if !body.is_empty() {\n                    answers.insert(code.clone(), body.clone());\n                }\n            }" => "verif_merge_templates(&mut answers, &patch.answers);"
    //@  subst "crate::protocol::http::answers::merge_legacy_into_map(" => "merge_legacy_into_map("
    //@  resubst "HttpAnswers::new\\(&answers_map\\)\\s*\\.map_err\\(\\|\\(name, error\\)\\| ListenerError::TemplateParse\\(name, error\\)\\)" => "verif_template_err(HttpAnswers::new(&answers_map))"
    //@  substall "std::mem::take(" => "verif_take("
    //@  substall "v.to_owned()" => "verif_string_clone(v)"
    //@  substall "alpn_wrapper.values.clone()" => "verif_vec_string_clone(&alpn_wrapper.values)"
    //@  drop_dassert 0 Vec<String> equality has no exec spec in Verus; the statement above it is the assignment it re-checks
    //@  cut "for _ in 0..refreshed {" .. "info!(" => ""
    //@  ensures
    //@    r is Err ==> *final(self) == *old(self),                                                   // [https-rejected-leaves-no-trace]
    //@end
}

} // verus!
fn main() {}
