// Unit U-h2wu — lib/src/protocol/mux/h2.rs: ConnectionH2::handle_window_update_frame (C14)
// Property sentence -> contract: "sozu respects every HTTP/2 peer limit and keeps transfers moving": a WINDOW_UPDATE is
// the only thing that gives send window back (RFC 9113 §6.9), so
//   - a legal increment on stream 0 adds exactly `increment` to the connection send window and to nothing else; on a
//     known stream it adds exactly `increment` to that stream's send window TOWARDS THE PEER THAT SENT IT and to
//     nothing else — in particular not to the same stream's window towards the other peer (a frontend's WINDOW_UPDATE
//     must never let sozu send more to the backend, and vice versa: F27);
//   - a window that was exhausted (<= 0) and becomes positive re-arms writing (otherwise the transfer stays parked);
//   - an increment of 0, an increment that would take a window above 2^31-1, a flood violation and an unknown stream
//     leave the connection window untouched (they end in GOAWAY / RST_STREAM / a glitch count).
// The whole function is extracted verbatim. Hand-written: narrowed structs (only what this function touches), shims.
use vstd::prelude::*;
use std::marker::PhantomData;
verus! {
global layout usize is size == 8;

pub type StreamId = u32;
pub type GlobalStreamId = usize;
//@item lib/src/protocol/mux/parser.rs struct WindowUpdate
pub enum H2Error { ProtocolError, FlowControlError }
#[verifier::external_body] pub struct MuxResultRest { _p: () }
pub enum MuxResult { Continue, Other(MuxResultRest) }
#[verifier::external_body] pub struct H2FloodViolation { _p: () }
#[verifier::external_body] pub struct SessionMetrics { _p: () }
#[verifier::external_body] pub struct Endpoint { _p: () }
pub trait ListenerHandler {}
pub trait L7ListenerHandler {}

// the stream's two send windows (towards the frontend's peer, towards the backend's peer) and the accessors that pick
// the one of a connection's side: REAL text of Stream::send_window / Stream::set_send_window (contracts also in U-h2win)
pub struct Stream { pub window: i32, pub back_window: i32, pub metrics: SessionMetrics }
#[verifier::external_body] pub struct ClientRest { _p: () }
pub enum Position { Client(ClientRest), Server }
pub open spec fn spec_send_window(s: Stream, p: Position) -> i32 { if p is Server { s.window } else { s.back_window } }
pub open spec fn spec_other_window(s: Stream, p: Position) -> i32 { if p is Server { s.back_window } else { s.window } }
impl Stream {
    //@fn lib/src/protocol/mux/stream.rs Stream::send_window
    //@  ret r
    //@  ensures
    //@    r == spec_send_window(*self, *position),                                                   // [the-send-window-of-a-side-is-that-sides-own]
    //@end
    //@fn lib/src/protocol/mux/stream.rs Stream::set_send_window
    //@  ensures
    //@    spec_send_window(*final(self), *position) == window,                                       // [setting-a-sides-window-stores-the-value]
    //@    spec_other_window(*final(self), *position) == spec_other_window(*old(self), *position),    // [setting-one-sides-window-leaves-the-other-sides-alone]
    //@    final(self).metrics == old(self).metrics,
    //@end
}
pub struct Context<L> { pub streams: Vec<Stream>, pub verif_listener: PhantomData<L> }
// every stream's pair of send windows (this side's, the other side's)
pub open spec fn spec_windows<L>(c: &Context<L>) -> Seq<(i32, i32)> { Seq::new(c.streams@.len(), |i: int| (c.streams@[i].window, c.streams@[i].back_window)) }

// readiness: only "was writing (re-)armed" matters here (arm_writable itself is proved in K-ready)
pub struct Readiness { pub verif_armed: Ghost<nat> }
impl Readiness {
    pub fn arm_writable(&mut self) ensures final(self).verif_armed@ == old(self).verif_armed@ + 1 { proof { self.verif_armed@ = self.verif_armed@ + 1; } }
}
pub struct FlowControl { pub window: i32 }
// the flood detector (proved in U-h2pure / K-h2flood): whether it flags is a function of its state
pub struct H2FloodDetector { pub glitch_count: u32, pub window_update_stream0_count: u32, pub verif_rest: DetectorRest }
#[verifier::external_body] pub struct DetectorRest { _p: () }
impl H2FloodDetector {
    pub uninterp spec fn spec_flags(&self) -> bool;
    #[verifier::external_body]
    pub fn check_flood(&mut self) -> (r: Option<H2FloodViolation>) ensures r is Some == old(self).spec_flags() { unimplemented!() }
}
// HashMap<StreamId, GlobalStreamId>
#[verifier::external_body] pub struct StreamMap { _p: () }
impl StreamMap {
    pub uninterp spec fn spec_get(&self, id: StreamId) -> Option<usize>;
    // `self.streams.get(&stream_id).copied()` (std)
    #[verifier::external_body]
    pub fn verif_get_copied(&self, id: StreamId) -> (r: Option<usize>) ensures r == self.spec_get(id) { unimplemented!() }
}
// i32::try_from(u32) (std)
#[verifier::external_body]
pub fn verif_try_i32_u32(n: u32) -> (r: Option<i32>) ensures n <= i32::MAX ==> r == Some(n as i32), n > i32::MAX ==> r is None { unimplemented!() }
// u32::saturating_add (std)
#[verifier::external_body]
pub fn verif_u32_saturating_add(a: u32, b: u32) -> (r: u32) ensures r == (if a + b > u32::MAX { u32::MAX } else { (a + b) as u32 }) { unimplemented!() }

pub struct ConnectionH2 { pub streams: StreamMap, pub flow_control: FlowControl, pub flood_detector: H2FloodDetector, pub readiness: Readiness, pub position: Position }
impl ConnectionH2 {
    // every wire stream id of this connection maps into context.streams
    pub open spec fn owns(&self, n: int) -> bool { forall|id: StreamId| (#[trigger] self.streams.spec_get(id)) matches Some(g) ==> g < n }

    // callees outside this unit: they end the connection / the stream; none of them gives send window
    #[verifier::external_body]
    pub fn goaway(&mut self, error: H2Error) -> (r: MuxResult)
        ensures final(self).flow_control == old(self).flow_control, final(self).readiness == old(self).readiness { unimplemented!() }
    #[verifier::external_body]
    pub fn handle_flood_violation(&mut self, v: H2FloodViolation) -> (r: MuxResult)
        ensures final(self).flow_control == old(self).flow_control, final(self).readiness == old(self).readiness { unimplemented!() }
    #[verifier::external_body]
    pub fn reset_stream<L>(&mut self, wire_stream_id: StreamId, stream_id: GlobalStreamId, context: &mut Context<L>, endpoint: Endpoint, error: H2Error) -> (r: MuxResult)
        ensures final(self).flow_control == old(self).flow_control, final(self).streams == old(self).streams, final(context).streams@.len() == old(context).streams@.len() { unimplemented!() }
    #[verifier::external_body]
    pub fn remove_dead_stream<L>(&mut self, stream_id: StreamId, global_stream_id: GlobalStreamId, context: &mut Context<L>)
        ensures final(self).flow_control == old(self).flow_control, final(context).streams == old(context).streams { unimplemented!() }
    #[verifier::external_body]
    pub fn attribute_bytes_to_overhead(&mut self)
        ensures final(self).flow_control == old(self).flow_control, final(self).streams == old(self).streams, final(self).readiness == old(self).readiness, final(self).flood_detector == old(self).flood_detector, final(self).position == old(self).position { unimplemented!() }
    #[verifier::external_body]
    pub fn attribute_bytes_to_stream(&mut self, metrics: &mut SessionMetrics)
        ensures final(self).flow_control == old(self).flow_control, final(self).streams == old(self).streams, final(self).readiness == old(self).readiness, final(self).flood_detector == old(self).flood_detector, final(self).position == old(self).position { unimplemented!() }

    //@fn lib/src/protocol/mux/h2.rs ConnectionH2::handle_window_update_frame
    //@  ret r
    //@  sig "<E, L>" => "<L>"
    //@  sig "endpoint: E," => "endpoint: Endpoint,"
    //@  sig "E: Endpoint,\n        L: ListenerHandler + L7ListenerHandler," => "L: ListenerHandler + L7ListenerHandler,"
    //@  substall "check_flood_or_return!(self);" => "if let Some(violation) = self.flood_detector.check_flood() { return self.handle_flood_violation(violation); }"
    //@  substall "self.streams.get(&stream_id).copied()" => "self.streams.verif_get_copied(stream_id)"
    //@  resubst "i32::try_from\\(increment\\)\\s*\\.unwrap_or\\(([^()]*)\\)" => "(match verif_try_i32_u32(increment) { Some(verif_v) => verif_v, None => \\1 })"
    //@  resubst "self\\s*\\.flood_detector\\s*\\.window_update_stream0_count\\s*\\.saturating_add\\(1\\)" => "verif_u32_saturating_add(self.flood_detector.window_update_stream0_count, 1)"
    //@  requires
    //@    old(self).owns(old(context).streams@.len() as int),
    //@    old(self).flood_detector.glitch_count < u32::MAX,
    //@    wu.increment <= 0x7fff_ffff,
    //@  ensures
    //@    final(context).streams@.len() == old(context).streams@.len(),
    //@    wu.increment == 0 ==> final(self).flow_control.window == old(self).flow_control.window,   // [a-zero-increment-gives-no-window]
    //@    (wu.stream_id == 0 && wu.increment > 0) ==> {
    //@        let flagged = (H2FloodDetector { window_update_stream0_count: if old(self).flood_detector.window_update_stream0_count == u32::MAX { u32::MAX } else { (old(self).flood_detector.window_update_stream0_count + 1) as u32 }, ..old(self).flood_detector }).spec_flags();
    //@        let sum = old(self).flow_control.window + wu.increment;
    //@        &&& spec_windows(final(context)) =~= spec_windows(old(context))
    //@        &&& (!flagged && sum <= i32::MAX) ==> final(self).flow_control.window == sum
    //@              && (old(self).flow_control.window <= 0 && sum > 0 ==> final(self).readiness.verif_armed@ > old(self).readiness.verif_armed@)
    //@        &&& (flagged || sum > i32::MAX) ==> final(self).flow_control.window == old(self).flow_control.window
    //@    },                                                                                         // [a-connection-window-update-adds-exactly-the-increment-and-re-arms-writing-when-the-window-reopens]
    //@    (wu.stream_id != 0 && wu.increment > 0) ==> final(self).flow_control.window == old(self).flow_control.window, // [a-stream-window-update-leaves-the-connection-window-alone]
    //@    (wu.stream_id != 0 && wu.increment > 0 && old(self).streams.spec_get(wu.stream_id) is Some) ==> {
    //@        let g = old(self).streams.spec_get(wu.stream_id).unwrap() as int;
    //@        let before = spec_send_window(old(context).streams@[g], old(self).position);
    //@        let sum = before + wu.increment;
    //@        sum <= i32::MAX ==> {
    //@            &&& spec_send_window(final(context).streams@[g], old(self).position) == sum
    //@            &&& spec_other_window(final(context).streams@[g], old(self).position) == spec_other_window(old(context).streams@[g], old(self).position)
    //@            &&& forall|k: int| 0 <= k < old(context).streams@.len() && k != g ==> (#[trigger] final(context).streams@[k]).window == old(context).streams@[k].window && final(context).streams@[k].back_window == old(context).streams@[k].back_window
    //@            &&& (before <= 0 && sum > 0 ==> final(self).readiness.verif_armed@ > old(self).readiness.verif_armed@)
    //@        }
    //@    },                                                                                         // [a-stream-window-update-adds-exactly-the-increment-to-this-peers-window-of-that-stream-only-and-re-arms-writing-when-it-reopens]
    //@    (wu.stream_id != 0 && wu.increment > 0 && old(self).streams.spec_get(wu.stream_id) is None) ==> spec_windows(final(context)) =~= spec_windows(old(context)), // [an-update-for-an-unknown-stream-gives-no-window]
    //@end
}

} // verus!
fn main() {}
