// Unit U-sessmgr — lib/src/server.rs SessionManager admission counters (serves C16)
// Property sentence -> contract: "admission limits are never exceeded ... accepting resumes when load drops":
//   invariant I: nb_connections <= max_connections, preserved by every operation;
//   check_limits() == true only with room under both gates; incr()/decr() move the count by exactly one and can
//   neither exceed the cap nor underflow (their `assert!`s are proof obligations under the stated requires);
//   decr() re-opens the accept gate exactly when the count is below 90 % of the cap.
use vstd::prelude::*;
use std::marker::PhantomData;
verus! {

#[verifier::external_body]
#[verifier::reject_recursive_types(T)]
pub struct Slab<T> { _p: PhantomData<T> }
impl<T> Slab<T> {
    pub uninterp spec fn spec_len(&self) -> usize;
    #[verifier::external_body] pub fn len(&self) -> (r: usize) ensures r == self.spec_len() { unimplemented!() }
}
#[verifier::external_body]
#[verifier::reject_recursive_types(K)]
#[verifier::reject_recursive_types(V)]
pub struct HashMap<K, V> { _p: PhantomData<(K, V)> }
#[verifier::external_body]
#[verifier::reject_recursive_types(K)]
pub struct HashSet<K> { _p: PhantomData<K> }
#[verifier::external_body] pub struct IpAddr { _p: () }
#[verifier::external_body] pub struct Token { _p: () }
#[verifier::external_body] pub struct SessionRef { _p: () }

//@global-subst "Rc<RefCell<dyn ProxySession>>" => "SessionRef"
//@item lib/src/server.rs struct SessionManager

impl SessionManager {
    pub open spec fn inv(&self) -> bool { self.nb_connections <= self.max_connections }
    // the two arithmetic expressions on max_connections do not overflow (ASSUMED of the configuration: < 2^56)
    pub open spec fn sane_config(&self) -> bool { self.max_connections <= usize::MAX / 256 }

    //@fn lib/src/server.rs SessionManager::effective_max_connections_per_ip
    //@  ret r
    //@  ensures
    //@    r == (if let Some(v) = override_value { v } else { self.max_connections_per_ip }),        // [override-else-default]
    //@end
    //@fn lib/src/server.rs SessionManager::effective_retry_after
    //@  ret r
    //@  ensures
    //@    r == (if let Some(v) = override_value { v } else { self.retry_after }),                    // [override-else-default]
    //@end
    //@fn lib/src/server.rs SessionManager::accept_slab_threshold
    //@  ret r
    //@  requires
    //@    self.sane_config(),
    //@  ensures
    //@    r == 10 + 2 * self.max_connections,                                                        // [threshold]
    //@end
    //@fn lib/src/server.rs SessionManager::at_capacity
    //@  ret r
    //@  requires
    //@    self.sane_config(),
    //@  ensures
    //@    r <==> self.slab.spec_len() >= 10 + 2 * self.max_connections,                              // [slab-gate]
    //@end
    //@fn lib/src/server.rs SessionManager::check_limits
    //@  ret r
    //@  requires
    //@    old(self).inv(), old(self).sane_config(),
    //@  ensures
    //@    final(self).nb_connections == old(self).nb_connections && final(self).max_connections == old(self).max_connections, // [counts-unchanged]
    //@    r ==> final(self).nb_connections < final(self).max_connections
    //@          && final(self).slab.spec_len() < 10 + 2 * final(self).max_connections
    //@          && final(self).can_accept == old(self).can_accept,                                   // [room-under-both-gates]
    //@    !r ==> !final(self).can_accept,                                                            // [refusal-closes-the-accept-gate]
    //@    !r <==> (old(self).nb_connections >= old(self).max_connections || old(self).slab.spec_len() >= 10 + 2 * old(self).max_connections), // [refuses-iff-a-gate-is-saturated]
    //@end
    //@fn lib/src/server.rs SessionManager::incr
    //@  requires
    //@    old(self).nb_connections < old(self).max_connections,
    //@  ensures
    //@    final(self).nb_connections == old(self).nb_connections + 1,                                // [adds-exactly-one]
    //@    final(self).inv() && final(self).max_connections == old(self).max_connections,            // [never-exceeds-cap]
    //@    final(self).can_accept == old(self).can_accept,                                            // [gate-unchanged]
    //@end
    //@fn lib/src/server.rs SessionManager::decr
    //@  requires
    //@    old(self).nb_connections > 0, old(self).inv(), old(self).sane_config(),
    //@  ensures
    //@    final(self).nb_connections == old(self).nb_connections - 1,                                // [releases-exactly-one]
    //@    final(self).inv() && final(self).max_connections == old(self).max_connections,            // [inv]
    //@    final(self).can_accept == (old(self).can_accept || final(self).nb_connections < old(self).max_connections * 90 / 100), // [accepting-resumes-below-90-percent]
    //@end
}

} // verus!
fn main() {}
