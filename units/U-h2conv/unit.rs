// Unit U-h2conv — lib/src/protocol/mux/converter.rs: the Block::Chunk arm of H2BlockConverter::call (C01, C14)
// This is the ONLY place where body bytes become HTTP/2 DATA frames (both directions: towards an H2 client and towards an
// h2c backend). The arm is cut out of the real `call` (its `match block` head and the other arms are dropped; the guard
// `kawa.parsing_phase is Error => return false` at the head of `call` is dropped with them: this unit speaks about a
// message that is not in the error phase) and becomes a function of the chunk's `data`.
// Property sentences -> contract:
//   C14 "sozu respects every HTTP/2 peer limit": the DATA frame emitted carries at most max_frame_size octets and at most
//       the send window; the window is debited by exactly the octets sent; with no window left nothing is sent;
//   C14 "keeps transfers moving": after a chunk that went out whole the converter goes on (returns true) unless the stream
//       is incremental with incremental peers AND the closing flags are not next (a yield there would strand the stream:
//       nothing re-arms the write);
//   C01 "no truncation, duplication, corruption or reordering": the octets sent are a prefix of the chunk, the rest goes
//       back to the FRONT of the block queue (so the next call continues exactly there), nothing else is queued, and a
//       stalled chunk is put back whole.
// kawa (external crate) enters as a narrowed model: Store is an abstract byte string with len / split / from_slice as
// kawa 0.6.8 documents them (split REQUIRES at <= len: kawa computes `len - at` unchecked), the block queue and the
// out queue are ghost sequences. gen_frame_header enters by the contract Kani proves in K-h2ser (9-byte buffer and
// payload_len < 2^24 => Ok, exact wire image).
use vstd::prelude::*;
verus! {
global layout usize is size == 8;

pub type StreamId = u32;
pub mod parser { pub const FRAME_HEADER_SIZE: usize = 9; }
//@item lib/src/protocol/mux/parser.rs struct FrameHeader
//@item lib/src/protocol/mux/parser.rs enum FrameType
#[verifier::external_body] pub struct GenError { _p: () }
// the 9 octets of a frame header (K-h2ser.frame_header_wire_roundtrip pins them down bit by bit)
pub uninterp spec fn spec_wire(h: FrameHeader) -> Seq<u8>;
// serializer::gen_frame_header — ASSUMED here, PROVED by Kani in K-h2ser for every header with payload_len < 2^24
#[verifier::external_body]
pub fn gen_frame_header(buf: &mut [u8; 9], frame: &FrameHeader) -> (r: Result<usize, GenError>)
    requires frame.payload_len < 0x100_0000,
    ensures r is Ok, final(buf)@ == spec_wire(*frame), spec_wire(*frame).len() == 9,
{ unimplemented!() }

// kawa::Store narrowed to a byte string
#[verifier::external_body] pub struct Store { _p: () }
impl Store {
    pub uninterp spec fn view(&self) -> Seq<u8>;
    #[verifier::external_body]
    pub fn len(&self) -> (r: usize) ensures r == self@.len() { unimplemented!() }
    #[verifier::external_body]
    pub fn is_empty(&self) -> (r: bool) ensures r == (self@.len() == 0) { unimplemented!() }
    // kawa: (Store{start, len: at}, Store{start + at, len - at}) — unchecked subtraction, hence the precondition
    #[verifier::external_body]
    pub fn split(self, at: usize) -> (r: (Store, Store))
        requires at <= self@.len(),
        ensures r.0@ == self@.subrange(0, at as int), r.1@ == self@.subrange(at as int, self@.len() as int),
    { unimplemented!() }
    #[verifier::external_body]
    pub fn from_slice(s: &[u8; 9]) -> (r: Store) ensures r@ == s@ { unimplemented!() }
}
pub struct Chunk { pub data: Store }
pub struct Flags { pub end_body: bool, pub end_chunk: bool, pub end_header: bool, pub end_stream: bool }
pub enum Block { Chunk(Chunk), Flags(Flags), Other }
// VecDeque<Block> as a ghost sequence (front = index 0)
#[verifier::external_body] pub struct Blocks { _p: () }
impl Blocks {
    pub uninterp spec fn view(&self) -> Seq<Block>;
    #[verifier::external_body]
    pub fn push_front(&mut self, b: Block) ensures final(self)@ == seq![b] + old(self)@ { unimplemented!() }
    #[verifier::external_body]
    pub fn front(&self) -> (r: Option<&Block>)
        ensures self@.len() == 0 ==> r is None, self@.len() > 0 ==> r == Some(&self@[0])
    { unimplemented!() }
}
pub struct Kawa { pub blocks: Blocks, pub out: Ghost<Seq<u8>> }
impl Kawa {
    // kawa.out.push_back(OutBlock::Store(store)): the out queue flattened to the octets it will put on the wire
    pub fn push_out(&mut self, store: Store)
        ensures final(self).out@ == old(self).out@ + store@, final(self).blocks == old(self).blocks
    { proof { self.out@ = self.out@ + store@; } }
}
pub open spec fn spec_fits_window(len: usize, window: i32) -> bool { len <= i32::MAX && window >= len }
// i32::try_from(usize) / i32::try_from(u32) (std): the closure / default that follow them are the real code's
#[verifier::external_body]
pub fn verif_try_i32(n: usize) -> (r: Option<i32>) ensures n <= i32::MAX ==> r == Some(n as i32), n > i32::MAX ==> r is None { unimplemented!() }
#[verifier::external_body]
pub fn verif_try_i32_u32(n: u32) -> (r: Option<i32>) ensures n <= i32::MAX ==> r == Some(n as i32), n > i32::MAX ==> r is None { unimplemented!() }
// i32::max (std)
#[verifier::external_body]
pub fn verif_i32_max(a: i32, b: i32) -> (r: i32) ensures r == (if a >= b { a } else { b }) { unimplemented!() }
// std::cmp::min
pub fn min(a: usize, b: usize) -> (r: usize) ensures r == (if a <= b { a } else { b }) { if a <= b { a } else { b } }

pub open spec fn spec_next_closes(blocks: Seq<Block>) -> bool {
    blocks.len() > 0 && (blocks[0] matches Block::Flags(f) && f.end_stream)
}
pub struct H2BlockConverter {
    pub max_frame_size: usize,
    pub window: i32,
    pub stream_id: StreamId,
    pub position_is_client: bool,
    pub incremental_mode: bool,
    pub incremental_peer_count: usize,
}
impl H2BlockConverter {
    //@fn lib/src/protocol/mux/converter.rs BlockConverter for H2BlockConverter::call
    //@  rename call_chunk_arm
    //@  ret r
    //@  sig "block: Block, kawa: &mut Kawa<T>" => "data: Store, kawa: &mut Kawa"
    //@  cut "@start" .. "let mut header = [0; parser::FRAME_HEADER_SIZE];\n                let payload_len = data.len();" => "\n        if true {\n                "
    //@  cut "Block::Flags(Flags {\n                end_header,\n                end_stream," .. "\n        true\n    }" => ""
    //@  resubst "i32::try_from\\(payload_len\\)\\s*\\.is_ok_and\\(\\|pl\\| ([^()]*)\\)" => "(match verif_try_i32(payload_len) { Some(pl) => \\1, None => false })"
    //@  resubst "i32::try_from\\(payload_len\\)\\s*\\.unwrap_or\\(([^()]*)\\)" => "(match verif_try_i32_u32(payload_len) { Some(verif_v) => verif_v, None => \\1 })"
    //@  optsubst "self.window.max(0)" => "verif_i32_max(self.window, 0)"
    //@  requires
    //@    0 < old(self).max_frame_size < 0x100_0000,
    //@    data@.len() <= usize::MAX,
    //@  ensures
    //@    final(self).max_frame_size == old(self).max_frame_size && final(self).stream_id == old(self).stream_id,
    //@    ({
    //@        let n = old(self).window - final(self).window;      // the octets debited from the send window
    //@        0 <= n <= data@.len() && n <= old(self).max_frame_size && (n > 0 ==> n <= old(self).window)
    //@    }),                                                                                       // [what-is-debited-never-exceeds-max-frame-size-the-send-window-or-the-chunk]
    //@    ({
    //@        let n = old(self).window - final(self).window;
    //@        let l = data@.len() as int;
    //@        ||| ({   // one DATA frame of exactly the n octets debited, the rest back to the front
    //@              &&& final(kawa).out@ =~= old(kawa).out@
    //@                    + spec_wire(FrameHeader { payload_len: n as u32, frame_type: FrameType::Data, flags: 0, stream_id: old(self).stream_id })
    //@                    + data@.subrange(0, n)
    //@              &&& (n == l ==> final(kawa).blocks@ == old(kawa).blocks@)
    //@              &&& (n < l ==> final(kawa).blocks@.len() == old(kawa).blocks@.len() + 1
    //@                     && final(kawa).blocks@.subrange(1, final(kawa).blocks@.len() as int) =~= old(kawa).blocks@
    //@                     && (final(kawa).blocks@[0] matches Block::Chunk(c) && c.data@ == data@.subrange(n, l)))
    //@            })
    //@        ||| ({   // a stall: nothing sent, nothing debited, the chunk put back whole; only without window
    //@              &&& n == 0 && !r && old(self).window <= 0 && final(kawa).out@ == old(kawa).out@
    //@              &&& final(kawa).blocks@.len() == old(kawa).blocks@.len() + 1
    //@              &&& final(kawa).blocks@.subrange(1, final(kawa).blocks@.len() as int) =~= old(kawa).blocks@
    //@              &&& (final(kawa).blocks@[0] matches Block::Chunk(c) && c.data@ == data@)
    //@            })
    //@    }),                                                                                       // [the-octets-sent-are-the-debited-prefix-of-the-chunk-the-rest-goes-back-to-the-front-a-stall-keeps-it-whole]
    //@    (old(self).window > 0 && data@.len() > 0) ==> old(self).window - final(self).window > 0, // [with-window-left-at-least-one-octet-moves]
    //@    (spec_fits_window(data@.len() as usize, old(self).window) && old(self).max_frame_size >= data@.len()
    //@        && final(self).window == old(self).window - data@.len()
    //@        && (!(old(self).incremental_mode && old(self).incremental_peer_count > 1) || spec_next_closes(final(kawa).blocks@))) ==> r, // [a-stream-without-incremental-peers-or-about-to-close-never-yields-after-a-whole-chunk]
    //@end
}

} // verus!
fn main() {}
