    // Bounded native check on the wire towards an h2c backend (unit N-h1h2; C02 and C14): a REAL in-process worker, one
    // cluster with `http2 = true`, and a small blocking h2c backend written here; appended as a test module to
    // e2e/src/tests/tests.rs in a scratch copy (the e2e helpers are private to that crate).
    //   C02: an HTTP/1.1 client sends several requests one after the other on ONE keep-alive connection; each must be
    //        answered with the backend's response intact (the backend answers every request correctly, so nothing else
    //        is admissible).
    //   C14: the backend accounts every flow-controlled octet it receives, per stream and for the connection, against
    //        what it has advertised (SETTINGS_INITIAL_WINDOW_SIZE acknowledged by sozu + the WINDOW_UPDATEs it has
    //        sent). It only opens a window again once that window is exhausted, so the account is exact: one octet
    //        more than advertised is a FLOW_CONTROL violation by sozu (RFC 9113 §6.9). The upload must also complete.
    use std::collections::HashMap;
    use std::io::{Read, Write};
    use std::net::{TcpListener, TcpStream};
    use std::sync::{Arc, Mutex, atomic::{AtomicBool, AtomicUsize, Ordering}};
    use crate::tests::setup_test;

    fn lit(buf: &mut Vec<u8>, name: &[u8], value: &[u8]) { buf.push(0x00); buf.push(name.len() as u8); buf.extend_from_slice(name); buf.push(value.len() as u8); buf.extend_from_slice(value); }
    fn frame(kind: u8, flags: u8, sid: u32, payload: &[u8]) -> Vec<u8> {
        let mut f = vec![(payload.len() >> 16) as u8, (payload.len() >> 8) as u8, payload.len() as u8, kind, flags];
        f.extend_from_slice(&sid.to_be_bytes()); f.extend_from_slice(payload); f
    }

    #[derive(Clone)]
    struct Backend { body: Vec<u8>, with_length: bool, initial_window: Option<u32>, connection_bonus: u32, connection_grant: u32, max_concurrent: Option<u32>, delay_ms: u64, connections: Arc<AtomicUsize>, special: u8, served: Arc<AtomicUsize>, uploaded: Arc<AtomicUsize>, events: Arc<Mutex<Vec<String>>> }

    /// what sozu lets this backend send: the connection window, the stream windows, and the answers still being sent
    struct SendSide { initial: i64, connection: i64, streams: HashMap<u32, i64>, pending: Vec<(u32, usize)> }

    fn respond(conn: &mut TcpStream, sid: u32, b: &Backend, tx: &mut SendSide) {
        if b.delay_ms > 0 { thread::sleep(Duration::from_millis(b.delay_ms)); }
        // special answers: 1 = answer to HEAD (content-length, no body), 2 = 204 No Content, 3 = body followed by a trailer section,
        // 4 = 304 Not Modified declaring the length of the representation, no body
        if b.special == 1 || b.special == 2 || b.special == 4 {
            let mut hb = vec![match b.special { 2 => 0x89u8, 4 => 0x8bu8, _ => 0x88u8 }];   // :status 204 / 304 / 200 (static table)
            if b.special != 2 { lit(&mut hb, b"content-length", b.body.len().to_string().as_bytes()); }
            let _ = conn.write_all(&frame(0x1, 0x4 | 0x1, sid, &hb));
            b.served.fetch_add(1, Ordering::SeqCst);
            return;
        }
        // 5 / 6 = a 103 Early Hints header section first (6: after a pause of 100 ms), then the final answer
        if b.special == 5 || b.special == 6 { let mut eh = Vec::new(); lit(&mut eh, b":status", b"103"); lit(&mut eh, b"link", b"</style.css>; rel=preload"); let _ = conn.write_all(&frame(0x1, 0x4, sid, &eh)); if b.special == 6 { thread::sleep(Duration::from_millis(100)); } }
        let mut hb = vec![0x88u8];   // :status 200 (static table)
        if b.with_length { lit(&mut hb, b"content-length", b.body.len().to_string().as_bytes()); }
        let _ = conn.write_all(&frame(0x1, 0x4, sid, &hb));
        if b.special == 3 {
            let mut out = frame(0x0, 0, sid, &b.body);
            let mut tb = Vec::new(); lit(&mut tb, b"x-checksum", b"abc123");
            out.extend_from_slice(&frame(0x1, 0x4 | 0x1, sid, &tb));
            let _ = conn.write_all(&out);
            b.served.fetch_add(1, Ordering::SeqCst);
            return;
        }
        let initial = tx.initial;
        tx.streams.entry(sid).or_insert(initial);
        tx.pending.push((sid, 0));
        pump(conn, b, tx);
    }

    /// send as much of the pending answers as sozu's advertised windows allow (this backend never exceeds them)
    fn pump(conn: &mut TcpStream, b: &Backend, tx: &mut SendSide) {
        let mut k = 0;
        while k < tx.pending.len() {
            let (sid, mut off) = tx.pending[k];
            let mut finished = false;
            loop {
                let remaining = b.body.len() - off;
                if remaining == 0 { if b.body.is_empty() { let _ = conn.write_all(&frame(0x0, 0x1, sid, &[])); } finished = true; break; }
                let avail = tx.connection.min(*tx.streams.get(&sid).unwrap_or(&0)).min(16_384).min(remaining as i64);
                if avail <= 0 { break; }
                let n = avail as usize;
                let last = off + n == b.body.len();
                let _ = conn.write_all(&frame(0x0, if last { 0x1 } else { 0 }, sid, &b.body[off..off + n]));
                off += n;
                tx.connection -= avail;
                *tx.streams.get_mut(&sid).unwrap() -= avail;
                if last { finished = true; break; }
            }
            if finished { tx.pending.remove(k); b.served.fetch_add(1, Ordering::SeqCst); } else { tx.pending[k].1 = off; k += 1; }
        }
    }

    /// one h2c connection: every request stream is answered 200 with `body`
    fn serve(mut conn: TcpStream, b: Backend) {
        conn.set_read_timeout(Some(Duration::from_secs(20))).unwrap();
        let mut preface = [0u8; 24];
        if conn.read_exact(&mut preface).is_err() { return; }
        let mut settings = Vec::new();
        if let Some(w) = b.initial_window { settings.extend_from_slice(&[0, 4]); settings.extend_from_slice(&w.to_be_bytes()); }
        if let Some(m) = b.max_concurrent { settings.extend_from_slice(&[0, 3]); settings.extend_from_slice(&m.to_be_bytes()); }
        b.connections.fetch_add(1, Ordering::SeqCst);
        let mut hello = frame(0x4, 0, 0, &settings);
        if b.connection_bonus > 0 { hello.extend_from_slice(&frame(0x8, 0, 0, &b.connection_bonus.to_be_bytes())); }
        let _ = conn.write_all(&hello);
        let w = b.initial_window.unwrap_or(65_535) as u64;
        let mut settings_acked = false;
        let (mut granted, mut received): (HashMap<u32, u64>, HashMap<u32, u64>) = (HashMap::new(), HashMap::new());
        let (mut conn_granted, mut conn_received) = (65_535u64 + b.connection_bonus as u64, 0u64);
        let mut tx = SendSide { initial: 65_535, connection: 65_535, streams: HashMap::new(), pending: Vec::new() };
        loop {
            let mut h = [0u8; 9];
            if conn.read_exact(&mut h).is_err() { return; }
            let len = ((h[0] as usize) << 16) | ((h[1] as usize) << 8) | h[2] as usize;
            let (kind, flags) = (h[3], h[4]);
            let sid = u32::from_be_bytes([h[5] & 0x7f, h[6], h[7], h[8]]);
            let mut payload = vec![0u8; len];
            if conn.read_exact(&mut payload).is_err() { return; }
            if std::env::var("VERIF_NATIVE_DEBUG").is_ok() { println!("  backend <- frame type {kind} flags {flags:#x} stream {sid} len {len}"); }
            match kind {
                0x4 if flags & 0x1 == 0 => {
                    // sozu's SETTINGS: SETTINGS_INITIAL_WINDOW_SIZE (0x4) moves every stream window by the difference
                    for e in payload.chunks(6) { if e.len() == 6 && u16::from_be_bytes([e[0], e[1]]) == 4 {
                        let v = u32::from_be_bytes([e[2], e[3], e[4], e[5]]) as i64;
                        for w in tx.streams.values_mut() { *w += v - tx.initial; }
                        tx.initial = v;
                    } }
                    let _ = conn.write_all(&frame(0x4, 0x1, 0, &[]));
                }
                0x8 if len == 4 => {
                    let inc = (u32::from_be_bytes([payload[0], payload[1], payload[2], payload[3]]) & 0x7fff_ffff) as i64;
                    if sid == 0 { tx.connection += inc; } else { let initial = tx.initial; *tx.streams.entry(sid).or_insert(initial) += inc; }
                    pump(&mut conn, &b, &mut tx);
                }
                0x4 => { settings_acked = true; }
                0x6 if flags & 0x1 == 0 => { let _ = conn.write_all(&frame(0x6, 0x1, 0, &payload)); }
                0x3 => { b.events.lock().unwrap().push(format!("RST_STREAM stream {sid} code {}", u32::from_be_bytes([payload[0], payload[1], payload[2], payload[3]]))); }
                0x7 => { b.events.lock().unwrap().push(format!("GOAWAY code {}", u32::from_be_bytes([payload[4], payload[5], payload[6], payload[7]]))); }
                0x0 => {
                    let g = granted.entry(sid).or_insert(w);
                    let r = received.entry(sid).or_insert(0);
                    *r += len as u64;
                    conn_received += len as u64;
                    b.uploaded.fetch_add(len, Ordering::SeqCst);
                    if settings_acked && *r > *g {
                        b.events.lock().unwrap().push(format!("FLOW-CONTROL: sozu has sent {} flow-controlled octets on stream {sid} of the backend connection although the backend had advertised only {} for that stream (SETTINGS_INITIAL_WINDOW_SIZE {w}, acknowledged by sozu, plus the stream WINDOW_UPDATEs sent so far)", *r, *g));
                        *g = *r;
                    }
                    if conn_received > conn_granted {
                        b.events.lock().unwrap().push(format!("FLOW-CONTROL: sozu has sent {conn_received} flow-controlled octets on the backend connection although the backend had advertised only {conn_granted}"));
                        conn_granted = conn_received;
                    }
                    // a window is opened again only once it is exhausted: the account above stays exact
                    let mut out = Vec::new();
                    if flags & 0x1 == 0 && *r >= *g { out.extend_from_slice(&frame(0x8, 0, sid, &(w as u32).to_be_bytes())); *g += w; }
                    if conn_received >= conn_granted { out.extend_from_slice(&frame(0x8, 0, 0, &b.connection_grant.to_be_bytes())); conn_granted += b.connection_grant as u64; }
                    if !out.is_empty() { let _ = conn.write_all(&out); }
                    if flags & 0x1 != 0 { respond(&mut conn, sid, &b, &mut tx); }
                }
                0x1 if flags & 0x1 != 0 => { respond(&mut conn, sid, &b, &mut tx); }
                _ => {}
            }
        }
    }

    fn start_backend(address: SocketAddr, b: &Backend) -> (Arc<AtomicBool>, thread::JoinHandle<()>) {
        let back = crate::port_registry::bind_std_listener(address, "blocking h2c backend");
        let stop = Arc::new(AtomicBool::new(false));
        let (b, s) = (b.clone(), stop.clone());
        let handle = thread::spawn(move || { back.set_nonblocking(true).unwrap();
            while !s.load(Ordering::SeqCst) { match back.accept() {
                Ok((conn, _)) => { conn.set_nonblocking(false).unwrap(); let bb = b.clone(); thread::spawn(move || serve(conn, bb)); }
                Err(_) => thread::sleep(Duration::from_millis(10)) } } });
        (stop, handle)
    }

    /// strict HTTP/1.1 response reader over one connection: consumes exactly one message per call (RFC 9112 §6: no body
    /// for HEAD / 1xx / 204 / 304, else Content-Length, else chunked with its trailer section); what follows stays in `carry`
    struct H1Reader { carry: Vec<u8>, closed: bool }
    impl H1Reader {
        /// (head, body, trailer lines); body None if the message does not complete in time
        fn next(&mut self, client: &mut TcpStream, head_request: bool) -> (String, Option<Vec<u8>>, Vec<String>) {
            let mut buf = [0u8; 8192];
            let deadline = Instant::now() + Duration::from_secs(8);
            loop {
                if let Some(p) = self.carry.windows(4).position(|w| w == b"\r\n\r\n") {
                    let head = String::from_utf8_lossy(&self.carry[..p]).into_owned();
                    let lower = head.to_ascii_lowercase();
                    let code: u16 = lower.get(9..12).and_then(|c| c.parse().ok()).unwrap_or(0);
                    let rest = &self.carry[p + 4..];
                    if head_request || (100..200).contains(&code) || code == 204 || code == 304 {
                        self.carry.drain(..p + 4);
                        return (head, Some(Vec::new()), Vec::new());
                    } else if let Some(n) = lower.lines().find(|l| l.starts_with("content-length:")).and_then(|l| l["content-length:".len()..].trim().parse::<usize>().ok()) {
                        if rest.len() >= n { let body = rest[..n].to_vec(); self.carry.drain(..p + 4 + n); return (head, Some(body), Vec::new()); }
                    } else if lower.contains("transfer-encoding: chunked") {
                        let (mut pos, mut body) = (0usize, Vec::new());
                        'chunks: loop {
                            let Some(e) = rest[pos..].windows(2).position(|w| w == b"\r\n") else { break };
                            let Ok(size) = usize::from_str_radix(String::from_utf8_lossy(&rest[pos..pos + e]).trim(), 16) else { return (format!("{head} [bad chunk-size line {:?}]", String::from_utf8_lossy(&rest[pos..pos + e])), None, Vec::new()) };
                            pos += e + 2;
                            if size == 0 {
                                // trailer section: field lines until the empty line
                                let mut trailers = Vec::new();
                                loop {
                                    let Some(e) = rest[pos..].windows(2).position(|w| w == b"\r\n") else { break 'chunks };
                                    let line = String::from_utf8_lossy(&rest[pos..pos + e]).into_owned();
                                    pos += e + 2;
                                    if line.is_empty() { self.carry.drain(..p + 4 + pos); return (head, Some(body), trailers); }
                                    trailers.push(line);
                                }
                            }
                            if rest.len() < pos + size + 2 { break; }
                            body.extend_from_slice(&rest[pos..pos + size]);
                            if &rest[pos + size..pos + size + 2] != b"\r\n" { return (format!("{head} [chunk data not followed by CRLF]"), None, Vec::new()); }
                            pos += size + 2;
                        }
                    }
                }
                if Instant::now() > deadline { return (String::from_utf8_lossy(&self.carry).into_owned(), None, Vec::new()); }
                match client.read(&mut buf) { Ok(0) => { self.closed = true; return (String::from_utf8_lossy(&self.carry).into_owned(), None, Vec::new()) }, Ok(n) => self.carry.extend_from_slice(&buf[..n]), Err(e) if e.kind() == std::io::ErrorKind::ConnectionReset => { self.closed = true; return (String::from_utf8_lossy(&self.carry).into_owned(), None, Vec::new()) }, Err(_) => {} }
            }
        }
    }

    #[test]
    fn enumerate() {
        use sozu_command_lib::proto::command::Cluster;
        let thorough = std::env::var("VERIF_NATIVE_ARGS").map(|a| a.contains("thorough")).unwrap_or(false);
        let per_connection: usize = if thorough { 6 } else { 3 };
        // two units share this module: N-h1h2 (C02, "keepalive": the scenarios without a window of their own) and
        // N-h2cflow (C14, "flow": the scenarios in which the backend advertises small windows)
        let mode_flow = std::env::var("VERIF_NATIVE_ARGS").map(|a| a.contains("flow")).unwrap_or(false);
        let mode_keepalive = std::env::var("VERIF_NATIVE_ARGS").map(|a| a.contains("keepalive")).unwrap_or(false) || !mode_flow;
        let (mut n, mut answered, mut fails): (u64, u64, Vec<(String, String)>) = (0, 0, Vec::new());
        // ---- HTTP/1.1 front
        for (with_length, body_len, post_len, initial_window, flow, special) in [(true, 5usize, 0usize, None, false, 0u8), (false, 5, 0, None, false, 0), (true, 40_000, 0, None, false, 0), (true, 5, 3, None, false, 0), (true, 5, 0, None, false, 1), (true, 0, 0, None, false, 2), (true, 5, 0, None, false, 3), (false, 5, 0, None, false, 3), (true, 5, 0, None, false, 4), (true, 5, 0, None, false, 5), (true, 5, 0, None, false, 6), (true, 5, 5_000, Some(1_000u32), true, 0), (true, 5, 100_000, Some(70_000u32), true, 0), (true, 1_000_000, 0, None, true, 0), (false, 300_000, 0, None, true, 0)] {
            if (flow && !mode_flow) || (!flow && !mode_keepalive) { continue; }
            let front_address = create_local_address();
            let (config, listeners, state) = Worker::empty_config();
            let (mut worker, backends) = setup_test("VERIF-H1H2", config, listeners, state, front_address, 1, false);
            worker.send_proxy_request_type(RequestType::AddCluster(Cluster { http2: Some(true), ..Worker::default_cluster("cluster_0") }));
            worker.read_to_last();
            let b = Backend { body: (0..body_len).map(|i| b'a' + (i % 26) as u8).collect(), with_length, initial_window, connection_bonus: 0, connection_grant: 65_535, max_concurrent: None, delay_ms: 0, connections: Arc::new(AtomicUsize::new(0)), special,
                              served: Arc::new(AtomicUsize::new(0)), uploaded: Arc::new(AtomicUsize::new(0)), events: Arc::new(Mutex::new(Vec::new())) };
            let (stop, acceptor) = start_backend(backends[0], &b);
            let method = if special == 1 { "HEAD" } else if post_len > 0 { "POST" } else { "GET" };
            let answer = match special { 1 => format!("200, content-length: {body_len} and no body (the answer to HEAD)"), 2 => "204 and no body".to_string(), 4 => format!("304, content-length: {body_len} and no body"), 5 | 6 => format!("103 Early Hints (link: ...){}, then 200, content-length and a {body_len}-octet body", if special == 6 { ", 100 ms later" } else { "" }),
                                         3 => format!("200, {}, a {body_len}-octet body and a trailer section (x-checksum: abc123)", if with_length { "content-length" } else { "no content-length" }),
                                         _ => format!("200, {} and a {body_len}-octet body", if with_length { "content-length" } else { "no content-length" }) };
            let name = format!("HTTP/1.1 client: {per_connection} {} requests one after the other on one keep-alive connection; the h2c backend answers each with {answer}{}",
                               if post_len > 0 { format!("POST (Content-Length: {post_len})") } else { method.to_string() },
                               initial_window.map(|w| format!("; the backend advertises SETTINGS_INITIAL_WINDOW_SIZE {w} and opens a window again only when it is exhausted")).unwrap_or_default());
            let upload: Vec<u8> = (0..post_len).map(|i| b'A' + (i % 26) as u8).collect();
            let mut client = TcpStream::connect(front_address).expect("connect to sozu");
            client.set_read_timeout(Some(Duration::from_millis(300))).unwrap();
            let mut reader = H1Reader { carry: Vec::new(), closed: false };
            let mut reconnects = 0;
            let (want_code, want_body): (&str, Vec<u8>) = match special { 1 => ("200", Vec::new()), 2 => ("204", Vec::new()), 4 => ("304", Vec::new()), _ => ("200", b.body.clone()) };
            for k in 0..per_connection {
                n += 1;
                let mut req = if post_len > 0 { format!("POST /r{k} HTTP/1.1\r\nHost: localhost\r\nContent-Length: {post_len}\r\n\r\n").into_bytes() } else { format!("{method} /r{k} HTTP/1.1\r\nHost: localhost\r\n\r\n").into_bytes() };
                req.extend_from_slice(&upload);
                let sent = client.write_all(&req).is_ok();
                let (mut head, mut got, mut trailers) = if sent { reader.next(&mut client, special == 1) } else { reader.closed = true; (String::new(), None, Vec::new()) };
                if (special == 5 || special == 6) && head.starts_with("HTTP/1.1 103") {
                    // the interim response is a header section and nothing else (RFC 9112 §6.1: no Transfer-Encoding, no Content-Length in a 1xx)
                    let lower = head.to_ascii_lowercase();
                    if lower.contains("\ntransfer-encoding:") || lower.contains("\ncontent-length:") || !lower.contains("\nlink:") { fails.push((name.clone(), format!("request #{k}: the 103 interim response is relayed as {head:?}: a 1xx response carries no framing header, and the backend's link field must be there"))); break; }
                    (head, got, trailers) = reader.next(&mut client, false);
                }
                if got.is_none() && reader.closed && head.is_empty() && k > 0 {
                    // sozu closed the idle connection between two requests (any server may): do what a client does — connect
                    // again and send the request again; the answer must still be the backend's
                    reconnects += 1;
                    client = TcpStream::connect(front_address).expect("connect to sozu");
                    client.set_read_timeout(Some(Duration::from_millis(300))).unwrap();
                    reader = H1Reader { carry: Vec::new(), closed: false };
                    let _ = client.write_all(&req);
                    (head, got, trailers) = reader.next(&mut client, special == 1);
                }
                let status = head.lines().next().unwrap_or("").to_string();
                println!("N-h1h2 {name:?} request #{k}: {status:?} body {:?} octets, trailers {trailers:?}, {} octets left over, reconnects so far {reconnects}", got.as_ref().map(|b| b.len()), reader.carry.len());
                if std::env::var("VERIF_NATIVE_DEBUG").is_ok() { println!("  head: {head:?}"); }
                match got {
                    Some(body) if status.starts_with(&format!("HTTP/1.1 {want_code}")) && body == want_body && reader.carry.is_empty() => { answered += 1; }
                    Some(body) => { fails.push((name.clone(), format!("request #{k} is answered {status:?} with a {}-octet body and {} octets after the end of the message ({:?}) although the backend answered {answer} (requests served by the backend: {}, backend saw: {:?})", body.len(), reader.carry.len(), String::from_utf8_lossy(&reader.carry[..reader.carry.len().min(60)]), b.served.load(Ordering::SeqCst), b.events.lock().unwrap()))); break; }
                    None => { fails.push((name.clone(), format!("request #{k} gets no complete answer within 8 s (received so far: {:?}; requests served by the backend: {}, octets uploaded to it: {}, backend saw: {:?})", &head[..head.len().min(200)], b.served.load(Ordering::SeqCst), b.uploaded.load(Ordering::SeqCst), b.events.lock().unwrap()))); break; }
                }
            }
            if let Some(v) = b.events.lock().unwrap().iter().find(|e| e.starts_with("FLOW-CONTROL")) { fails.push((name.clone(), v.clone())); }
            drop(client);
            stop.store(true, Ordering::SeqCst);
            let _ = acceptor.join();
            worker.soft_stop();
            let _ = worker.wait_for_server_stop();
        }
        // ---- HTTP/2 front: the client's own stream window (1 MiB) has nothing to do with the backend's (10 000 octets)
        if mode_flow {
            use crate::tests::h2_utils::{h2_handshake_with_initial_window, raw_h2_connection, setup_h2_listener_only, parse_h2_frames, H2Frame};
            let (mut worker, front_port, _front) = setup_h2_listener_only("VERIF-H2H2");
            worker.send_proxy_request_type(RequestType::AddCluster(Cluster { http2: Some(true), ..Worker::default_cluster("cluster_0") }));
            let back_address = create_local_address();
            worker.send_proxy_request_type(RequestType::AddBackend(Worker::default_backend("cluster_0", "cluster_0-0", back_address, None)));
            worker.read_to_last();
            let b = Backend { body: b"hello".to_vec(), with_length: true, initial_window: Some(10_000), connection_bonus: 1 << 20, connection_grant: 65_535, max_concurrent: None, delay_ms: 0, connections: Arc::new(AtomicUsize::new(0)), special: 0,
                              served: Arc::new(AtomicUsize::new(0)), uploaded: Arc::new(AtomicUsize::new(0)), events: Arc::new(Mutex::new(Vec::new())) };
            let (stop, acceptor) = start_backend(back_address, &b);
            let post_len = 60_000usize;
            let name = format!("HTTP/2 client advertising SETTINGS_INITIAL_WINDOW_SIZE 1048576: {per_connection} POST requests (content-length: {post_len}) on streams 1, 3, ..; the h2c backend advertises SETTINGS_INITIAL_WINDOW_SIZE 10000, a connection window of 65535 + 1048576, and opens a window again only when it is exhausted");
            let mut tls = raw_h2_connection(std::net::SocketAddr::from(([127, 0, 0, 1], front_port)));
            h2_handshake_with_initial_window(&mut tls, 1 << 20);
            for k in 0..per_connection {
                n += 1;
                let sid = 1 + 2 * k as u32;
                let mut hp = Vec::new();
                lit(&mut hp, b":method", b"POST"); lit(&mut hp, b":scheme", b"https"); lit(&mut hp, b":path", format!("/up{k}").as_bytes()); lit(&mut hp, b":authority", b"localhost");
                lit(&mut hp, b"content-length", post_len.to_string().as_bytes());
                let _ = tls.write_all(&H2Frame::headers(sid, hp, true, false).encode());
                let upload: Vec<u8> = (0..post_len).map(|i| b'A' + (i % 26) as u8).collect();
                let chunks: Vec<&[u8]> = upload.chunks(15_000).collect();
                for (i, c) in chunks.iter().enumerate() { let _ = tls.write_all(&H2Frame::data(sid, c.to_vec(), i + 1 == chunks.len()).encode()); }
                // give the connection window back to ourselves: sozu replenishes what it advertises; we only upload 60 000 per stream
                let _ = tls.flush();
                let deadline = Instant::now() + Duration::from_secs(8);
                let (mut seen, mut done, mut status_ok) = (Vec::new(), false, false);
                while Instant::now() < deadline && !done {
                    seen.extend_from_slice(&crate::tests::h2_utils::read_all_available(&mut tls, Duration::from_millis(200)));
                    for (t, fl, s, p) in parse_h2_frames(&seen) {
                        if s == sid && t == 0x1 { status_ok = p.first() == Some(&0x88) || p.windows(3).any(|w| w == b"200"); }
                        if s == sid && (t == 0x0 || t == 0x1) && fl & 0x1 != 0 { done = true; }
                        if s == sid && t == 0x3 { done = true; status_ok = false; }
                    }
                }
                println!("N-h1h2 {name:?} stream {sid}: done {done} status_ok {status_ok}, backend received {} octets, events {:?}", b.uploaded.load(Ordering::SeqCst), b.events.lock().unwrap());
                if done && status_ok { answered += 1; } else {
                    fails.push((name.clone(), format!("the request on stream {sid} gets no complete 200 answer within 8 s (octets uploaded to the backend so far: {} of {}; requests served by the backend: {}; backend saw: {:?})", b.uploaded.load(Ordering::SeqCst), (k + 1) * post_len, b.served.load(Ordering::SeqCst), b.events.lock().unwrap())));
                    break;
                }
            }
            if let Some(v) = b.events.lock().unwrap().iter().find(|e| e.starts_with("FLOW-CONTROL")) { fails.push((name.clone(), v.clone())); }
            drop(tls);
            stop.store(true, Ordering::SeqCst);
            let _ = acceptor.join();
            worker.soft_stop();
            let _ = worker.wait_for_server_stop();
        }
        // ---- HTTP/2 front, a backend that allows ONE concurrent stream per connection and answers slowly: the second of
        // two requests sent together needs a second backend connection — it must not be refused (503) while the backend is usable
        if mode_keepalive {
            use crate::tests::h2_utils::{h2_handshake_with_initial_window, raw_h2_connection, setup_h2_listener_only, parse_h2_frames, H2Frame};
            let (mut worker, front_port, _front) = setup_h2_listener_only("VERIF-H2H2M");
            worker.send_proxy_request_type(RequestType::AddCluster(Cluster { http2: Some(true), ..Worker::default_cluster("cluster_0") }));
            let back_address = create_local_address();
            worker.send_proxy_request_type(RequestType::AddBackend(Worker::default_backend("cluster_0", "cluster_0-0", back_address, None)));
            worker.read_to_last();
            let b = Backend { body: b"hello".to_vec(), with_length: true, initial_window: None, connection_bonus: 0, connection_grant: 65_535, max_concurrent: Some(1), delay_ms: 700, connections: Arc::new(AtomicUsize::new(0)), special: 0,
                              served: Arc::new(AtomicUsize::new(0)), uploaded: Arc::new(AtomicUsize::new(0)), events: Arc::new(Mutex::new(Vec::new())) };
            let (stop, acceptor) = start_backend(back_address, &b);
            let name = "HTTP/2 client: a warm-up GET on stream 1, then two GETs written together on streams 3 and 5; the h2c backend advertises SETTINGS_MAX_CONCURRENT_STREAMS 1 and answers each request after 0.7 s".to_string();
            let mut tls = raw_h2_connection(std::net::SocketAddr::from(([127, 0, 0, 1], front_port)));
            h2_handshake_with_initial_window(&mut tls, 1 << 20);
            let get = |path: &str| { let mut h = Vec::new(); lit(&mut h, b":method", b"GET"); lit(&mut h, b":scheme", b"https"); lit(&mut h, b":path", path.as_bytes()); lit(&mut h, b":authority", b"localhost"); h };
            let _ = tls.write_all(&H2Frame::headers(1, get("/warm"), true, true).encode());
            let _ = tls.flush();
            let mut seen = crate::tests::h2_utils::read_all_available(&mut tls, Duration::from_millis(1800));
            let mut wire = H2Frame::headers(3, get("/a"), true, true).encode();
            wire.extend_from_slice(&H2Frame::headers(5, get("/b"), true, true).encode());
            let _ = tls.write_all(&wire);
            let _ = tls.flush();
            n += 2;
            let deadline = Instant::now() + Duration::from_secs(10);
            let mut status: HashMap<u32, String> = HashMap::new();
            let mut ended: Vec<u32> = Vec::new();
            while Instant::now() < deadline && ended.len() < 2 {
                seen.extend_from_slice(&crate::tests::h2_utils::read_all_available(&mut tls, Duration::from_millis(200)));
                ended.clear();
                for (t, fl, s, p) in parse_h2_frames(&seen) {
                    if (s == 3 || s == 5) && t == 0x1 && !status.contains_key(&s) { status.insert(s, if p.first() == Some(&0x88) || p.windows(3).any(|w| w == b"200") { "200".to_string() } else { format!("not 200 (header block starts {:02x?})", &p[..p.len().min(6)]) }); }
                    if (s == 3 || s == 5) && (t == 0x0 || t == 0x1) && fl & 0x1 != 0 && !ended.contains(&s) { ended.push(s); }
                    if (s == 3 || s == 5) && t == 0x3 && !ended.contains(&s) { status.insert(s, "RST_STREAM".to_string()); ended.push(s); }
                }
            }
            println!("N-h1h2 {name:?}: status {status:?}, ended {ended:?}, backend connections {}, served {}", b.connections.load(Ordering::SeqCst), b.served.load(Ordering::SeqCst));
            for sid in [3u32, 5] {
                if ended.contains(&sid) && status.get(&sid).map(|s| s == "200").unwrap_or(false) { answered += 1; }
                else { fails.push((name.clone(), format!("the request on stream {sid} is answered {:?} (complete: {}) although the backend is up and answers every request it receives with 200 (backend connections: {}, requests it served: {})", status.get(&sid), ended.contains(&sid), b.connections.load(Ordering::SeqCst), b.served.load(Ordering::SeqCst)))); break; }
            }
            drop(tls);
            stop.store(true, Ordering::SeqCst);
            let _ = acceptor.join();
            worker.soft_stop();
            let _ = worker.wait_for_server_stop();
        }
        // ---- HTTP/2 front, CONCURRENT uploads: the backend's connection window (65 535, opened again only when exhausted)
        // is the binding limit while three streams have DATA ready at the same time
        if mode_flow {
            use crate::tests::h2_utils::{h2_handshake_with_initial_window, raw_h2_connection, setup_h2_listener_only, parse_h2_frames, H2Frame};
            let (mut worker, front_port, _front) = setup_h2_listener_only("VERIF-H2H2C");
            worker.send_proxy_request_type(RequestType::AddCluster(Cluster { http2: Some(true), ..Worker::default_cluster("cluster_0") }));
            let back_address = create_local_address();
            worker.send_proxy_request_type(RequestType::AddBackend(Worker::default_backend("cluster_0", "cluster_0-0", back_address, None)));
            worker.read_to_last();
            let b = Backend { body: b"hello".to_vec(), with_length: true, initial_window: Some(1 << 20), connection_bonus: 0, connection_grant: 3_000, max_concurrent: None, delay_ms: 0, connections: Arc::new(AtomicUsize::new(0)), special: 0,
                              served: Arc::new(AtomicUsize::new(0)), uploaded: Arc::new(AtomicUsize::new(0)), events: Arc::new(Mutex::new(Vec::new())) };
            let (stop, acceptor) = start_backend(back_address, &b);
            let post_len = 40_000usize;
            let streams: Vec<u32> = (0..3).map(|k| 3 + 2 * k as u32).collect();
            let name = format!("HTTP/2 client: a warm-up GET on stream 1, then 3 POST requests (content-length: {post_len}) written together on streams 3, 5, 7; the h2c backend advertises SETTINGS_INITIAL_WINDOW_SIZE 1048576 per stream and keeps the default connection window of 65535, opened again by 3000 octets only when it is exhausted");
            let mut tls = raw_h2_connection(std::net::SocketAddr::from(([127, 0, 0, 1], front_port)));
            h2_handshake_with_initial_window(&mut tls, 1 << 20);
            // warm-up: the backend connection exists and its SETTINGS are acknowledged before the uploads start
            let mut h0 = Vec::new();
            lit(&mut h0, b":method", b"GET"); lit(&mut h0, b":scheme", b"https"); lit(&mut h0, b":path", b"/warm"); lit(&mut h0, b":authority", b"localhost");
            let _ = tls.write_all(&H2Frame::headers(1, h0, true, true).encode());
            let _ = tls.flush();
            let mut seen = crate::tests::h2_utils::read_all_available(&mut tls, Duration::from_millis(1500));
            let mut wire = Vec::new();
            for &sid in &streams {
                let mut hp = Vec::new();
                lit(&mut hp, b":method", b"POST"); lit(&mut hp, b":scheme", b"https"); lit(&mut hp, b":path", format!("/up{sid}").as_bytes()); lit(&mut hp, b":authority", b"localhost");
                lit(&mut hp, b"content-length", post_len.to_string().as_bytes());
                wire.extend_from_slice(&H2Frame::headers(sid, hp, true, false).encode());
            }
            let upload: Vec<u8> = (0..post_len).map(|i| b'A' + (i % 26) as u8).collect();
            let chunks: Vec<&[u8]> = upload.chunks(10_000).collect();
            for (i, c) in chunks.iter().enumerate() { for &sid in &streams { wire.extend_from_slice(&H2Frame::data(sid, c.to_vec(), i + 1 == chunks.len()).encode()); } }
            let _ = tls.write_all(&wire);
            let _ = tls.flush();
            n += streams.len() as u64;
            let deadline = Instant::now() + Duration::from_secs(10);
            let mut done: Vec<u32> = Vec::new();
            while Instant::now() < deadline && done.len() < streams.len() {
                seen.extend_from_slice(&crate::tests::h2_utils::read_all_available(&mut tls, Duration::from_millis(200)));
                done.clear();
                for (t, fl, s, _p) in parse_h2_frames(&seen) { if streams.contains(&s) && t == 0x0 && fl & 0x1 != 0 && !done.contains(&s) { done.push(s); } }
            }
            println!("N-h1h2 {name:?}: answered streams {done:?}, backend received {} octets, events {:?}", b.uploaded.load(Ordering::SeqCst), b.events.lock().unwrap());
            answered += done.len() as u64;
            if let Some(v) = b.events.lock().unwrap().iter().find(|e| e.starts_with("FLOW-CONTROL")) { fails.push((name.clone(), v.clone())); }
            else if done.len() < streams.len() { fails.push((name.clone(), format!("only the requests on streams {done:?} of {streams:?} get a complete answer within 10 s (octets uploaded to the backend: {} of {}; backend saw: {:?})", b.uploaded.load(Ordering::SeqCst), streams.len() * post_len, b.events.lock().unwrap()))); }
            drop(tls);
            stop.store(true, Ordering::SeqCst);
            let _ = acceptor.join();
            worker.soft_stop();
            let _ = worker.wait_for_server_stop();
        }
        let fl: Vec<String> = fails.iter().map(|(i, o)| format!("{{\"input\": {:?}, \"observed\": {:?}}}", i, o)).collect();
        let bound = if mode_flow { format!("6 scenarios (5 x {per_connection} requests one after the other, 1 x 3 concurrent uploads) through a real worker to an h2c backend that accounts every flow-controlled octet it receives and never exceeds the windows sozu advertises: HTTP/1.1 keep-alive clients uploading 5000 / 100000 octets against a backend stream window of 1000 / 70000 and downloading 1000000 / 300000 octets (sozu must replenish its windows), and an HTTP/2 client with a 1 MiB stream window uploading 60000 octets per stream against a backend stream window of 10000, and three concurrent 40000-octet uploads against the backend's connection window of 65535") } else { format!("11 scenarios x {per_connection} requests one after the other on one keep-alive HTTP/1.1 connection through a real worker to an h2c backend, read by a strict HTTP/1.1 reader (GET / POST / HEAD, responses with / without content-length, 5 and 40000 octets, 204, 304 with content-length, trailer sections, 103 Early Hints before the final answer), and two concurrent HTTP/2 requests to an h2c backend that allows one stream per connection") };
        println!("{{\"bound\": \"{bound}\", \"states\": {n}, \"pairs\": {n}, \"nontrivial_pairs\": {answered}, \"failures\": [{}]}}", fl.join(", "));
    }
