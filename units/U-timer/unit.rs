// Unit U-timer — lib/src/timer.rs timing wheel: arming and cancelling (serves C16)
// Property sentence -> contract: "idle or stuck sessions are reclaimed within their timeouts": the event loop sleeps
// until Timer::next_poll_date(), which is the minimum of the wheel slots' `next_tick`. A pending timeout is therefore
// reclaimed in time only if its slot's `next_tick` is never later than its own tick:
//   wakeup_sound(self) == forall pending entry e: wheel[slot_for(e.tick)].next_tick <= e.tick
// Arming (set_timeout_at -> insert) and cancelling (cancel_timeout -> unlink) must preserve it; cancelling returns
// the state of exactly the timeout named, once. poll_to (which deliberately breaks and restores the bound while it
// walks a slot) is NOT in this unit: it is bounded-checked by K-timer.
use vstd::prelude::*;
use std::marker::PhantomData;
verus! {

global layout usize is size == 8;

#[verifier::external_body] #[derive(Clone, Copy)] pub struct Instant { _p: () }
#[verifier::external_body] #[derive(Clone, Copy)] pub struct Duration { _p: () }
// mio::Token: a newtype over usize with structural equality (mio documentation)
#[derive(Clone, Copy, PartialEq, Eq, Structural)]
pub struct Token(pub usize);

// slab::Slab as a map from occupied key to value (slab documentation: insert returns a vacant key; remove returns
// the value stored under an occupied key and panics otherwise; get is None for a vacant key)
#[verifier::external_body]
#[verifier::reject_recursive_types(T)]
pub struct Slab<T> { _p: PhantomData<T> }
impl<T> Slab<T> {
    pub uninterp spec fn view(&self) -> Map<usize, T>;
    #[verifier::external_body]
    pub fn insert(&mut self, v: T) -> (r: usize)
        ensures !old(self)@.contains_key(r), final(self)@ == old(self)@.insert(r, v), r != usize::MAX,
    { unimplemented!() }
    #[verifier::external_body]
    pub fn remove(&mut self, k: usize) -> (r: T)
        requires old(self)@.contains_key(k),
        ensures final(self)@ == old(self)@.remove(k), r == old(self)@[k],
    { unimplemented!() }
    #[verifier::external_body]
    pub fn get(&self, k: usize) -> (r: Option<&T>)
        ensures match r { Some(v) => self@.contains_key(k) && *v == self@[k], None => !self@.contains_key(k) },
    { unimplemented!() }
    // `&mut self.entries[k]` (IndexMut: panics on a vacant key)
    #[verifier::external_body]
    pub fn verif_index_mut(&mut self, k: usize) -> (r: &mut T)
        requires old(self)@.contains_key(k),
        ensures *r == old(self)@[k], final(self)@ == old(self)@.insert(k, *final(r)),
    { unimplemented!() }
}
pub uninterp spec fn spec_duration_to_tick(elapsed: Duration, tick_ms: u64) -> u64;
// rounding of a Duration to ticks (saturating u128 -> u64 arithmetic on Duration::as_millis, outside Verus): a pure function
#[verifier::external_body]
pub fn duration_to_tick(elapsed: Duration, tick_ms: u64) -> (r: u64) ensures r == spec_duration_to_tick(elapsed, tick_ms) { unimplemented!() }
#[verifier::external_body]
pub fn verif_umin(a: u64, b: u64) -> (r: u64) ensures r == (if a <= b { a } else { b }) { unimplemented!() }

pub proof fn lemma_and_comm(a: u64, b: u64) ensures a & b == b & a { assert(a & b == b & a) by (bit_vector); }

//@item lib/src/timer.rs type Tick
//@item lib/src/timer.rs const TICK_MAX
//@item lib/src/timer.rs const EMPTY
//@item lib/src/timer.rs struct WheelEntry
//@item lib/src/timer.rs struct EntryLinks
#[verifier::reject_recursive_types(T)]
//@item lib/src/timer.rs struct Entry
//@item lib/src/timer.rs struct Timeout
#[verifier::reject_recursive_types(T)]
//@item lib/src/timer.rs struct Timer

impl<T> Entry<T> {
    //@fn lib/src/timer.rs Entry::new
    //@  ret r
    //@  ensures
    //@    r.state == state && r.links.tick == tick && r.links.prev == EMPTY && r.links.next == next,   // [a-new-entry-heads-its-slot]
    //@end
}

impl<T> Timer<T> {
    pub open spec fn spec_slot(&self, tick: u64) -> int { (self.mask & tick) as int }
    // geometry fixed by Timer::new: a power-of-two wheel and mask = len - 1
    pub open spec fn geometry(&self) -> bool {
        &&& self.wheel@.len() > 0
        &&& forall|t: u64| 0 <= #[trigger] (self.mask & t) < self.wheel@.len()
    }
    // every link names an occupied slab key or EMPTY; an entry without predecessor is the head of its slot
    pub open spec fn links_ok(&self) -> bool {
        forall|k: usize| #[trigger] self.entries@.contains_key(k) ==> {
            let l = self.entries@[k].links;
            &&& (l.prev == EMPTY || self.entries@.contains_key(l.prev.0))
            &&& (l.next == EMPTY || self.entries@.contains_key(l.next.0))
        }
    }
    // THE property: the slot's wake-up tick is never later than a pending timeout that lives in it
    pub open spec fn wakeup_sound(&self) -> bool {
        forall|k: usize| #[trigger] self.entries@.contains_key(k) ==>
            self.wheel@[self.spec_slot(self.entries@[k].links.tick)].next_tick <= self.entries@[k].links.tick
    }

    //@fn lib/src/timer.rs Timer::slot_for
    //@  ret r
    //@  requires
    //@    self.geometry(),
    //@  ensures
    //@    r == self.spec_slot(tick) && r < self.wheel@.len(),                                          // [slot-in-range]
    //@end

    //@fn lib/src/timer.rs Timer::unlink
    //@  subst "self.entries[links.prev.into()].links.next = links.next;" => "{ let e = self.entries.verif_index_mut(links.prev.0); e.links.next = links.next; }"
    //@  subst "self.entries[links.next.into()].links.prev = links.prev;" => "{ let e = self.entries.verif_index_mut(links.next.0); e.links.prev = links.prev; }"
    //@  requires
    //@    old(self).geometry(),
    //@    links.prev == EMPTY || old(self).entries@.contains_key(links.prev.0),
    //@    links.next == EMPTY || old(self).entries@.contains_key(links.next.0),
    //@  ensures
    //@    final(self).geometry() && final(self).mask == old(self).mask && final(self).tick == old(self).tick,
    //@    final(self).entries@.dom() =~= old(self).entries@.dom(),                                     // [unlink-frees-nothing]
    //@    forall|k: usize| #[trigger] final(self).entries@.contains_key(k) ==> final(self).entries@[k].links.tick == old(self).entries@[k].links.tick
    //@        && final(self).entries@[k].state == old(self).entries@[k].state,                        // [ticks-and-states-untouched]
    //@    forall|s: int| 0 <= s < final(self).wheel@.len() ==> (#[trigger] final(self).wheel@[s]).next_tick == old(self).wheel@[s].next_tick, // [wake-up-ticks-untouched]
    //@    final(self).wheel@.len() == old(self).wheel@.len(),
    //@end

    //@fn lib/src/timer.rs Timer::insert
    //@  ret r
    //@  subst "self.entries[curr.head.into()].links.prev = token;" => "{ let e = self.entries.verif_index_mut(curr.head.0); e.links.prev = token; }"
    //@  subst "cmp::min(tick, curr.next_tick)" => "verif_umin(tick, curr.next_tick)"
    //@  before "let curr = self.wheel[slot];"
    //@    proof { lemma_and_comm(tick, self.mask); }
    //@    assert(slot == self.spec_slot(tick));
    //@  requires
    //@    old(self).geometry() && old(self).wakeup_sound(),
    //@    forall|s: int| 0 <= s < old(self).wheel@.len() ==> ((#[trigger] old(self).wheel@[s]).head == EMPTY || old(self).entries@.contains_key(old(self).wheel@[s].head.0)),
    //@  ensures
    //@    final(self).geometry() && final(self).wakeup_sound(),                                       // [arming-keeps-the-wake-up-sound]
    //@    r.tick == tick && !old(self).entries@.contains_key(r.token.0) && final(self).entries@.contains_key(r.token.0)
    //@        && final(self).entries@[r.token.0].links.tick == tick && final(self).entries@[r.token.0].state == state, // [armed-under-a-fresh-token-at-the-tick-asked]
    //@    final(self).wheel@[final(self).spec_slot(tick)].next_tick <= tick,                          // [slot-wakes-no-later-than-the-new-timeout]
    //@    final(self).entries@.dom() =~= old(self).entries@.dom().insert(r.token.0),                  // [nothing-else-armed-or-lost]
    //@    final(self).tick == old(self).tick && final(self).mask == old(self).mask && final(self).tick_ms == old(self).tick_ms, // [clock-untouched]
    //@end

    //@fn lib/src/timer.rs Timer::set_timeout_at
    //@  ret r
    //@  requires
    //@    old(self).geometry() && old(self).wakeup_sound() && old(self).tick < u64::MAX,
    //@    forall|s: int| 0 <= s < old(self).wheel@.len() ==> ((#[trigger] old(self).wheel@[s]).head == EMPTY || old(self).entries@.contains_key(old(self).wheel@[s].head.0)),
    //@  ensures
    //@    final(self).geometry() && final(self).wakeup_sound(),                                       // [arming-keeps-the-wake-up-sound]
    //@    r.tick > old(self).tick && r.tick >= spec_duration_to_tick(delay_from_start, old(self).tick_ms), // [never-armed-in-the-past-nor-earlier-than-asked]
    //@    r.tick == spec_duration_to_tick(delay_from_start, old(self).tick_ms) || r.tick == old(self).tick + 1, // [armed-at-the-tick-asked-or-the-next-tick]
    //@    final(self).entries@.contains_key(r.token.0) && final(self).entries@[r.token.0].links.tick == r.tick
    //@        && final(self).wheel@[final(self).spec_slot(r.tick)].next_tick <= r.tick,              // [the-new-timeout-will-wake-the-loop-in-time]
    //@end

    //@fn lib/src/timer.rs Timer::cancel_timeout
    //@  ret r
    //@  substall "timeout.token.into()" => "timeout.token.0"
    //@  requires
    //@    old(self).geometry() && old(self).wakeup_sound() && old(self).links_ok(),
    //@  ensures
    //@    final(self).geometry() && final(self).wakeup_sound(),                                       // [cancelling-keeps-the-wake-up-sound]
    //@    r is Some <==> (old(self).entries@.contains_key(timeout.token.0) && old(self).entries@[timeout.token.0].links.tick == timeout.tick), // [cancels-iff-the-named-timeout-is-pending]
    //@    r is Some ==> r->0 == old(self).entries@[timeout.token.0].state
    //@        && final(self).entries@.dom() =~= old(self).entries@.dom().remove(timeout.token.0),     // [returns-its-own-state-and-frees-exactly-it]
    //@    r is None ==> final(self).entries@ == old(self).entries@,                                   // [a-stale-handle-cancels-nothing]
    //@end
}

} // verus!
fn main() {}
