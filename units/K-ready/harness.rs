    // Kani harness for lib/src/lib.rs Readiness — appended to the REAL file in a scratch copy (loop-free, full domain).
    #[kani::proof]
    fn readiness_bit_algebra() {
        let e: u16 = kani::any();
        let i: u16 = kani::any();
        // debug-build invariant of the type: only the four defined bits are ever set
        kani::assume(e & !0b1111 == 0 && i & !0b1111 == 0);
        let w = Ready::WRITABLE.0;
        let rd = Ready::READABLE.0;
        kani::cover!(e & w == 0 && i & w == 0);

        let mut r = Readiness { event: Ready(e), interest: Ready(i) };
        r.arm_writable();
        assert!(r.filter_interest().is_writable());
        assert!(r.event.0 == e | w && r.interest.0 == i | w);

        let mut r2 = Readiness { event: Ready(e), interest: Ready(i) };
        r2.signal_pending_write();
        assert!(r2.event.0 == e | w && r2.interest.0 == i);

        let mut r3 = Readiness { event: Ready(e), interest: Ready(i) };
        r3.signal_pending_read();
        assert!(r3.event.0 == e | rd && r3.interest.0 == i);

        let r4 = Readiness { event: Ready(e), interest: Ready(i) };
        assert!(r4.filter_interest().0 == e & i);

        let mut r5 = Readiness { event: Ready(e), interest: Ready(i) };
        r5.reset();
        assert!(r5.event.0 == 0 && r5.interest.0 == 0);
    }
