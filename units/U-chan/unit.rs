// Unit U-chan — command/src/channel.rs `Channel` framing over `Buffer` (serves C11)
// Hand-written: shims for the socket (with ghost byte logs), Ready, prost, le-bytes; spec fns.
// `Buffer` methods appear here by contract only: `//@import U-buf <fn>` copies signature + contract from
// unit U-buf mechanically (where the bodies are verified against exactly these contracts).
#![feature(allocator_api)]
use vstd::prelude::*;
use std::marker::PhantomData;
verus! {
global size_of usize == 8;

pub open spec fn min_int(a: int, b: int) -> int { if a <= b { a } else { b } }

// R6 target for `min(` (generic Ord is outside Verus); verified, not trusted.
pub fn verif_min(a: usize, b: usize) -> (r: usize)
    ensures r as int == min_int(a as int, b as int)
{ if a <= b { a } else { b } }

// ---------------------------------------------------------------- dependency shims (ASSUMED contracts)
pub enum ErrorKind { WouldBlock, Other }
#[verifier::external_body]
pub struct IoError { _p: () }
impl IoError {
    #[verifier::external_body]
    pub fn kind(&self) -> ErrorKind { unimplemented!() }
}
#[verifier::external_body]
pub struct DecodeError { _p: () }
#[verifier::external_body]
pub struct Duration { _p: () }

// mio::net::UnixStream: `read` delivers n <= |buf| bytes into the front of buf; `write` accepts a
// prefix of buf. The ghost logs `received`/`sent` record exactly those bytes (specification-only state).
#[verifier::external_body]
pub struct MioUnixStream { _p: () }
impl MioUnixStream {
    pub uninterp spec fn received(&self) -> Seq<u8>;
    pub uninterp spec fn sent(&self) -> Seq<u8>;
    #[verifier::external_body]
    pub fn read(&mut self, buf: &mut [u8]) -> (r: Result<usize, IoError>)
        ensures
            final(buf)@.len() == old(buf)@.len(),
            final(self).sent() == old(self).sent(),
            r matches Ok(n) ==> n <= old(buf)@.len()
                && final(self).received() =~= old(self).received() + final(buf)@.subrange(0, n as int),
            r is Err ==> final(self).received() == old(self).received() && final(buf)@ == old(buf)@,
    { unimplemented!() }
    #[verifier::external_body]
    pub fn write(&mut self, buf: &[u8]) -> (r: Result<usize, IoError>)
        ensures
            final(self).received() == old(self).received(),
            r matches Ok(n) ==> n <= buf@.len()
                && final(self).sent() =~= old(self).sent() + buf@.subrange(0, n as int),
            r is Err ==> final(self).sent() == old(self).sent(),
    { unimplemented!() }
}

// sozu_command_lib::ready::Ready — opaque: readiness bits are not part of any C11 obligation here.
#[verifier::external_body]
#[derive(Clone, Copy)]
pub struct Ready { _p: () }
impl Ready {
    #[verifier::external_body]
    pub const EMPTY: Ready = Ready { _p: () };
    #[verifier::external_body]
    pub const READABLE: Ready = Ready { _p: () };
    #[verifier::external_body]
    pub const WRITABLE: Ready = Ready { _p: () };
    #[verifier::external_body]
    pub const HUP: Ready = Ready { _p: () };
    #[verifier::external_body]
    pub fn is_readable(&self) -> bool { unimplemented!() }
    #[verifier::external_body]
    pub fn is_writable(&self) -> bool { unimplemented!() }
    #[verifier::external_body]
    pub fn insert(&mut self, other: Ready) { unimplemented!() }
    #[verifier::external_body]
    pub fn remove(&mut self, other: Ready) { unimplemented!() }
}
#[verifier::external_body]
pub fn verif_ready_and(a: Ready, b: Ready) -> Ready { unimplemented!() }

// prost::Message: decode is a partial function of the bytes, encode_to_vec a function of the value.
pub trait ProstMessage: Sized {
    spec fn spec_decode(buf: Seq<u8>) -> Option<Self>;
    spec fn spec_encode(&self) -> Seq<u8>;
    fn decode(buf: &[u8]) -> (r: Result<Self, DecodeError>)
        ensures
            r matches Ok(m) ==> Self::spec_decode(buf@) == Some(m),
            r is Err ==> Self::spec_decode(buf@) is None;
    fn encode_to_vec(&self) -> (r: Vec<u8>)
        ensures
            r@ == self.spec_encode(),
            r@.len() <= isize::MAX as usize;   // std allocation limit of Vec<u8>
}

// usize::{from,to}_le_bytes
pub uninterp spec fn spec_le_decode(b: Seq<u8>) -> usize;
pub uninterp spec fn spec_le_encode(x: usize) -> Seq<u8>;
#[verifier::external_body]
pub proof fn axiom_le_bytes(x: usize)
    ensures spec_le_encode(x).len() == 8, spec_le_decode(spec_le_encode(x)) == x
{}
#[verifier::external_body]
pub fn verif_usize_from_le_bytes(b: [u8; 8]) -> (r: usize)
    ensures r == spec_le_decode(b@)
{ usize::from_le_bytes(b) }
#[verifier::external_body]
pub fn verif_usize_to_le_bytes(x: usize) -> (r: [u8; 8])
    ensures r@ == spec_le_encode(x)
{ x.to_le_bytes() }
// `buffer[..delimiter_size()].try_into().map_err(|_| MismatchBufferSize)?` : slice -> [u8; 8]
#[verifier::external_body]
pub fn verif_prefix8(buffer: &[u8]) -> (r: Result<[u8; 8], ChannelError>)
    requires buffer@.len() >= 8
    ensures r matches Ok(a) && a@ =~= buffer@.subrange(0, 8)
{ unimplemented!() }

// ---------------------------------------------------------------- Buffer by contract (bodies: unit U-buf)
//@item command/src/buffer/growable.rs struct Buffer

impl Buffer {
    pub open spec fn wf(&self) -> bool {
        &&& self.position <= self.end
        &&& self.end <= self.capacity
        &&& self.capacity == self.memory@.len()
        &&& self.capacity <= isize::MAX as usize
    }
    pub open spec fn view(&self) -> Seq<u8> {
        self.memory@.subrange(self.position as int, self.end as int)
    }
    pub open spec fn spare(&self) -> Seq<u8> {
        self.memory@.subrange(self.end as int, self.capacity as int)
    }
    //@import U-buf Buffer::grow
    //@import U-buf Buffer::shrink
    //@import U-buf Buffer::shift
    //@import U-buf Buffer::available_data
    //@import U-buf Buffer::available_space
    //@import U-buf Buffer::capacity
    //@import U-buf Buffer::consume
    //@import U-buf Buffer::fill
    //@import U-buf Buffer::data
    //@import U-buf Buffer::space
    // std::io::Write::write_all over `Buffer::write` (ASSUMED: std's write_all loop + <&mut [u8]>::write;
    // checked for small capacities by Kani unit K-bufmem).
    #[verifier::external_body]
    pub fn write_all(&mut self, buf: &[u8]) -> (r: Result<(), IoError>)
        requires old(self).wf(),
        ensures final(self).wf(), final(self).capacity == old(self).capacity,
            buf@.len() <= old(self).capacity - old(self).end ==> r is Ok && final(self).view() =~= old(self).view() + buf@
                && final(self).end <= old(self).end + buf@.len(),
    { unimplemented!() }
}

// ---------------------------------------------------------------- real items
//@global-subst "std::io::Error" => "IoError"
//@item command/src/channel.rs enum ChannelError
//@item command/src/channel.rs struct Channel
//@fn command/src/channel.rs delimiter_size
//@  ret r
//@  ensures
//@    r == 8,                                       // [eight-bytes]
//@end

impl<Tx: ProstMessage, Rx: ProstMessage> Channel<Tx, Rx> {
    pub open spec fn wf(&self) -> bool {
        &&& self.front_buf.wf()
        &&& self.back_buf.wf()
        &&& self.front_buf.capacity <= self.max_buffer_size   // "buffer memory never exceeds the configured ceiling"
        &&& self.back_buf.capacity <= self.max_buffer_size
        // ASSUMED (stated, not proved): the configured ceiling is below 2^62 bytes, so `len * 4` and
        // Vec allocation (<= isize::MAX) cannot overflow
        &&& self.max_buffer_size <= usize::MAX / 4
    }

    #[verifier::external_body]
    pub fn check_high_watermark(buffer_name: &str, capacity: usize, max: usize, already_logged: &mut bool) { unimplemented!() }

    //@fn command/src/channel.rs Channel::grow_size
    //@  ret r
    //@  substall "min(" => "verif_min("
    //@  ensures
    //@    current_capacity >= self.max_buffer_size ==> r is None,                                        // [none-at-ceiling]
    //@    current_capacity < self.max_buffer_size ==> (r matches Some(n) && current_capacity < n && n <= self.max_buffer_size), // [strictly-grows-within-ceiling]
    //@end

    pub open spec fn head_len(v: Seq<u8>) -> usize { spec_le_decode(v.subrange(0, 8)) }

    //@fn command/src/channel.rs Channel::try_read_delimited_message
    //@  ret r
    //@  subst "buffer[..delimiter_size()]\n                .try_into()\n                .map_err(|_| ChannelError::MismatchBufferSize)?" => "verif_prefix8(buffer)?"
    //@  subst "usize::from_le_bytes(delimiter)" => "verif_usize_from_le_bytes(delimiter)"
    //@  subst "decoded.map_err(ChannelError::InvalidProtobufMessage)?" => "verif_map_decode_err(decoded)?"
    //@  requires
    //@    old(self).wf(),
    //@  ensures
    //@    final(self).wf(),                                                                              // [wf-and-ceiling]
    //@    final(self).back_buf == old(self).back_buf && final(self).max_buffer_size == old(self).max_buffer_size, // [frame]
    //@    r matches Ok(Some(m)) ==> ({
    //@        let v = old(self).front_buf.view(); let l = Self::head_len(v);
    //@        v.len() >= 8 && 8 <= l && l <= old(self).max_buffer_size && l <= v.len()
    //@        && Rx::spec_decode(v.subrange(8, l as int)) == Some(m)
    //@        && final(self).front_buf.view() =~= v.subrange(l as int, v.len() as int) }),                // [delivers-exactly-head-frame]
    //@    r matches Ok(None) ==> ({
    //@        let v = old(self).front_buf.view();
    //@        final(self).front_buf.view() =~= v
    //@        && (v.len() < 8 || (8 <= Self::head_len(v) && Self::head_len(v) <= old(self).max_buffer_size && v.len() < Self::head_len(v))) }), // [incomplete-keeps-bytes]
    //@    r matches Ok(None) ==> final(self).front_buf.capacity - final(self).front_buf.end > 0,          // [room-after-none]
    //@    r matches Err(ChannelError::MessageLengthUnderDelimiter { .. }) ==> ({
    //@        let v = old(self).front_buf.view();
    //@        v.len() >= 8 && Self::head_len(v) < 8 && final(self).front_buf.view() =~= v.subrange(8, v.len() as int) }), // [short-prefix-consumed]
    //@    r matches Err(ChannelError::MessageTooLarge { .. }) ==> ({
    //@        let v = old(self).front_buf.view();
    //@        v.len() >= 8 && Self::head_len(v) > old(self).max_buffer_size }),                            // [too-large-means-over-max]
    //@    r matches Err(ChannelError::InvalidProtobufMessage(_)) ==> ({
    //@        let v = old(self).front_buf.view(); let l = Self::head_len(v);
    //@        v.len() >= 8 && 8 <= l && l <= v.len() && Rx::spec_decode(v.subrange(8, l as int)) is None
    //@        && final(self).front_buf.view() =~= v.subrange(l as int, v.len() as int) }),                // [wedge-1-undecodable-frame-consumed]
    //@    r matches Err(ChannelError::BufferFull { .. }) ==> old(self).front_buf.view().len() == old(self).max_buffer_size, // [wedge-2-full-only-when-truly-full]
    //@    r is Err ==> (r matches Err(ChannelError::MessageLengthUnderDelimiter { .. }) || r matches Err(ChannelError::MessageTooLarge { .. })
    //@        || r matches Err(ChannelError::InvalidProtobufMessage(_)) || r matches Err(ChannelError::BufferFull { .. })), // [error-kinds]
    //@end

    //@fn command/src/channel.rs Channel::write_delimited_message
    //@  ret r
    //@  subst "payload_len.to_le_bytes()" => "verif_usize_to_le_bytes(payload_len)"
    //@  substall "min(" => "verif_min("
    //@  substall ".map_err(ChannelError::Write)?" => ".map_err(|e| ChannelError::Write(e))?"
    //@  requires
    //@    old(self).wf(),
    //@    // address-space bound: the encoded payload and the back buffer are two live allocations
    //@    message.spec_encode().len() + old(self).back_buf.capacity + 8 <= usize::MAX,
    //@  ensures
    //@    final(self).wf(),                                                                              // [wf-and-ceiling]
    //@    final(self).front_buf == old(self).front_buf && final(self).max_buffer_size == old(self).max_buffer_size, // [frame]
    //@    r is Ok ==> final(self).back_buf.view() =~= old(self).back_buf.view()
    //@        + spec_le_encode((message.spec_encode().len() + 8) as usize) + message.spec_encode(),      // [appends-exactly-one-frame]
    //@    r is Err ==> final(self).back_buf.view() =~= old(self).back_buf.view(),                        // [err-keeps-bytes]
    //@    r is Err ==> (r matches Err(ChannelError::MessageTooLarge { .. })
    //@        && old(self).back_buf.view().len() + message.spec_encode().len() + 8 > old(self).max_buffer_size), // [refused-only-if-cannot-fit]
    //@  loop 0
    //@    invariant
    //@      new_length >= capacity_before,
    //@      needed <= self.max_buffer_size,
    //@      self.max_buffer_size <= isize::MAX as usize,
    //@    decreases (if new_length < needed { needed - new_length } else { 0 }),
    //@  before "let delimiter = payload_len.to_le_bytes();"
    //@    proof { axiom_le_bytes(payload_len); }
    //@end

    //@fn command/src/channel.rs Channel::try_shrink_front_buf
    //@  requires
    //@    old(self).wf(),
    //@  ensures
    //@    final(self).wf(),                                                                              // [wf-and-ceiling]
    //@    final(self).front_buf.view() =~= old(self).front_buf.view(),                                   // [pending-bytes-preserved]
    //@    final(self).front_buf.capacity <= old(self).front_buf.capacity,                                // [never-grows]
    //@    final(self).back_buf == old(self).back_buf && final(self).max_buffer_size == old(self).max_buffer_size && final(self).sock == old(self).sock, // [frame]
    //@end

    //@fn command/src/channel.rs Channel::try_shrink_back_buf
    //@  requires
    //@    old(self).wf(),
    //@  ensures
    //@    final(self).wf(),                                                                              // [wf-and-ceiling]
    //@    final(self).back_buf.view() =~= old(self).back_buf.view(),                                     // [pending-bytes-preserved]
    //@    final(self).back_buf.capacity <= old(self).back_buf.capacity,                                  // [never-grows]
    //@    final(self).front_buf == old(self).front_buf && final(self).max_buffer_size == old(self).max_buffer_size && final(self).sock == old(self).sock, // [frame]
    //@end

    //@fn command/src/channel.rs Channel::readable
    //@  ret r
    //@  subst "(self.interest & self.readiness)" => "verif_ready_and(self.interest, self.readiness)"
    //@  requires
    //@    old(self).wf(),
    //@  ensures
    //@    final(self).wf(),                                                                              // [wf-and-ceiling]
    //@    final(self).back_buf == old(self).back_buf && final(self).max_buffer_size == old(self).max_buffer_size, // [frame]
    //@    final(self).sock.sent() == old(self).sock.sent(),                                              // [nothing-sent]
    //@    old(self).sock.received().len() <= final(self).sock.received().len()
    //@      && final(self).front_buf.view() =~= old(self).front_buf.view()
    //@         + final(self).sock.received().subrange(old(self).sock.received().len() as int, final(self).sock.received().len() as int), // [received-bytes-appended-intact-in-order]
    //@    r matches Ok(n) ==> n == final(self).sock.received().len() - old(self).sock.received().len(), // [count]
    //@  loop 0
    //@    invariant
    //@      self.wf(),
    //@      self.back_buf == old(self).back_buf && self.max_buffer_size == old(self).max_buffer_size,
    //@      self.sock.sent() == old(self).sock.sent(),
    //@      old(self).sock.received().len() <= self.sock.received().len(),
    //@      old(self).sock.received() =~= self.sock.received().subrange(0, old(self).sock.received().len() as int),
    //@      self.front_buf.view() =~= old(self).front_buf.view()
    //@         + self.sock.received().subrange(old(self).sock.received().len() as int, self.sock.received().len() as int),
    //@      count == self.sock.received().len() - old(self).sock.received().len(),
    //@    decreases self.max_buffer_size - self.front_buf.view().len(),
    //@  before "match self.sock.read(self.front_buf.space()) {" #1
    //@    let ghost verif_v0 = self.front_buf.view(); let ghost verif_r0 = self.sock.received(); let ghost verif_end = self.front_buf.end;
    //@  before "count += bytes_read;"
    //@    proof {
    //@      assert(self.front_buf.view() =~= verif_v0);
    //@      assert(self.front_buf.spare().subrange(0, bytes_read as int)
    //@             =~= self.sock.received().subrange(verif_r0.len() as int, self.sock.received().len() as int));
    //@    }
    //@end

    //@fn command/src/channel.rs Channel::writable
    //@  ret r
    //@  subst "(self.interest & self.readiness)" => "verif_ready_and(self.interest, self.readiness)"
    //@  requires
    //@    old(self).wf(),
    //@  ensures
    //@    final(self).wf(),                                                                              // [wf-and-ceiling]
    //@    final(self).front_buf == old(self).front_buf && final(self).max_buffer_size == old(self).max_buffer_size, // [frame]
    //@    final(self).sock.received() == old(self).sock.received(),                                      // [nothing-read]
    //@    old(self).sock.sent().len() <= final(self).sock.sent().len()
    //@      && old(self).back_buf.view() =~=
    //@         final(self).sock.sent().subrange(old(self).sock.sent().len() as int, final(self).sock.sent().len() as int)
    //@         + final(self).back_buf.view(),                                                            // [bytes-leave-only-to-socket-in-order]
    //@    r matches Ok(n) ==> n == final(self).sock.sent().len() - old(self).sock.sent().len(),         // [count]
    //@  loop 0
    //@    invariant
    //@      self.wf(),
    //@      self.front_buf == old(self).front_buf && self.max_buffer_size == old(self).max_buffer_size,
    //@      self.sock.received() == old(self).sock.received(),
    //@      old(self).sock.sent().len() <= self.sock.sent().len(),
    //@      old(self).sock.sent() =~= self.sock.sent().subrange(0, old(self).sock.sent().len() as int),
    //@      old(self).back_buf.view() =~=
    //@         self.sock.sent().subrange(old(self).sock.sent().len() as int, self.sock.sent().len() as int)
    //@         + self.back_buf.view(),
    //@      count == self.sock.sent().len() - old(self).sock.sent().len(),
    //@      count + self.back_buf.view().len() == old(self).back_buf.view().len(),
    //@      old(self).wf(),
    //@    decreases self.back_buf.view().len(),
    //@end
}

#[verifier::external_body]
pub fn verif_map_decode_err<Rx>(r: Result<Rx, DecodeError>) -> (o: Result<Rx, ChannelError>)
    ensures
        r matches Ok(m) ==> o == Ok::<Rx, ChannelError>(m),
        r is Err ==> o matches Err(ChannelError::InvalidProtobufMessage(_)),
{ unimplemented!() }

} // verus!
fn main() {}
