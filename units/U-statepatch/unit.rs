// Unit U-statepatch — command/src/state.rs listener patch / activate commands (serves C07)
// Property sentence -> contract: "A configuration command that is answered with an error leaves the
// configuration exactly as it was ... An accepted command changes only the objects it names."
//   r is Err  ==>  every configuration map of final(self) has the same mathematical view as in old(self)
//   r is Ok   ==>  every map other than the named listener map is unchanged, and inside it only the named key changed
// Hand-written: map shims (ASSUMED std contracts), opaque dependency types, spec fns. Real text: //@item, //@fn.
use vstd::prelude::*;
use std::marker::PhantomData;
verus! {

// ---------------------------------------------------------------- std collection shims (ASSUMED contracts)
// BTreeMap / HashMap as a mathematical map; get_mut returns a reference to the stored value and changes
// nothing else (std documentation).
#[verifier::external_body]
#[verifier::reject_recursive_types(K)]
#[verifier::reject_recursive_types(V)]
pub struct BTreeMap<K, V> { _p: PhantomData<(K, V)> }
impl<K, V> BTreeMap<K, V> {
    pub uninterp spec fn view(&self) -> Map<K, V>;
    #[verifier::external_body]
    pub fn insert(&mut self, k: K, v: V) -> (r: Option<V>)
        ensures final(self)@ == old(self)@.insert(k, v),
    { unimplemented!() }
    #[verifier::external_body]
    pub fn verif_remove_str(&mut self, k: &str) -> (r: Option<V>) where K: VerifStrKey
        ensures
            r is Some <==> old(self)@.contains_key(K::spec_from_str(k)),
            final(self)@ == old(self)@.remove(K::spec_from_str(k)),
    { unimplemented!() }
    #[verifier::external_body]
    pub fn verif_get_mut_str(&mut self, k: &str) -> (r: Option<&mut V>) where K: VerifStrKey
        ensures
            match r {
                Some(v) => old(self)@.contains_key(K::spec_from_str(k)) && *v == old(self)@[K::spec_from_str(k)]
                           && final(self)@ == old(self)@.insert(K::spec_from_str(k), *final(v)),
                None => !old(self)@.contains_key(K::spec_from_str(k)) && final(self)@ == old(self)@,
            },
    { unimplemented!() }
    #[verifier::external_body]
    pub fn remove(&mut self, k: &K) -> (r: Option<V>)
        ensures
            r is Some <==> old(self)@.contains_key(*k),
            final(self)@ == old(self)@.remove(*k),
    { unimplemented!() }
    #[verifier::external_body]
    pub fn len(&self) -> (r: usize) ensures r == self@.len(), self@.dom().finite() { unimplemented!() }
    #[verifier::external_body]
    pub fn contains_key(&self, k: &K) -> (r: bool) ensures r == self@.contains_key(*k) { unimplemented!() }
    #[verifier::external_body]
    pub fn verif_contains_key_str(&self, k: &str) -> (r: bool) where K: VerifStrKey ensures r == self@.contains_key(K::spec_from_str(k)) { unimplemented!() }
    #[verifier::external_body]
    pub fn get_mut(&mut self, k: &K) -> (r: Option<&mut V>)
        ensures
            match r {
                Some(v) => old(self)@.contains_key(*k) && *v == old(self)@[*k]
                           && final(self)@ == old(self)@.insert(*k, *final(v)),
                None => !old(self)@.contains_key(*k) && final(self)@ == old(self)@,
            },
    { unimplemented!() }
}
// lookups by `&str` in a map keyed by String (Borrow<str>): the key a &str designates
pub trait VerifStrKey: Sized { spec fn spec_from_str(s: &str) -> Self; }
impl VerifStrKey for String { uninterp spec fn spec_from_str(s: &str) -> String; }
#[verifier::external_body]
pub fn verif_str_to_owned(s: &str) -> (r: String) ensures r == String::spec_from_str(s) { unimplemented!() }
#[verifier::external_body]
#[verifier::reject_recursive_types(K)]
#[verifier::reject_recursive_types(V)]
pub struct HashMap<K, V> { _p: PhantomData<(K, V)> }
impl<K, V> HashMap<K, V> {
    pub uninterp spec fn view(&self) -> Map<K, V>;
    pub uninterp spec fn spec_default() -> Self;
    #[verifier::external_body]
    pub proof fn axiom_default_is_empty()
        ensures Self::spec_default()@ == Map::<K, V>::empty()
    {}
    #[verifier::external_body]
    pub fn get_mut(&mut self, k: &K) -> (r: Option<&mut V>)
        ensures
            match r {
                Some(v) => old(self)@.contains_key(*k) && *v == old(self)@[*k]
                           && final(self)@ == old(self)@.insert(*k, *final(v)),
                None => !old(self)@.contains_key(*k) && final(self)@ == old(self)@,
            },
    { unimplemented!() }
    #[verifier::external_body]
    pub fn get(&self, k: &K) -> (r: Option<&V>)
        ensures
            match r {
                Some(v) => self@.contains_key(*k) && *v == self@[*k],
                None => !self@.contains_key(*k),
            },
    { unimplemented!() }
    #[verifier::external_body]
    pub fn contains_key(&self, k: &K) -> (r: bool)
        ensures r == self@.contains_key(*k),
    { unimplemented!() }
    #[verifier::external_body]
    pub fn is_empty(&self) -> (r: bool)
        ensures r == (self@.len() == 0), self@.dom().finite(),
    { unimplemented!() }
    #[verifier::external_body]
    pub fn len(&self) -> (r: usize)
        ensures r == self@.len(), self@.dom().finite(),
    { unimplemented!() }
    #[verifier::external_body]
    pub fn insert(&mut self, k: K, v: V) -> (r: Option<V>)
        ensures final(self)@ == old(self)@.insert(k, v),
    { unimplemented!() }
    #[verifier::external_body]
    pub fn remove(&mut self, k: &K) -> (r: Option<V>)
        ensures r is Some <==> old(self)@.contains_key(*k), final(self)@ == old(self)@.remove(*k),
    { unimplemented!() }
}
// `map.entry(k).or_default()` (std: returns the stored value, inserting V::default() first when absent)
impl<K, V2> HashMap<K, HashMap<Fingerprint, V2>> {
    #[verifier::external_body]
    pub fn verif_entry_or_default(&mut self, k: K) -> (r: &mut HashMap<Fingerprint, V2>)
        ensures
            *r == (if old(self)@.contains_key(k) { old(self)@[k] } else { HashMap::<Fingerprint, V2>::spec_default() }),
            final(self)@ == old(self)@.insert(k, *final(r)),
    { unimplemented!() }
}

// ---------------------------------------------------------------- opaque dependency / prost types
#[verifier::external_body]
#[derive(Clone, Copy)]
pub struct SocketAddr { _p: () }
#[verifier::external_body]
#[derive(Clone, Copy)]
pub struct SocketAddress { _p: () }
#[verifier::external_body] pub struct UdpClusterConfig { _p: () }
#[verifier::external_body] pub struct HealthCheckConfig { _p: () }
impl HealthCheckConfig { #[verifier::external_body] pub fn to_owned(&self) -> (r: Self) ensures r == *self { unimplemented!() } }
#[verifier::external_body] pub struct Backend { _p: () }
#[verifier::external_body] pub struct HttpFrontend { _p: () }
#[verifier::external_body] pub struct TcpFrontend { _p: () }
#[verifier::external_body] pub struct UdpFrontend { _p: () }
// CertificateAndKey / Fingerprint: opaque; PEM / X.509 parsing is outside Verus. The three methods are pure in
// the state (they only see the certificate), which is all a frame condition needs.
#[verifier::external_body] pub struct CertificateAndKey { _p: () }
impl Clone for CertificateAndKey { #[verifier::external_body] fn clone(&self) -> (r: Self) ensures r == *self { unimplemented!() } }
impl CertificateAndKey {
    #[verifier::external_body]
    pub fn fingerprint(&self) -> Result<Fingerprint, CertificateError> { unimplemented!() }
    #[verifier::external_body]
    pub fn apply_overriding_names(&mut self) -> Result<(), CertificateError> { unimplemented!() }
}
#[verifier::external_body] pub struct Fingerprint { _p: () }
impl Clone for Fingerprint { #[verifier::external_body] fn clone(&self) -> (r: Self) ensures r == *self { unimplemented!() } }
// `Fingerprint(hex::decode(&s).map_err(|e| StateError::RemoveCertificate(e.to_string()))?)`
#[verifier::external_body]
pub fn verif_hex_fingerprint(s: &String) -> Result<Fingerprint, StateError> { unimplemented!() }
// `Fingerprint(calculate_fingerprint(cert.certificate.as_bytes()).map_err(|e| StateError::ReplaceCertificate(e.to_string()))?)`
#[verifier::external_body]
pub fn verif_calc_fingerprint(c: &CertificateAndKey) -> Result<Fingerprint, StateError> { unimplemented!() }
// `map.get_mut(k).map(|inner| inner.insert(f, c))` (closure with a `&mut` parameter is outside Verus): inserts into the
// inner map when the outer key exists, nothing otherwise (std semantics of Option::map + HashMap::insert)
#[verifier::external_body]
pub fn verif_insert_if_present(m: &mut HashMap<SocketAddr, HashMap<Fingerprint, CertificateAndKey>>, k: &SocketAddr, e: (Fingerprint, CertificateAndKey)) -> (r: Option<Option<CertificateAndKey>>)
    ensures
        !old(m)@.contains_key(*k) ==> final(m)@ == old(m)@,
        old(m)@.contains_key(*k) ==> final(m)@.dom() =~= old(m)@.dom()
            && (forall|j: SocketAddr| j != *k && old(m)@.contains_key(j) ==> #[trigger] final(m)@[j] == old(m)@[j])
            && final(m)@[*k]@ == old(m)@[*k]@.insert(e.0, e.1),
{ unimplemented!() }
#[verifier::external_body]
pub fn verif_fp_eq(a: &Fingerprint, b: &Fingerprint) -> (r: bool) ensures r == (*a == *b) { unimplemented!() }
#[verifier::external_body]
pub fn verif_socketaddress_string(a: &SocketAddress) -> String { unimplemented!() }
#[verifier::external_body]
pub fn verif_unlikely_msg() -> String { unimplemented!() }
#[verifier::external_body]
pub fn verif_failed_insert_msg(a: &SocketAddress) -> String { unimplemented!() }
#[verifier::external_body] pub struct UnknownEnumValue { _p: () }
#[verifier::external_body] pub struct CertificateError { _p: () }
impl CertificateError { #[verifier::external_body] pub fn to_string(&self) -> String { unimplemented!() } }
#[verifier::external_body] pub struct IoError { _p: () }
#[verifier::external_body] pub struct CustomHttpAnswers { _p: () }
pub enum ObjectKind { Backend, Certificate, Cluster, HttpFrontend, HttpsFrontend, HttpListener, HttpsListener, Listener, TcpCluster, TcpListener, TcpFrontend, UdpListener, UdpFrontend }

// `patch.address.into()` : SocketAddress -> SocketAddr (impl From in command/src/request.rs; a pure function)
pub uninterp spec fn spec_to_sockaddr(a: SocketAddress) -> SocketAddr;
#[verifier::external_body]
pub fn verif_to_sockaddr(a: SocketAddress) -> (r: SocketAddr) ensures r == spec_to_sockaddr(a) { unimplemented!() }
// `<String as ToOwned>::to_owned` (ASSUMED: yields an equal string)
#[verifier::external_body]
pub fn verif_string_clone(s: &String) -> (r: String) ensures r@ == s@ { s.clone() }
// `address.to_string()` inside the NotFound error (Display; no side effect on the state)
#[verifier::external_body]
pub fn verif_addr_string(a: &SocketAddr) -> String { unimplemented!() }

// validators: pure functions of the patch (bodies use local macro_rules!/string scans, outside Verus);
// an arbitrary Result is a sound abstraction for a frame condition.
#[verifier::external_body]
pub fn validate_h2_flood_knobs_http(patch: &UpdateHttpListenerConfig) -> Result<(), StateError> { unimplemented!() }
#[verifier::external_body]
pub fn validate_h2_flood_knobs_https(patch: &UpdateHttpsListenerConfig) -> Result<(), StateError> { unimplemented!() }
#[verifier::external_body]
pub fn validate_health_check_config(c: &HealthCheckConfig) -> Result<(), &'static str> { unimplemented!() }
// derived Clone of prost messages (ASSUMED: yields an equal value)
#[verifier::external_body]
pub fn verif_cluster_clone(c: &Cluster) -> (r: Cluster) ensures r == *c { unimplemented!() }
#[verifier::external_body]
pub fn verif_string_clone2(s: &String) -> (r: String) ensures r == *s { unimplemented!() }
#[verifier::external_body]
pub fn validate_alpn_protocols(values: &[String]) -> Result<(), StateError> { unimplemented!() }
#[verifier::external_body]
pub fn validate_sozu_id_header(value: &str) -> Result<(), StateError> { unimplemented!() }
// merge_answer_templates: body is a `for` over BTreeMap::iter (outside Verus). ASSUMED contract = its doc
// comment: every non-empty body of the patch is inserted under its code; other codes keep their value.
#[verifier::external_body]
pub fn merge_answer_templates(target: &mut BTreeMap<String, String>, patch: &BTreeMap<String, String>)
    ensures
        forall|c: String| #[trigger] patch@.contains_key(c) && patch@[c]@.len() > 0 ==> final(target)@.contains_key(c) && final(target)@[c] == patch@[c],
        forall|c: String| !(#[trigger] patch@.contains_key(c) && patch@[c]@.len() > 0) ==> (final(target)@.contains_key(c) == old(target)@.contains_key(c)
            && (old(target)@.contains_key(c) ==> final(target)@[c] == old(target)@[c])),
{ unimplemented!() }
// merge_custom_http_answers touches only the Option it is handed
#[verifier::external_body]
pub fn merge_custom_http_answers(target: &mut Option<CustomHttpAnswers>, patch: &CustomHttpAnswers) { unimplemented!() }

//@global-subst "std::io::Error" => "IoError"
//@global-subst "::core::option::Option" => "Option"
//@item command/src/state.rs type ClusterId
//@item command/src/state.rs enum StateError
//@item command/src/state.rs struct ConfigState
//@global-subst "::prost::alloc::string::String" => "String"
//@global-subst "::prost::alloc::vec::Vec" => "Vec"
//@global-subst "::prost::alloc::collections::BTreeMap" => "BTreeMap"
//@item command/src/proto/command.rs struct HttpListenerConfig
//@item command/src/proto/command.rs struct HttpsListenerConfig
//@item command/src/proto/command.rs struct UpdateHttpListenerConfig
//@item command/src/proto/command.rs struct UpdateHttpsListenerConfig
//@item command/src/proto/command.rs struct AlpnProtocols
//@item command/src/proto/command.rs struct HstsConfig
//@item command/src/proto/command.rs struct TcpListenerConfig
//@item command/src/proto/command.rs struct AddCertificate
// #[derive(Clone)] of the prost struct (ASSUMED: a derived clone is an equal value)
impl Clone for AddCertificate { #[verifier::external_body] fn clone(&self) -> (r: Self) ensures r == *self { unimplemented!() } }
//@item command/src/proto/command.rs struct RemoveCertificate
//@item command/src/proto/command.rs struct ActivateListener
//@item command/src/proto/command.rs struct DeactivateListener
//@item command/src/proto/command.rs enum ListenerType
// prost-generated `impl TryFrom<i32> for ListenerType` (pure)
impl ListenerType {
    #[verifier::external_body]
    pub fn try_from(v: i32) -> Result<ListenerType, UnknownEnumValue> { unimplemented!() }
}
//@item command/src/proto/command.rs struct ReplaceCertificate
//@item command/src/proto/command.rs struct UdpListenerConfig
//@item command/src/proto/command.rs struct UpdateTcpListenerConfig
//@item command/src/proto/command.rs struct UpdateUdpListenerConfig
//@item command/src/proto/command.rs struct Cluster
//@item command/src/proto/command.rs struct SetHealthCheck
//@item command/src/proto/command.rs struct RemoveListener

// The configuration as mathematical maps (request_counts is a census of received requests, not
// configuration: `dispatch` bumps it for rejected requests too; excluded by definition, see DESIGN C07).
pub open spec fn same_config(a: ConfigState, b: ConfigState) -> bool {
    &&& a.clusters@ == b.clusters@
    &&& a.backends@ == b.backends@
    &&& a.http_listeners@ == b.http_listeners@
    &&& a.https_listeners@ == b.https_listeners@
    &&& a.tcp_listeners@ == b.tcp_listeners@
    &&& a.udp_listeners@ == b.udp_listeners@
    &&& a.http_fronts@ == b.http_fronts@
    &&& a.https_fronts@ == b.https_fronts@
    &&& a.tcp_fronts@ == b.tcp_fronts@
    &&& a.udp_fronts@ == b.udp_fronts@
    &&& certs_view(a.certificates) =~~= certs_view(b.certificates)
}
// certificates as address -> (fingerprint -> certificate); an orphan empty bucket is a difference
pub open spec fn certs_view(m: HashMap<SocketAddr, HashMap<Fingerprint, CertificateAndKey>>) -> Map<SocketAddr, Map<Fingerprint, CertificateAndKey>> {
    m@.map_values(|inner: HashMap<Fingerprint, CertificateAndKey>| inner@)
}
// "removes at most the object it names": every other key keeps its presence and value
pub open spec fn only_key_removed<K, V>(a: Map<K, V>, b: Map<K, V>, k: K) -> bool {
    b == a || b == a.remove(k)
}
// "changes only the object it names": same domain, every other key maps to the same value
pub open spec fn only_key_changed<K, V>(a: Map<K, V>, b: Map<K, V>, k: K) -> bool {
    &&& a.dom() =~= b.dom()
    &&& forall|j: K| j != k && a.contains_key(j) ==> a[j] == b[j]
}

impl ConfigState {

    //@fn command/src/state.rs ConfigState::update_tcp_listener
    //@  ret r
    //@  subst "patch.address.into()" => "verif_to_sockaddr(patch.address)"
    //@  subst "address.to_string()" => "verif_addr_string(&address)"
    //@  ensures
    //@    r is Err ==> same_config(*old(self), *final(self)),                                         // [rejected-leaves-no-trace]
    //@    r is Ok ==> ({
    //@        let k = spec_to_sockaddr(patch.address);
    //@        &&& old(self).tcp_listeners@.contains_key(k)
    //@        &&& only_key_changed(old(self).tcp_listeners@, final(self).tcp_listeners@, k)
    //@        &&& same_config(ConfigState { tcp_listeners: final(self).tcp_listeners, ..*old(self) }, *final(self)) }), // [accepted-changes-only-named-listener]
    //@    r is Ok ==> ({
    //@        let k = spec_to_sockaddr(patch.address);
    //@        let o = old(self).tcp_listeners@[k]; let n = final(self).tcp_listeners@[k];
    //@        &&& n.address == o.address
    //@        &&& n.public_address == (if patch.public_address is Some { patch.public_address } else { o.public_address })
    //@        &&& n.expect_proxy == (if let Some(v) = patch.expect_proxy { v } else { o.expect_proxy })
    //@        &&& n.front_timeout == (if let Some(v) = patch.front_timeout { v } else { o.front_timeout })
    //@        &&& n.back_timeout == (if let Some(v) = patch.back_timeout { v } else { o.back_timeout })
    //@        &&& n.connect_timeout == (if let Some(v) = patch.connect_timeout { v } else { o.connect_timeout })
    //@        &&& n.active == o.active
    //@        &&& true }),                                                                              // [some-written-none-preserved]
    //@end

    //@fn command/src/state.rs ConfigState::update_udp_listener
    //@  ret r
    //@  subst "patch.address.into()" => "verif_to_sockaddr(patch.address)"
    //@  subst "address.to_string()" => "verif_addr_string(&address)"
    //@  ensures
    //@    r is Err ==> same_config(*old(self), *final(self)),                                         // [rejected-leaves-no-trace]
    //@    r is Ok ==> ({
    //@        let k = spec_to_sockaddr(patch.address);
    //@        &&& old(self).udp_listeners@.contains_key(k)
    //@        &&& only_key_changed(old(self).udp_listeners@, final(self).udp_listeners@, k)
    //@        &&& same_config(ConfigState { udp_listeners: final(self).udp_listeners, ..*old(self) }, *final(self)) }), // [accepted-changes-only-named-listener]
    //@    r is Ok ==> ({
    //@        let k = spec_to_sockaddr(patch.address);
    //@        let o = old(self).udp_listeners@[k]; let n = final(self).udp_listeners@[k];
    //@        &&& n.address == o.address
    //@        &&& n.public_address == (if patch.public_address is Some { patch.public_address } else { o.public_address })
    //@        &&& n.front_timeout == (if let Some(v) = patch.front_timeout { v } else { o.front_timeout })
    //@        &&& n.back_timeout == (if let Some(v) = patch.back_timeout { v } else { o.back_timeout })
    //@        &&& n.max_rx_datagram_size == (if let Some(v) = patch.max_rx_datagram_size { v } else { o.max_rx_datagram_size })
    //@        &&& n.max_flows == (if let Some(v) = patch.max_flows { v } else { o.max_flows })
    //@        &&& n.active == o.active
    //@        &&& true }),                                                                              // [some-written-none-preserved]
    //@end

    //@fn command/src/state.rs ConfigState::update_http_listener
    //@  ret r
    //@  subst "patch.address.into()" => "verif_to_sockaddr(patch.address)"
    //@  subst "address.to_string()" => "verif_addr_string(&address)"
    //@  substall "v.to_owned()" => "verif_string_clone(v)"
    // NOTE: the field-by-field functional postcondition ("Some written, None preserved") that tcp/udp carry is NOT
    // stated here: with 32 sequential `if let` assignments through one `&mut` Verus' query exceeds rlimit even for a
    // single field (measured: 30M rlimit units, path explosion). Only the frame conditions of C07 are claimed.
    //@  ensures
    //@    r is Err ==> same_config(*old(self), *final(self)),                                         // [rejected-leaves-no-trace]
    //@    r is Ok ==> ({
    //@        let k = spec_to_sockaddr(patch.address);
    //@        &&& old(self).http_listeners@.contains_key(k)
    //@        &&& only_key_changed(old(self).http_listeners@, final(self).http_listeners@, k)
    //@        &&& same_config(ConfigState { http_listeners: final(self).http_listeners, ..*old(self) }, *final(self)) }), // [accepted-changes-only-named-listener]
    //@end

    //@fn command/src/state.rs ConfigState::update_https_listener
    //@  ret r
    //@  subst "patch.address.into()" => "verif_to_sockaddr(patch.address)"
    //@  subst "address.to_string()" => "verif_addr_string(&address)"
    //@  substall "v.to_owned()" => "verif_string_clone(v)"
    // NOTE: the field-by-field functional postcondition ("Some written, None preserved") that tcp/udp carry is NOT
    // stated here: with 32 sequential `if let` assignments through one `&mut` Verus' query exceeds rlimit even for a
    // single field (measured: 30M rlimit units, path explosion). Only the frame conditions of C07 are claimed.
    //@  ensures
    //@    r is Err ==> same_config(*old(self), *final(self)),                                         // [rejected-leaves-no-trace]
    //@    r is Ok ==> ({
    //@        let k = spec_to_sockaddr(patch.address);
    //@        &&& old(self).https_listeners@.contains_key(k)
    //@        &&& only_key_changed(old(self).https_listeners@, final(self).https_listeners@, k)
    //@        &&& same_config(ConfigState { https_listeners: final(self).https_listeners, ..*old(self) }, *final(self)) }), // [accepted-changes-only-named-listener]
    //@end

    //@fn command/src/state.rs ConfigState::add_certificate
    //@  ret r
    //@  subst "self.certificates.entry(add.address.into()).or_default()" => "self.certificates.verif_entry_or_default(verif_to_sockaddr(add.address))"
    //@  ensures
    //@    r is Err ==> same_config(*old(self), *final(self)),                                         // [rejected-leaves-no-trace]
    //@    r is Ok ==> ({
    //@        let k = spec_to_sockaddr(add.address);
    //@        let ov = certs_view(old(self).certificates); let nv = certs_view(final(self).certificates);
    //@        &&& same_config(ConfigState { certificates: final(self).certificates, ..*old(self) }, *final(self))
    //@        &&& nv.contains_key(k)
    //@        &&& forall|j: SocketAddr| j != k ==> (ov.contains_key(j) == nv.contains_key(j) && (ov.contains_key(j) ==> ov[j] == nv[j]))
    //@        &&& forall|f: Fingerprint| ov.contains_key(k) && #[trigger] ov[k].contains_key(f) ==> nv[k].contains_key(f) && nv[k][f] == ov[k][f] }), // [accepted-changes-only-named-address-and-keeps-its-other-certificates]
    //@  before "if entry.contains_key(&fingerprint) {"
    //@    proof { HashMap::<Fingerprint, CertificateAndKey>::axiom_default_is_empty(); }
    //@end

    //@fn command/src/state.rs ConfigState::remove_certificate
    //@  ret r
    //@  subst "Fingerprint(\n            hex::decode(&remove.fingerprint)\n                .map_err(|decode_error| StateError::RemoveCertificate(decode_error.to_string()))?,\n        )" => "verif_hex_fingerprint(&remove.fingerprint)?"
    //@  subst "let address: SocketAddr = remove.address.into();" => "let address: SocketAddr = verif_to_sockaddr(remove.address);"
    //@  ensures
    //@    r is Err ==> same_config(*old(self), *final(self)),                                         // [rejected-leaves-no-trace]
    //@    r is Ok ==> ({
    //@        let k = spec_to_sockaddr(remove.address);
    //@        let ov = certs_view(old(self).certificates); let nv = certs_view(final(self).certificates);
    //@        &&& same_config(ConfigState { certificates: final(self).certificates, ..*old(self) }, *final(self))
    //@        &&& forall|j: SocketAddr| j != k ==> (ov.contains_key(j) == nv.contains_key(j) && (ov.contains_key(j) ==> ov[j] == nv[j]))
    //@        // the named address only loses certificates; it keeps an entry only while it still has one
    //@        &&& (nv.contains_key(k) ==> ov.contains_key(k) && nv[k].submap_of(ov[k]) && nv[k].len() > 0)
    //@        &&& (!ov.contains_key(k) ==> !nv.contains_key(k)) }),                                         // [accepted-changes-only-named-address]
    //@end

    //@fn command/src/state.rs ConfigState::replace_certificate
    //@  ret r
    //@  subst "replace.address.into()" => "verif_to_sockaddr(replace.address)"
    //@  subst "Fingerprint(\n            hex::decode(&replace.old_fingerprint)\n                .map_err(|decode_error| StateError::RemoveCertificate(decode_error.to_string()))?,\n        )" => "verif_hex_fingerprint(&replace.old_fingerprint)?"
    //@  subst "Fingerprint(\n            calculate_fingerprint(replace.new_certificate.certificate.as_bytes()).map_err(\n                |fingerprint_err| StateError::ReplaceCertificate(fingerprint_err.to_string()),\n            )?,\n        )" => "verif_calc_fingerprint(&replace.new_certificate)?"
    //@  subst "replace.address.to_string()" => "verif_socketaddress_string(&replace.address)"
    //@  subst "self.certificates\n            .get_mut(&replace_address)\n            .map(|certs| certs.insert(" => "verif_insert_if_present(&mut self.certificates, &replace_address, ("
    //@  subst "\"Unlikely error. This entry in the certificate hashmap should be present\"\n                    .to_string()," => "verif_unlikely_msg(),"
    //@  subst "format!(\n                \"Failed to insert the new certificate for address {}\",\n                replace.address\n            )" => "verif_failed_insert_msg(&replace.address)"
    //@  drop_dassert 0 closure-based is_some_and(..) is outside Verus
    //@  drop_dassert 1 closure-based is_none_or(..) is outside Verus
    //@  ensures
    //@    r is Err ==> same_config(*old(self), *final(self)),                                         // [rejected-leaves-no-trace]
    //@    r is Ok ==> ({
    //@        let k = spec_to_sockaddr(replace.address);
    //@        let ov = certs_view(old(self).certificates); let nv = certs_view(final(self).certificates);
    //@        &&& same_config(ConfigState { certificates: final(self).certificates, ..*old(self) }, *final(self))
    //@        &&& ov.contains_key(k) && nv.contains_key(k)
    //@        &&& forall|j: SocketAddr| j != k ==> (ov.contains_key(j) == nv.contains_key(j) && (ov.contains_key(j) ==> ov[j] == nv[j])) }), // [accepted-changes-only-named-address]
    //@end

    //@fn command/src/state.rs ConfigState::activate_listener
    //@  ret r
    //@  substall "&activate.address.into()" => "&verif_to_sockaddr(activate.address)"
    //@  substall "activate.address.to_string()" => "verif_socketaddress_string(&activate.address)"
    //@  ensures
    //@    r is Err ==> same_config(*old(self), *final(self)),                                         // [rejected-leaves-no-trace]
    //@    r is Ok ==> ({
    //@        let k = spec_to_sockaddr(activate.address);
    //@        &&& only_key_changed(old(self).http_listeners@, final(self).http_listeners@, k)
    //@        &&& only_key_changed(old(self).https_listeners@, final(self).https_listeners@, k)
    //@        &&& only_key_changed(old(self).tcp_listeners@, final(self).tcp_listeners@, k)
    //@        &&& only_key_changed(old(self).udp_listeners@, final(self).udp_listeners@, k)
    //@        &&& same_config(ConfigState { http_listeners: final(self).http_listeners, https_listeners: final(self).https_listeners,
    //@               tcp_listeners: final(self).tcp_listeners, udp_listeners: final(self).udp_listeners, ..*old(self) }, *final(self)) }), // [accepted-changes-only-named-listener]
    //@end

    //@fn command/src/state.rs ConfigState::deactivate_listener
    //@  ret r
    //@  substall "&deactivate.address.into()" => "&verif_to_sockaddr(deactivate.address)"
    //@  substall "deactivate.address.to_string()" => "verif_socketaddress_string(&deactivate.address)"
    //@  ensures
    //@    r is Err ==> same_config(*old(self), *final(self)),                                         // [rejected-leaves-no-trace]
    //@    r is Ok ==> ({
    //@        let k = spec_to_sockaddr(deactivate.address);
    //@        &&& only_key_changed(old(self).http_listeners@, final(self).http_listeners@, k)
    //@        &&& only_key_changed(old(self).https_listeners@, final(self).https_listeners@, k)
    //@        &&& only_key_changed(old(self).tcp_listeners@, final(self).tcp_listeners@, k)
    //@        &&& only_key_changed(old(self).udp_listeners@, final(self).udp_listeners@, k)
    //@        &&& same_config(ConfigState { http_listeners: final(self).http_listeners, https_listeners: final(self).https_listeners,
    //@               tcp_listeners: final(self).tcp_listeners, udp_listeners: final(self).udp_listeners, ..*old(self) }, *final(self)) }), // [accepted-changes-only-named-listener]
    //@end

    //@fn command/src/state.rs ConfigState::remove_cluster
    //@  ret r
    //@  before "Err(StateError::NotFound {"
    //@    assert(self.clusters@ =~= old(self).clusters@);
    //@  substall "self.clusters.remove(cluster_id)" => "self.clusters.verif_remove_str(cluster_id)"
    //@  substall "self.clusters.contains_key(cluster_id)" => "self.clusters.verif_contains_key_str(cluster_id)"
    //@  subst "cluster_id.to_owned()" => "verif_str_to_owned(cluster_id)"
    //@  ensures
    //@    r is Err ==> same_config(*old(self), *final(self)),                                         // [rejected-leaves-no-trace]
    //@    r is Ok ==> ({
    //@        let k = String::spec_from_str(cluster_id);
    //@        &&& old(self).clusters@.contains_key(k) && final(self).clusters@ == old(self).clusters@.remove(k)
    //@        &&& same_config(ConfigState { clusters: final(self).clusters, ..*old(self) }, *final(self)) }), // [accepted-removes-only-the-named-cluster]
    //@end

    //@fn command/src/state.rs ConfigState::remove_health_check
    //@  ret r
    //@  subst "self.clusters.get_mut(cluster_id)" => "self.clusters.verif_get_mut_str(cluster_id)"
    //@  subst "cluster_id.to_owned()" => "verif_str_to_owned(cluster_id)"
    //@  ensures
    //@    r is Err ==> same_config(*old(self), *final(self)),                                         // [rejected-leaves-no-trace]
    //@    r is Ok ==> only_key_changed(old(self).clusters@, final(self).clusters@, String::spec_from_str(cluster_id))
    //@        && same_config(ConfigState { clusters: final(self).clusters, ..*old(self) }, *final(self)), // [accepted-changes-only-the-named-cluster]
    //@end

    //@fn command/src/state.rs ConfigState::remove_http_listener
    //@  ret r
    //@  before "return Err(StateError::NoChange);"
    //@    assert(self.http_listeners@ =~= old(self).http_listeners@);
    //@  ensures
    //@    r is Err ==> same_config(*old(self), *final(self)),                                         // [rejected-leaves-no-trace]
    //@    r is Ok ==> final(self).http_listeners@ == old(self).http_listeners@.remove(*address)
    //@        && same_config(ConfigState { http_listeners: final(self).http_listeners, ..*old(self) }, *final(self)), // [accepted-removes-only-the-named-listener]
    //@end
    //@fn command/src/state.rs ConfigState::remove_https_listener
    //@  ret r
    //@  before "return Err(StateError::NoChange);"
    //@    assert(self.https_listeners@ =~= old(self).https_listeners@);
    //@  ensures
    //@    r is Err ==> same_config(*old(self), *final(self)),                                         // [rejected-leaves-no-trace]
    //@    r is Ok ==> final(self).https_listeners@ == old(self).https_listeners@.remove(*address)
    //@        && same_config(ConfigState { https_listeners: final(self).https_listeners, ..*old(self) }, *final(self)), // [accepted-removes-only-the-named-listener]
    //@end
    //@fn command/src/state.rs ConfigState::remove_tcp_listener
    //@  ret r
    //@  before "return Err(StateError::NoChange);"
    //@    assert(self.tcp_listeners@ =~= old(self).tcp_listeners@);
    //@  ensures
    //@    r is Err ==> same_config(*old(self), *final(self)),                                         // [rejected-leaves-no-trace]
    //@    r is Ok ==> final(self).tcp_listeners@ == old(self).tcp_listeners@.remove(*address)
    //@        && same_config(ConfigState { tcp_listeners: final(self).tcp_listeners, ..*old(self) }, *final(self)), // [accepted-removes-only-the-named-listener]
    //@end
    //@fn command/src/state.rs ConfigState::remove_udp_listener
    //@  ret r
    //@  before "return Err(StateError::NoChange);"
    //@    assert(self.udp_listeners@ =~= old(self).udp_listeners@);
    //@  ensures
    //@    r is Err ==> same_config(*old(self), *final(self)),                                         // [rejected-leaves-no-trace]
    //@    r is Ok ==> final(self).udp_listeners@ == old(self).udp_listeners@.remove(*address)
    //@        && same_config(ConfigState { udp_listeners: final(self).udp_listeners, ..*old(self) }, *final(self)), // [accepted-removes-only-the-named-listener]
    //@end

    //@fn command/src/state.rs ConfigState::set_health_check
    //@  ret r
    //@  subst "crate::config::validate_health_check_config(&set.config)" => "validate_health_check_config(&set.config)"
    //@  subst "set.cluster_id.to_owned()" => "verif_string_clone(&set.cluster_id)"
    //@  ensures
    //@    r is Err ==> same_config(*old(self), *final(self)),                                         // [rejected-leaves-no-trace]
    //@    r is Ok ==> only_key_changed(old(self).clusters@, final(self).clusters@, set.cluster_id)
    //@        && same_config(ConfigState { clusters: final(self).clusters, ..*old(self) }, *final(self)), // [accepted-changes-only-the-named-cluster]
    //@    r is Ok ==> final(self).clusters@[set.cluster_id].health_check == Some(set.config),          // [accepted-installs-the-config]
    //@end

    //@fn command/src/state.rs ConfigState::add_cluster
    //@  ret r
    //@  subst "crate::config::validate_health_check_config(hc)" => "validate_health_check_config(hc)"
    //@  subst "cluster.clone()" => "verif_cluster_clone(cluster)"
    //@  subst "cluster.cluster_id.clone()" => "verif_string_clone2(&cluster.cluster_id)"
    //@  subst "insert(cluster_id.clone(), cluster)" => "insert(verif_string_clone2(&cluster_id), cluster)"
    //@  drop_dassert 1 Option::map with a closure returning a reference; its content is the [accepted-upserts-the-named-cluster] clause
    //@  ensures
    //@    r is Err ==> same_config(*old(self), *final(self)),                                         // [rejected-leaves-no-trace]
    //@    r is Ok ==> final(self).clusters@ == old(self).clusters@.insert(cluster.cluster_id, *cluster)
    //@        && same_config(ConfigState { clusters: final(self).clusters, ..*old(self) }, *final(self)), // [accepted-upserts-the-named-cluster]
    //@end

    //@fn command/src/state.rs ConfigState::remove_listener
    //@  ret r
    //@  subst "ListenerType::try_from(remove.proxy).map_err(StateError::WrongFieldValue)?" => "(match ListenerType::try_from(remove.proxy) { Ok(t) => t, Err(e) => { return Err(StateError::WrongFieldValue(e)); } })"
    //@  substall "&remove.address.into()" => "&verif_to_sockaddr(remove.address)"
    //@  ensures
    //@    r is Err ==> same_config(*old(self), *final(self)),                                         // [rejected-leaves-no-trace]
    //@    r is Ok ==> ({
    //@        let k = spec_to_sockaddr(remove.address);
    //@        &&& only_key_removed(old(self).http_listeners@, final(self).http_listeners@, k)
    //@        &&& only_key_removed(old(self).https_listeners@, final(self).https_listeners@, k)
    //@        &&& only_key_removed(old(self).tcp_listeners@, final(self).tcp_listeners@, k)
    //@        &&& only_key_removed(old(self).udp_listeners@, final(self).udp_listeners@, k)
    //@        &&& same_config(ConfigState { http_listeners: final(self).http_listeners, https_listeners: final(self).https_listeners,
    //@                tcp_listeners: final(self).tcp_listeners, udp_listeners: final(self).udp_listeners, ..*old(self) }, *final(self)) }), // [accepted-removes-only-the-named-listener]
    //@end
}

} // verus!
fn main() {}
