// Unit U-statepatch — command/src/state.rs listener patch / activate commands (serves C07)
// Property sentence -> contract: "A configuration command that is answered with an error leaves the
// configuration exactly as it was ... An accepted command changes only the objects it names."
//   r is Err  ==>  every configuration map of final(self) has the same mathematical view as in old(self)
//   r is Ok   ==>  every map other than the named listener map is unchanged, and inside it only the named key changed
// Hand-written: map shims (ASSUMED std contracts), opaque dependency types, spec fns. Real text: //@item, //@fn.
use vstd::prelude::*;
use std::marker::PhantomData;
verus! {

// ---------------------------------------------------------------- std collection shims (ASSUMED contracts)
// BTreeMap / HashMap as a mathematical map; get_mut returns a reference to the stored value and changes
// nothing else (std documentation).
#[verifier::external_body]
#[verifier::reject_recursive_types(K)]
#[verifier::reject_recursive_types(V)]
pub struct BTreeMap<K, V> { _p: PhantomData<(K, V)> }
impl<K, V> BTreeMap<K, V> {
    pub uninterp spec fn view(&self) -> Map<K, V>;
    #[verifier::external_body]
    pub fn get_mut(&mut self, k: &K) -> (r: Option<&mut V>)
        ensures
            match r {
                Some(v) => old(self)@.contains_key(*k) && *v == old(self)@[*k]
                           && final(self)@ == old(self)@.insert(*k, *final(v)),
                None => !old(self)@.contains_key(*k) && final(self)@ == old(self)@,
            },
    { unimplemented!() }
}
#[verifier::external_body]
#[verifier::reject_recursive_types(K)]
#[verifier::reject_recursive_types(V)]
pub struct HashMap<K, V> { _p: PhantomData<(K, V)> }
impl<K, V> HashMap<K, V> {
    pub uninterp spec fn view(&self) -> Map<K, V>;
}

// ---------------------------------------------------------------- opaque dependency / prost types
#[verifier::external_body]
#[derive(Clone, Copy)]
pub struct SocketAddr { _p: () }
#[verifier::external_body]
#[derive(Clone, Copy)]
pub struct SocketAddress { _p: () }
#[verifier::external_body] pub struct Cluster { _p: () }
#[verifier::external_body] pub struct Backend { _p: () }
#[verifier::external_body] pub struct HttpFrontend { _p: () }
#[verifier::external_body] pub struct TcpFrontend { _p: () }
#[verifier::external_body] pub struct UdpFrontend { _p: () }
#[verifier::external_body] pub struct CertificateAndKey { _p: () }
#[verifier::external_body] pub struct Fingerprint { _p: () }
#[verifier::external_body] pub struct UnknownEnumValue { _p: () }
#[verifier::external_body] pub struct CertificateError { _p: () }
#[verifier::external_body] pub struct IoError { _p: () }
#[verifier::external_body] pub struct CustomHttpAnswers { _p: () }
pub enum ObjectKind { Backend, Certificate, Cluster, HttpFrontend, HttpsFrontend, HttpListener, HttpsListener, Listener, TcpCluster, TcpListener, TcpFrontend, UdpListener, UdpFrontend }

// `patch.address.into()` : SocketAddress -> SocketAddr (impl From in command/src/request.rs; a pure function)
pub uninterp spec fn spec_to_sockaddr(a: SocketAddress) -> SocketAddr;
#[verifier::external_body]
pub fn verif_to_sockaddr(a: SocketAddress) -> (r: SocketAddr) ensures r == spec_to_sockaddr(a) { unimplemented!() }
// `<String as ToOwned>::to_owned` (ASSUMED: yields an equal string)
#[verifier::external_body]
pub fn verif_string_clone(s: &String) -> (r: String) ensures r@ == s@ { s.clone() }
// `address.to_string()` inside the NotFound error (Display; no side effect on the state)
#[verifier::external_body]
pub fn verif_addr_string(a: &SocketAddr) -> String { unimplemented!() }

// validators: pure functions of the patch (bodies use local macro_rules!/string scans, outside Verus);
// an arbitrary Result is a sound abstraction for a frame condition.
#[verifier::external_body]
pub fn validate_h2_flood_knobs_http(patch: &UpdateHttpListenerConfig) -> Result<(), StateError> { unimplemented!() }
#[verifier::external_body]
pub fn validate_h2_flood_knobs_https(patch: &UpdateHttpsListenerConfig) -> Result<(), StateError> { unimplemented!() }
#[verifier::external_body]
pub fn validate_alpn_protocols(values: &[String]) -> Result<(), StateError> { unimplemented!() }
#[verifier::external_body]
pub fn validate_sozu_id_header(value: &str) -> Result<(), StateError> { unimplemented!() }
// merge_answer_templates: body is a `for` over BTreeMap::iter (outside Verus). ASSUMED contract = its doc
// comment: every non-empty body of the patch is inserted under its code; other codes keep their value.
#[verifier::external_body]
pub fn merge_answer_templates(target: &mut BTreeMap<String, String>, patch: &BTreeMap<String, String>)
    ensures
        forall|c: String| #[trigger] patch@.contains_key(c) && patch@[c]@.len() > 0 ==> final(target)@.contains_key(c) && final(target)@[c] == patch@[c],
        forall|c: String| !(#[trigger] patch@.contains_key(c) && patch@[c]@.len() > 0) ==> (final(target)@.contains_key(c) == old(target)@.contains_key(c)
            && (old(target)@.contains_key(c) ==> final(target)@[c] == old(target)@[c])),
{ unimplemented!() }
// merge_custom_http_answers touches only the Option it is handed
#[verifier::external_body]
pub fn merge_custom_http_answers(target: &mut Option<CustomHttpAnswers>, patch: &CustomHttpAnswers) { unimplemented!() }

//@global-subst "std::io::Error" => "IoError"
//@global-subst "::core::option::Option" => "Option"
//@item command/src/state.rs type ClusterId
//@item command/src/state.rs enum StateError
//@item command/src/state.rs struct ConfigState
//@global-subst "::prost::alloc::string::String" => "String"
//@global-subst "::prost::alloc::vec::Vec" => "Vec"
//@global-subst "::prost::alloc::collections::BTreeMap" => "BTreeMap"
//@item command/src/proto/command.rs struct HttpListenerConfig
//@item command/src/proto/command.rs struct HttpsListenerConfig
//@item command/src/proto/command.rs struct UpdateHttpListenerConfig
//@item command/src/proto/command.rs struct UpdateHttpsListenerConfig
//@item command/src/proto/command.rs struct AlpnProtocols
//@item command/src/proto/command.rs struct HstsConfig
//@item command/src/proto/command.rs struct TcpListenerConfig
//@item command/src/proto/command.rs struct UdpListenerConfig
//@item command/src/proto/command.rs struct UpdateTcpListenerConfig
//@item command/src/proto/command.rs struct UpdateUdpListenerConfig

// The configuration as mathematical maps (request_counts is a census of received requests, not
// configuration: `dispatch` bumps it for rejected requests too; excluded by definition, see DESIGN C07).
pub open spec fn same_config(a: ConfigState, b: ConfigState) -> bool {
    &&& a.clusters@ == b.clusters@
    &&& a.backends@ == b.backends@
    &&& a.http_listeners@ == b.http_listeners@
    &&& a.https_listeners@ == b.https_listeners@
    &&& a.tcp_listeners@ == b.tcp_listeners@
    &&& a.udp_listeners@ == b.udp_listeners@
    &&& a.http_fronts@ == b.http_fronts@
    &&& a.https_fronts@ == b.https_fronts@
    &&& a.tcp_fronts@ == b.tcp_fronts@
    &&& a.udp_fronts@ == b.udp_fronts@
    &&& a.certificates@ == b.certificates@
}
// "changes only the object it names": same domain, every other key maps to the same value
pub open spec fn only_key_changed<K, V>(a: Map<K, V>, b: Map<K, V>, k: K) -> bool {
    &&& a.dom() =~= b.dom()
    &&& forall|j: K| j != k && a.contains_key(j) ==> a[j] == b[j]
}

impl ConfigState {

    //@fn command/src/state.rs ConfigState::update_tcp_listener
    //@  ret r
    //@  subst "patch.address.into()" => "verif_to_sockaddr(patch.address)"
    //@  subst "address.to_string()" => "verif_addr_string(&address)"
    //@  ensures
    //@    r is Err ==> same_config(*old(self), *final(self)),                                         // [rejected-leaves-no-trace]
    //@    r is Ok ==> ({
    //@        let k = spec_to_sockaddr(patch.address);
    //@        &&& old(self).tcp_listeners@.contains_key(k)
    //@        &&& only_key_changed(old(self).tcp_listeners@, final(self).tcp_listeners@, k)
    //@        &&& same_config(ConfigState { tcp_listeners: final(self).tcp_listeners, ..*old(self) }, *final(self)) }), // [accepted-changes-only-named-listener]
    //@    r is Ok ==> ({
    //@        let k = spec_to_sockaddr(patch.address);
    //@        let o = old(self).tcp_listeners@[k]; let n = final(self).tcp_listeners@[k];
    //@        &&& n.address == o.address
    //@        &&& n.public_address == (if patch.public_address is Some { patch.public_address } else { o.public_address })
    //@        &&& n.expect_proxy == (if let Some(v) = patch.expect_proxy { v } else { o.expect_proxy })
    //@        &&& n.front_timeout == (if let Some(v) = patch.front_timeout { v } else { o.front_timeout })
    //@        &&& n.back_timeout == (if let Some(v) = patch.back_timeout { v } else { o.back_timeout })
    //@        &&& n.connect_timeout == (if let Some(v) = patch.connect_timeout { v } else { o.connect_timeout })
    //@        &&& n.active == o.active
    //@        &&& true }),                                                                              // [some-written-none-preserved]
    //@end

    //@fn command/src/state.rs ConfigState::update_udp_listener
    //@  ret r
    //@  subst "patch.address.into()" => "verif_to_sockaddr(patch.address)"
    //@  subst "address.to_string()" => "verif_addr_string(&address)"
    //@  ensures
    //@    r is Err ==> same_config(*old(self), *final(self)),                                         // [rejected-leaves-no-trace]
    //@    r is Ok ==> ({
    //@        let k = spec_to_sockaddr(patch.address);
    //@        &&& old(self).udp_listeners@.contains_key(k)
    //@        &&& only_key_changed(old(self).udp_listeners@, final(self).udp_listeners@, k)
    //@        &&& same_config(ConfigState { udp_listeners: final(self).udp_listeners, ..*old(self) }, *final(self)) }), // [accepted-changes-only-named-listener]
    //@    r is Ok ==> ({
    //@        let k = spec_to_sockaddr(patch.address);
    //@        let o = old(self).udp_listeners@[k]; let n = final(self).udp_listeners@[k];
    //@        &&& n.address == o.address
    //@        &&& n.public_address == (if patch.public_address is Some { patch.public_address } else { o.public_address })
    //@        &&& n.front_timeout == (if let Some(v) = patch.front_timeout { v } else { o.front_timeout })
    //@        &&& n.back_timeout == (if let Some(v) = patch.back_timeout { v } else { o.back_timeout })
    //@        &&& n.max_rx_datagram_size == (if let Some(v) = patch.max_rx_datagram_size { v } else { o.max_rx_datagram_size })
    //@        &&& n.max_flows == (if let Some(v) = patch.max_flows { v } else { o.max_flows })
    //@        &&& n.active == o.active
    //@        &&& true }),                                                                              // [some-written-none-preserved]
    //@end

    //@fn command/src/state.rs ConfigState::update_http_listener
    //@  ret r
    //@  subst "patch.address.into()" => "verif_to_sockaddr(patch.address)"
    //@  subst "address.to_string()" => "verif_addr_string(&address)"
    //@  substall "v.to_owned()" => "verif_string_clone(v)"
    // NOTE: the field-by-field functional postcondition ("Some written, None preserved") that tcp/udp carry is NOT
    // stated here: with 32 sequential `if let` assignments through one `&mut` Verus' query exceeds rlimit even for a
    // single field (measured: 30M rlimit units, path explosion). Only the frame conditions of C07 are claimed.
    //@  ensures
    //@    r is Err ==> same_config(*old(self), *final(self)),                                         // [rejected-leaves-no-trace]
    //@    r is Ok ==> ({
    //@        let k = spec_to_sockaddr(patch.address);
    //@        &&& old(self).http_listeners@.contains_key(k)
    //@        &&& only_key_changed(old(self).http_listeners@, final(self).http_listeners@, k)
    //@        &&& same_config(ConfigState { http_listeners: final(self).http_listeners, ..*old(self) }, *final(self)) }), // [accepted-changes-only-named-listener]
    //@end

    //@fn command/src/state.rs ConfigState::update_https_listener
    //@  ret r
    //@  subst "patch.address.into()" => "verif_to_sockaddr(patch.address)"
    //@  subst "address.to_string()" => "verif_addr_string(&address)"
    //@  substall "v.to_owned()" => "verif_string_clone(v)"
    // NOTE: the field-by-field functional postcondition ("Some written, None preserved") that tcp/udp carry is NOT
    // stated here: with 32 sequential `if let` assignments through one `&mut` Verus' query exceeds rlimit even for a
    // single field (measured: 30M rlimit units, path explosion). Only the frame conditions of C07 are claimed.
    //@  ensures
    //@    r is Err ==> same_config(*old(self), *final(self)),                                         // [rejected-leaves-no-trace]
    //@    r is Ok ==> ({
    //@        let k = spec_to_sockaddr(patch.address);
    //@        &&& old(self).https_listeners@.contains_key(k)
    //@        &&& only_key_changed(old(self).https_listeners@, final(self).https_listeners@, k)
    //@        &&& same_config(ConfigState { https_listeners: final(self).https_listeners, ..*old(self) }, *final(self)) }), // [accepted-changes-only-named-listener]
    //@end
}

} // verus!
fn main() {}
