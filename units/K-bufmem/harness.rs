    // Kani harnesses for command/src/buffer/growable.rs — appended to the REAL file in a scratch copy.
    // Bounded: capacity is the concrete constant CAP; contents, position and end are fully symbolic.
    use std::io::Write as _;

    const CAP: usize = 4;

    fn any_buffer() -> Buffer {
        let mut b = Buffer::with_capacity(CAP);
        let content: [u8; CAP] = kani::any();
        let mut i = 0;
        while i < CAP {
            b.memory[i] = content[i];
            i += 1;
        }
        let position: usize = kani::any();
        let end: usize = kani::any();
        kani::assume(position <= end && end <= CAP);
        b.position = position;
        b.end = end;
        b
    }

    fn snapshot(b: &Buffer) -> ([u8; CAP], usize) {
        let mut s = [0u8; CAP];
        let d = b.data();
        let mut i = 0;
        while i < d.len() {
            s[i] = d[i];
            i += 1;
        }
        (s, d.len())
    }

    #[kani::proof]
    #[kani::unwind(6)]
    fn shift_preserves_view() {
        let mut b = any_buffer();
        let (before, n) = snapshot(&b);
        let (p0, e0, c0) = (b.position, b.end, b.capacity);
        kani::cover!(p0 > 0 && e0 > p0);
        b.shift();
        assert!(b.position == 0);
        assert!(b.end == e0 - p0);
        assert!(b.capacity == c0 && b.memory.len() == c0);
        let (after, m) = snapshot(&b);
        assert!(m == n);
        let mut i = 0;
        while i < n {
            assert!(after[i] == before[i]);
            i += 1;
        }
    }

    #[kani::proof]
    #[kani::unwind(6)]
    fn space_frame() {
        let mut b = any_buffer();
        let (p0, e0, c0) = (b.position, b.end, b.capacity);
        let mut prefix = [0u8; CAP];
        let mut i = 0;
        while i < e0 {
            prefix[i] = b.memory[i];
            i += 1;
        }
        let k: usize = kani::any();
        let v: u8 = kani::any();
        {
            let s = b.space();
            assert!(s.len() == c0 - e0);
            kani::cover!(s.len() > 1);
            if k < s.len() {
                s[k] = v;
            }
        }
        assert!(b.position == p0 && b.end == e0 && b.capacity == c0 && b.memory.len() == c0);
        let mut i = 0;
        while i < e0 {
            assert!(b.memory[i] == prefix[i]);
            i += 1;
        }
        if k < c0 - e0 {
            assert!(b.memory[e0 + k] == v);
        }
    }

    #[kani::proof]
    #[kani::unwind(6)]
    fn write_all_appends() {
        let mut b = any_buffer();
        let n: usize = kani::any();
        kani::assume(n <= 2 && n <= b.available_space());
        let payload: [u8; 2] = kani::any();
        let (before, len0) = snapshot(&b);
        let (e0, c0) = (b.end, b.capacity);
        kani::cover!(n == 2 && b.position > 0);
        let r = b.write_all(&payload[..n]);
        assert!(r.is_ok());
        assert!(b.capacity == c0);
        assert!(b.end <= e0 + n);
        let (after, len1) = snapshot(&b);
        assert!(len1 == len0 + n);
        let mut i = 0;
        while i < len0 {
            assert!(after[i] == before[i]);
            i += 1;
        }
        let mut j = 0;
        while j < n {
            assert!(after[len0 + j] == payload[j]);
            j += 1;
        }
    }

    #[kani::proof]
    fn le_bytes_roundtrip() {
        let x: usize = kani::any();
        let bytes = x.to_le_bytes();
        kani::cover!(x > 0xffff);
        assert!(bytes.len() == 8);
        assert!(usize::from_le_bytes(bytes) == x);
    }
