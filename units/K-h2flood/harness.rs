    // Kani harness for lib/src/protocol/mux/h2.rs — appended to the REAL file in a scratch copy.
    // The clock is stubbed: elapsed() returns either 2 s (window expired) or 1 ms (not expired), nondeterministically.
    // An Instant taken by the detector's own refresh (the 2nd now() call: the 1st is in new()) has just been taken:
    // its elapsed() is small. For the window start inherited from new(), either outcome is possible.
    static mut NOW_CALLS: u32 = 0;
    fn stub_elapsed(_i: &Instant) -> std::time::Duration {
        if unsafe { NOW_CALLS } >= 2 { return std::time::Duration::from_millis(1); }
        if kani::any() { std::time::Duration::from_secs(2) } else { std::time::Duration::from_millis(1) }
    }

    // Instant::now() calls clock_gettime (foreign function, outside Kani): any valid Instant will do, its value is
    // only ever consumed by the stubbed elapsed().
    fn stub_now() -> Instant { unsafe { NOW_CALLS += 1; std::mem::zeroed() } }

    #[kani::proof]
    #[kani::stub(std::time::Instant::elapsed, stub_elapsed)]
    #[kani::stub(std::time::Instant::now, stub_now)]
    fn check_flood_iff_over_threshold() {
        let cfg = H2FloodConfig {
            max_rst_stream_per_window: kani::any(),
            max_ping_per_window: kani::any(),
            max_settings_per_window: kani::any(),
            max_empty_data_per_window: kani::any(),
            max_window_update_stream0_per_window: kani::any(),
            max_continuation_frames: kani::any(),
            max_glitch_count: kani::any(),
            max_rst_stream_lifetime: kani::any(),
            max_rst_stream_abusive_lifetime: kani::any(),
            max_rst_stream_emitted_lifetime: kani::any(),
            max_header_list_size: kani::any(),
            max_header_table_size: kani::any(),
            max_header_fields: kani::any(),
        };
        kani::assume(cfg.max_rst_stream_per_window >= 1 && cfg.max_ping_per_window >= 1 && cfg.max_settings_per_window >= 1
            && cfg.max_continuation_frames >= 1 && cfg.max_glitch_count >= 1);
        let mut d = H2FloodDetector::new(cfg);
        d.rst_stream_count = kani::any();
        d.total_rst_received_lifetime = kani::any();
        d.total_abusive_rst_received_lifetime = kani::any();
        d.total_rst_streams_emitted_lifetime = kani::any();
        d.ping_count = kani::any();
        d.total_ping_received_lifetime = kani::any();
        d.settings_count = kani::any();
        d.total_settings_received_lifetime = kani::any();
        d.empty_data_count = kani::any();
        d.window_update_stream0_count = kani::any();
        d.continuation_count = kani::any();
        d.accumulated_header_size = kani::any();
        d.glitch_count = kani::any();
        let b = (d.rst_stream_count, d.ping_count, d.settings_count, d.empty_data_count, d.window_update_stream0_count, d.glitch_count);
        let blk = (d.continuation_count, d.accumulated_header_size);
        let life = (d.total_rst_received_lifetime, d.total_abusive_rst_received_lifetime, d.total_rst_streams_emitted_lifetime,
                    d.total_ping_received_lifetime, d.total_settings_received_lifetime);

        let r = d.check_flood();

        let a = (d.rst_stream_count, d.ping_count, d.settings_count, d.empty_data_count, d.window_update_stream0_count, d.glitch_count);
        let halved = (b.0 / 2, b.1 / 2, b.2 / 2, b.3 / 2, b.4 / 2, b.5 / 2);
        kani::cover!(a == halved && r.is_some());
        // windowed counters: all unchanged or all exactly halved
        assert!(a == b || a == halved);
        // per-header-block counters and lifetime ceilings never decay
        assert!((d.continuation_count, d.accumulated_header_size) == blk);
        assert!((d.total_rst_received_lifetime, d.total_abusive_rst_received_lifetime, d.total_rst_streams_emitted_lifetime,
                 d.total_ping_received_lifetime, d.total_settings_received_lifetime) == life);
        // violation iff some counter exceeds its threshold (after decay)
        let over = d.rst_stream_count > d.config.max_rst_stream_per_window
            || d.ping_count > d.config.max_ping_per_window
            || d.total_ping_received_lifetime > DEFAULT_MAX_PING_LIFETIME
            || d.settings_count > d.config.max_settings_per_window
            || d.total_settings_received_lifetime > DEFAULT_MAX_SETTINGS_LIFETIME
            || d.empty_data_count > d.config.max_empty_data_per_window
            || d.continuation_count > d.config.max_continuation_frames
            || d.window_update_stream0_count > d.config.max_window_update_stream0_per_window
            || d.accumulated_header_size > d.config.max_header_list_size
            || d.glitch_count > d.config.max_glitch_count;
        assert!(r.is_some() == over);
        if let Some(v) = r {
            assert!(v.error == H2Error::EnhanceYourCalm);
            assert!(v.count > v.threshold);
        }
    }
