// Unit U-backend — lib/src/backends.rs Backend eligibility + counters, HealthState, lib/src/retry.rs (serves C12, C16)
// Property sentence (C12) -> contract: "Traffic only goes to backends that are eligible right now":
//   eligible(b)  :=  b.status == Normal  &&  health is Healthy  &&  the retry policy answers OKAY right now
//   Backend::can_open() <==> eligible(self);  is_available() as documented (Normal, healthy, not exhausted)
// (C16/C12) counters: inc/dec change active_connections by exactly one (saturating at 0), only in the states the
//   lifecycle allows, never wrap; Closing drains to Closed exactly at zero.
use vstd::prelude::*;
verus! {

pub open spec fn min_int(a: int, b: int) -> int { if a <= b { a } else { b } }
pub fn verif_min(a: usize, b: usize) -> (r: usize) ensures r as int == min_int(a as int, b as int) { if a <= b { a } else { b } }
pub fn verif_max_u64(a: u64, b: u64) -> (r: u64) ensures r >= a, r >= b, r == a || r == b { if a >= b { a } else { b } }

// ---------------------------------------------------------------- std / dependency shims (ASSUMED contracts)
pub assume_specification[ u64::checked_shl ](x: u64, s: u32) -> (r: Option<u64>)
    ensures s >= 64 ==> r is None;   // std: None iff rhs >= BITS

// std::time: a clock the proof knows nothing about; elapsed() may return any duration
pub mod time {
    use super::*;
    #[verifier::external_body] pub struct Instant { _p: () }
    #[verifier::external_body] pub struct Duration { _p: () }
    impl Instant {
        #[verifier::external_body] pub fn now() -> Instant { unimplemented!() }
        // "right now": within one call the clock is frozen — elapsed() is a function of the instant
        pub uninterp spec fn spec_elapsed(&self) -> Duration;
        #[verifier::external_body] pub fn elapsed(&self) -> (r: Duration) ensures r == self.spec_elapsed() { unimplemented!() }
    }
    impl Duration {
        pub uninterp spec fn spec_lt(&self, o: &Duration) -> bool;
        #[verifier::external_body] pub fn from_secs(s: u64) -> Duration { unimplemented!() }
        #[verifier::external_body] pub fn default() -> Duration { unimplemented!() }
        #[verifier::external_body] pub fn lt(&self, o: &Duration) -> (r: bool) ensures r == self.spec_lt(o) { unimplemented!() }
        #[verifier::external_body] pub fn ge(&self, o: &Duration) -> (r: bool) ensures r == !self.spec_lt(o) { unimplemented!() }
    }
}
// `rand::rng().random_range(1..max_secs)` : some value in the range (ASSUMED)
#[verifier::external_body]
pub fn verif_random_range(lo: u64, hi: u64) -> (r: u64) requires lo < hi ensures lo <= r < hi { unimplemented!() }

#[verifier::external_body] pub struct SocketAddr { _p: () }
#[verifier::external_body] pub struct LoadBalancingParams { _p: () }
#[verifier::external_body] pub struct PeakEWMA { _p: () }

//@item lib/src/retry.rs enum RetryAction structural
//@item lib/src/retry.rs struct ExponentialBackoffPolicy
//@item lib/src/retry.rs enum RetryPolicyWrapper
//@item lib/src/backends.rs enum BackendStatus structural
//@item lib/src/backends.rs enum HealthStatus structural
//@item lib/src/backends.rs struct HealthState
//@global-subst "retry::RetryPolicyWrapper" => "RetryPolicyWrapper"
//@global-subst "retry::RetryAction" => "RetryAction"
//@item lib/src/backends.rs struct Backend

impl ExponentialBackoffPolicy {
    pub open spec fn wf(&self) -> bool { self.current_tries <= self.max_tries }
    // "the retry policy answers OKAY right now": the wait window since the last failure has elapsed
    pub open spec fn spec_okay_now(&self) -> bool { !self.last_try.spec_elapsed().spec_lt(&self.wait) }

    //@fn lib/src/retry.rs RetryPolicy for ExponentialBackoffPolicy::max_tries
    //@  ret r
    //@  ensures
    //@    r == self.max_tries,                       // [is-max]
    //@end
    //@fn lib/src/retry.rs RetryPolicy for ExponentialBackoffPolicy::current_tries
    //@  ret r
    //@  ensures
    //@    r == self.current_tries,                   // [is-current]
    //@end
    //@fn lib/src/retry.rs RetryPolicy for ExponentialBackoffPolicy::fail
    //@  subst "cmp::max(\n            1,\n            1u64.checked_shl(self.current_tries as u32)\n                .unwrap_or(u64::MAX),\n        )" => "verif_max_u64(\n            1,\n            1u64.checked_shl(self.current_tries as u32)\n                .unwrap_or(u64::MAX),\n        )"
    //@  subst "let mut rng = rand::rng();\n            rng.random_range(1..max_secs)" => "verif_random_range(1, max_secs)"
    //@  subst "cmp::min(" => "verif_min("
    //@  requires
    //@    old(self).wf(),
    //@    old(self).max_tries < usize::MAX,
    //@  ensures
    //@    final(self).wf(),                                                                          // [never-exceeds-max]
    //@    final(self).max_tries == old(self).max_tries,                                              // [max-unchanged]
    //@    final(self).current_tries == old(self).current_tries
    //@      || final(self).current_tries as int == min_int(old(self).current_tries + 1, old(self).max_tries as int), // [counts-at-most-one-failure]
    //@    final(self).current_tries >= old(self).current_tries,                                      // [monotone-until-success]
    //@end
    //@fn lib/src/retry.rs RetryPolicy for ExponentialBackoffPolicy::succeed
    //@  ensures
    //@    final(self).current_tries == 0 && final(self).max_tries == old(self).max_tries,            // [success-resets]
    //@end
    //@fn lib/src/retry.rs RetryPolicy for ExponentialBackoffPolicy::is_down
    //@  ret r
    //@  ensures
    //@    r <==> self.current_tries >= self.max_tries,                                               // [down-iff-budget-exhausted]
    //@end
}

impl RetryPolicyWrapper {
    pub open spec fn inner(&self) -> ExponentialBackoffPolicy { match *self { RetryPolicyWrapper::ExponentialBackoff(p) => p } }
    //@fn lib/src/retry.rs RetryPolicy for RetryPolicyWrapper::is_down
    //@  ret r
    //@  ensures
    //@    r <==> self.inner().current_tries >= self.inner().max_tries,                               // [delegates]
    //@end
}

impl HealthState {
    //@fn lib/src/backends.rs HealthState::is_healthy
    //@  ret r
    //@  ensures
    //@    r <==> self.status == HealthStatus::Healthy,                                               // [healthy-iff-status]
    //@end
    //@fn lib/src/backends.rs HealthState::record_success
    //@  ret r
    //@  requires
    //@    old(self).consecutive_successes < u32::MAX,
    //@  ensures
    //@    final(self).consecutive_successes == old(self).consecutive_successes + 1 && final(self).consecutive_failures == 0, // [streaks]
    //@    r <==> (old(self).status == HealthStatus::Unhealthy && final(self).consecutive_successes >= healthy_threshold),   // [recovery-reported-iff-threshold-crossed]
    //@    final(self).status == (if r { HealthStatus::Healthy } else { old(self).status }),                                // [status]
    //@end
    //@fn lib/src/backends.rs HealthState::record_failure
    //@  ret r
    //@  requires
    //@    old(self).consecutive_failures < u32::MAX,
    //@  ensures
    //@    final(self).consecutive_failures == old(self).consecutive_failures + 1 && final(self).consecutive_successes == 0, // [streaks]
    //@    r <==> (old(self).status == HealthStatus::Healthy && final(self).consecutive_failures >= unhealthy_threshold),   // [transition-reported-iff-threshold-crossed]
    //@    final(self).status == (if r { HealthStatus::Unhealthy } else { old(self).status }),                              // [status]
    //@end
}

impl ExponentialBackoffPolicy {
    // can_try: OKAY iff the wait window has elapsed (the clock is arbitrary: `spec_okay_now` names that fact)
    //@fn lib/src/retry.rs RetryPolicy for ExponentialBackoffPolicy::can_try
    //@  ret r
    //@  ensures
    //@    r == Some(if self.spec_okay_now() { RetryAction::OKAY } else { RetryAction::WAIT }),        // [okay-iff-wait-window-elapsed]
    //@end
}
impl RetryPolicyWrapper {
    //@fn lib/src/retry.rs RetryPolicy for RetryPolicyWrapper::can_try
    //@  ret r
    //@  ensures
    //@    r == Some(if self.inner().spec_okay_now() { RetryAction::OKAY } else { RetryAction::WAIT }), // [delegates]
    //@end
}

impl Backend {
    // eligibility from the property sentence; `okay` is what the retry policy answered for this call
    pub open spec fn eligible(&self, okay: bool) -> bool {
        self.status == BackendStatus::Normal && self.health.status == HealthStatus::Healthy && okay
    }

    //@fn lib/src/backends.rs Backend::can_open
    //@  ret r
    //@  ensures
    //@    r <==> self.eligible(self.retry_policy.inner().spec_okay_now()),                            // [open-iff-eligible-right-now]
    //@end

    //@fn lib/src/backends.rs Backend::is_available
    //@  ret r
    //@  ensures
    //@    r <==> (self.health.status == HealthStatus::Healthy && self.status == BackendStatus::Normal
    //@            && self.retry_policy.inner().current_tries < self.retry_policy.inner().max_tries),   // [available-iff-healthy-normal-not-exhausted]
    //@end

    //@fn lib/src/backends.rs Backend::set_closing
    //@  ensures
    //@    final(self).status == BackendStatus::Closing && final(self).active_connections == old(self).active_connections, // [closing]
    //@end

    //@fn lib/src/backends.rs Backend::inc_connections
    //@  ret r
    //@  requires
    //@    old(self).active_connections < usize::MAX,
    //@  ensures
    //@    old(self).status == BackendStatus::Normal ==> final(self).active_connections == old(self).active_connections + 1
    //@        && r == Some(final(self).active_connections),                                               // [normal-adds-exactly-one]
    //@    old(self).status != BackendStatus::Normal ==> final(self).active_connections == old(self).active_connections && r is None, // [non-normal-refuses-and-keeps-count]
    //@    final(self).status == old(self).status,                                                          // [status-unchanged]
    //@end

    //@fn lib/src/backends.rs Backend::dec_connections
    //@  ret r
    //@  ensures
    //@    old(self).status != BackendStatus::Closed ==> final(self).active_connections as int
    //@        == (if old(self).active_connections > 0 { old(self).active_connections - 1 } else { 0 }),   // [drops-exactly-one-saturating]
    //@    old(self).status == BackendStatus::Closed ==> final(self).active_connections == old(self).active_connections && r is None, // [closed-untouched]
    //@    old(self).status == BackendStatus::Normal ==> final(self).status == BackendStatus::Normal,       // [normal-stays-normal]
    //@    old(self).status == BackendStatus::Closing ==> final(self).status ==
    //@        (if final(self).active_connections == 0 { BackendStatus::Closed } else { BackendStatus::Closing }), // [closing-retires-exactly-at-zero]
    //@    final(self).active_connections <= old(self).active_connections,                                  // [never-increases]
    //@end
}

// ---------------------------------------------------------------- selection cascade (C12)
// Rc<RefCell<Backend>>: a shared handle; `spec_get` is the backend it currently designates.
#[verifier::external_body]
#[verifier::reject_recursive_types(T)]
pub struct Rc<T> { _p: std::marker::PhantomData<T> }
#[verifier::external_body]
#[verifier::reject_recursive_types(T)]
pub struct RefCell<T> { _p: std::marker::PhantomData<T> }
pub uninterp spec fn spec_get(h: Rc<RefCell<Backend>>) -> Backend;
#[verifier::external_body]
#[verifier::reject_recursive_types(T)]
pub struct Cell<T> { _p: std::marker::PhantomData<T> }
#[verifier::external_body] pub struct ClusterAvailability { _p: () }

// the three candidate classes of the property sentence
pub open spec fn is_eligible(h: Rc<RefCell<Backend>>) -> bool {
    spec_get(h).eligible(spec_get(h).retry_policy.inner().spec_okay_now())
}
pub open spec fn is_primary(h: Rc<RefCell<Backend>>) -> bool { is_eligible(h) && !spec_get(h).backup }
pub open spec fn is_backup(h: Rc<RefCell<Backend>>) -> bool { is_eligible(h) && spec_get(h).backup }
pub open spec fn is_failopen(h: Rc<RefCell<Backend>>) -> bool {
    spec_get(h).status == BackendStatus::Normal && spec_get(h).retry_policy.inner().spec_okay_now()
}

// a load-balancing policy picks a member of the candidate list it is handed (each concrete policy: unchecked here)
pub trait LoadBalancingAlgorithm {
    fn next_available_backend(&mut self, key: Option<u64>, backends: &mut Vec<Rc<RefCell<Backend>>>) -> (r: Option<Rc<RefCell<Backend>>>)
        ensures r matches Some(b) ==> old(backends)@.contains(b);
}

//@item lib/src/backends.rs struct BackendList

impl BackendList {
    // ASSUMED here (iterator filter + Rc::clone, outside Verus; goal of bounded Kani unit K-lbcascade):
    // available_backends(backup) returns exactly the members that are eligible and have that backup flag
    #[verifier::external_body]
    pub fn available_backends(&mut self, backup: bool) -> (r: Vec<Rc<RefCell<Backend>>>)
        ensures
            final(self).backends == old(self).backends && final(self).fail_open_warned == old(self).fail_open_warned,
            forall|h: Rc<RefCell<Backend>>| #![trigger r@.contains(h)] #![trigger old(self).backends@.contains(h)]
                r@.contains(h) <==> (old(self).backends@.contains(h) && is_eligible(h) && spec_get(h).backup == backup),
            r@.len() <= old(self).backends@.len(),
    { unimplemented!() }
    // the fail-open filter expression (same shape)
    #[verifier::external_body]
    pub fn verif_failopen_candidates(&self) -> (r: Vec<Rc<RefCell<Backend>>>)
        ensures forall|h: Rc<RefCell<Backend>>| #![trigger r@.contains(h)] #![trigger self.backends@.contains(h)]
                    r@.contains(h) <==> (self.backends@.contains(h) && is_failopen(h)),
    { unimplemented!() }

    //@fn lib/src/backends.rs BackendList::next_available_backend_with_key
    //@  ret r
    //@  subst "self\n            .backends\n            .iter()\n            .filter(|b| {\n                let owned = b.borrow();\n                owned.status == BackendStatus::Normal\n                    && matches!(owned.retry_policy.can_try(), Some(retry::RetryAction::OKAY))\n            })\n            .map(Clone::clone)\n            .collect()" => "self.verif_failopen_candidates()"
    //@  drop_dassert 1 closure over RefCell borrows; its content is the [picked-is-a-member] clause
    //@  before "if self.fail_open_warned {"
    //@    proof { assert(backends@.contains(backends@[0])); }
    //@  before "if !self.fail_open_warned {"
    //@    proof { assert(backends@.contains(backends@[0])); }
    //@  ensures
    //@    r matches Some(b) ==> old(self).backends@.contains(b),                                       // [picked-is-a-member]
    //@    r matches Some(b) ==> ({
    //@        let any_primary = exists|h: Rc<RefCell<Backend>>| old(self).backends@.contains(h) && is_primary(h);
    //@        let any_backup = exists|h: Rc<RefCell<Backend>>| old(self).backends@.contains(h) && is_backup(h);
    //@        &&& (any_primary ==> is_primary(b))
    //@        &&& (!any_primary && any_backup ==> is_backup(b))
    //@        &&& (!any_primary && !any_backup ==> is_failopen(b)) }),                                   // [primary-then-backup-then-failopen]
    //@    (forall|h: Rc<RefCell<Backend>>| old(self).backends@.contains(h) ==> !is_eligible(h) && !is_failopen(h)) ==> r is None, // [none-when-nothing-may-serve]
    //@    final(self).backends == old(self).backends,                                                  // [list-unchanged]
    //@end
}

} // verus!
fn main() {}
