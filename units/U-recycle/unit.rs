// Unit U-recycle — lib/src/protocol/mux/mod.rs: Context::create_stream, the slot-recycling path (C02)
// Property sentence -> contract: "a failure of one request never corrupts ... other requests on the same connection" and
// "every request ... is answered exactly once ... the backend's response relayed intact": the stream slots of a
// connection are recycled; a slot handed to a NEW request must carry nothing of the stream that used it before — state
// Idle, no retry count, no counted request, both parsers and both storages reset, the end-of-stream / received-octet
// bookkeeping cleared, the frontend-side send window set to the one asked for and the backend-side one to the protocol
// default (start_stream then sets the backend's own, U-h2start) — and no other live slot may be disturbed.
// The function is extracted whole except its prologue (the construction of the HttpContext from the listener, cut) and
// the `iter().position(..)` search, replaced by a shim with the same meaning. Hand-written: narrowed structs, shims.
use vstd::prelude::*;
use std::marker::PhantomData;
verus! {
global layout usize is size == 8;

pub type GlobalStreamId = usize;
#[verifier::external_body] pub struct Ulid { _p: () }
#[derive(PartialEq, Eq, Structural, Clone, Copy)]
pub enum StreamState { Idle, Link, Linked, Unlinked, Recycle }
#[verifier::external_body] pub struct HttpContext { _p: () }
// kawa::Kawa and its storage (external crate)
pub struct Storage { pub verif_empty: Ghost<bool> }
impl Storage { pub fn clear(&mut self) ensures final(self).verif_empty@ { proof { self.verif_empty@ = true; } } }
pub struct Kawa { pub storage: Storage, pub verif_initial: Ghost<bool> }
impl Kawa { pub fn clear(&mut self) ensures final(self).verif_initial@, final(self).storage == old(self).storage { proof { self.verif_initial@ = true; } } }
pub struct SessionMetrics { pub verif_reset: Ghost<bool> }
#[verifier::external_body] pub struct Instant { _p: () }
impl SessionMetrics {
    pub fn reset(&mut self) ensures final(self).verif_reset@ { proof { self.verif_reset@ = true; } }
    #[verifier::external_body] pub fn mark_request_start(&mut self) -> Instant ensures final(self).verif_reset@ == old(self).verif_reset@ { unimplemented!() }
}
pub struct Stream {
    pub window: i32, pub back_window: i32,
    pub state: StreamState, pub attempts: u8, pub request_counted: bool,
    pub front_received_end_of_stream: bool, pub back_received_end_of_stream: bool,
    pub front_data_received: usize, pub back_data_received: usize,
    pub context: HttpContext, pub front: Kawa, pub back: Kawa, pub metrics: SessionMetrics,
}
pub mod h2 { pub const DEFAULT_INITIAL_WINDOW_SIZE: u32 = 65_535; }
// i32::try_from(u32) (std)
#[verifier::external_body]
pub fn verif_try_i32_u32(n: u32) -> (r: Option<i32>) ensures n <= i32::MAX ==> r == Some(n as i32), n > i32::MAX ==> r is None { unimplemented!() }
// the HttpContext of the new request (built from the listener in the cut prologue)
#[verifier::external_body] pub fn verif_http_context() -> HttpContext { unimplemented!() }

pub struct Context<L> { pub streams: Vec<Stream>, pub h2_stream_shrink_ratio: usize, pub verif_listener: PhantomData<L> }
pub open spec fn spec_is_recycle(s: Stream) -> bool { s.state == StreamState::Recycle }
impl<L> Context<L> {
    // `self.streams.iter().position(|s| s.state == StreamState::Recycle)` (std iterator, ASSUMED): the first such index
    #[verifier::external_body]
    pub fn verif_position_recycle(&self) -> (r: Option<usize>)
        ensures match r { Some(i) => i < self.streams@.len() && spec_is_recycle(self.streams@[i as int]) && forall|k: int| 0 <= k < i ==> !spec_is_recycle(#[trigger] self.streams@[k]),
                          None => forall|k: int| 0 <= k < self.streams@.len() ==> !spec_is_recycle(#[trigger] self.streams@[k]) }
    { unimplemented!() }
    // `.iter().filter(not Recycle).count()` (ASSUMED: at most the number of slots)
    #[verifier::external_body]
    pub fn active_len(&self) -> (r: usize) ensures r <= self.streams@.len() { unimplemented!() }
    // pops trailing Recycle slots (next function of the file; ASSUMED by its text): a prefix remains, only Recycle slots go
    #[verifier::external_body]
    pub fn shrink_trailing_recycle(&mut self)
        ensures final(self).streams@.len() <= old(self).streams@.len(),
                final(self).streams@ =~= old(self).streams@.subrange(0, final(self).streams@.len() as int),
                forall|k: int| final(self).streams@.len() <= k < old(self).streams@.len() ==> spec_is_recycle(#[trigger] old(self).streams@[k]),
                final(self).h2_stream_shrink_ratio == old(self).h2_stream_shrink_ratio
    { unimplemented!() }
    // the non-recycling path: Stream::new from the buffer pool, pushed at the end (outside this unit)
    #[verifier::external_body]
    pub fn verif_push_new(&mut self, http_context: HttpContext, window: u32) -> (r: Option<GlobalStreamId>)
        ensures final(self).streams@.len() >= old(self).streams@.len(), final(self).streams@.subrange(0, old(self).streams@.len() as int) =~= old(self).streams@
    { unimplemented!() }

    //@fn lib/src/protocol/mux/mod.rs Context::create_stream
    //@  ret r
    //@  cut "@start" .. "let recycle_slot = self" => "\n        let http_context = verif_http_context();\n        "
    //@  resubst "self\\s*\\.streams\\s*\\.iter\\(\\)\\s*\\.position\\(\\|s\\| s\\.state == StreamState::Recycle\\)" => "self.verif_position_recycle()"
    //@  optresubst "i32::try_from\\(window\\)\\s*\\.unwrap_or\\(([^()]*)\\)" => "(match verif_try_i32_u32(window) { Some(verif_v) => verif_v, None => \\1 })"
    //@  cut "self.streams\n            .push(Stream::new(" .. "\n    }" => "self.verif_push_new(http_context, window)"
    //@  before "let total = self.streams.len();"
    //@    let ghost verif_mid = self.streams@;
    //@    assert(active * self.h2_stream_shrink_ratio <= 0xffff_ffff * 0xffff_ffff) by (nonlinear_arith) requires active <= 0xffff_ffff, self.h2_stream_shrink_ratio <= 0xffff_ffff;
    //@    assert(forall|k: int| 0 <= k < old(self).streams@.len() && k != stream_id as int ==> verif_mid[k] == old(self).streams@[k]);
    //@  before "return Some(stream_id);"
    //@    assert forall|k: int| 0 <= k < old(self).streams@.len() && !spec_is_recycle(old(self).streams@[k]) implies k < self.streams@.len() && self.streams@[k] == old(self).streams@[k] by {
    //@        assert(verif_mid[k] == old(self).streams@[k]);
    //@        if k >= self.streams@.len() as int { assert(spec_is_recycle(verif_mid[k])); }
    //@    }
    //@    proof { assert(!spec_is_recycle(verif_mid[stream_id as int])); if stream_id as int >= self.streams@.len() as int { assert(spec_is_recycle(verif_mid[stream_id as int])); } }
    //@  requires
    //@    old(self).streams@.len() <= u32::MAX, old(self).h2_stream_shrink_ratio <= u32::MAX,   // slot counts and the configured ratio are 32-bit quantities
    //@  ensures
    //@    (exists|i: int| 0 <= i < old(self).streams@.len() && spec_is_recycle(#[trigger] old(self).streams@[i])) ==> (r matches Some(g) && g < old(self).streams@.len() && spec_is_recycle(old(self).streams@[g as int]) && g < final(self).streams@.len() && ({
    //@        let s = final(self).streams@[g as int];
    //@        &&& !s.front_received_end_of_stream && !s.back_received_end_of_stream && s.front_data_received == 0 && s.back_data_received == 0
    //@        &&& s.state == StreamState::Idle && s.attempts == 0 && !s.request_counted
    //@        &&& s.front.verif_initial@ && s.back.verif_initial@ && s.front.storage.verif_empty@ && s.back.storage.verif_empty@ && s.metrics.verif_reset@
    //@        &&& s.window as int == (if window <= i32::MAX { window as int } else { i32::MAX as int }) && s.back_window == 65_535
    //@    })),                                                                                          // [a-recycled-slot-carries-nothing-of-the-stream-that-used-it-before]
    //@    forall|k: int| 0 <= k < old(self).streams@.len() && !spec_is_recycle(old(self).streams@[k]) ==> k < final(self).streams@.len() && (#[trigger] final(self).streams@[k]) == old(self).streams@[k], // [no-live-slot-is-disturbed]
    //@end
}

} // verus!
fn main() {}
