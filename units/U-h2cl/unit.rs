// Unit U-h2cl — lib/src/protocol/mux/h2.rs: when may an HTTP/2 message skip the Content-Length vs DATA check (serves C03)
// Property sentence -> contract: "client and backend agree on request boundaries": the sum of the DATA payloads of an
// HTTP/2 message must match its Content-Length before it is forwarded under that Content-Length. The check may be
// skipped ONLY for messages that have no body by definition (RFC 9110 §8.6): a response to HEAD, or a 1xx / 204 /
// 304 response. A REQUEST (read on a server-position connection; it has no status) is never exempt.
// Hand-written: narrowed structs (only the fields the function reads), opaque Method. Real text: //@fn, Position.
use vstd::prelude::*;
verus! {

#[verifier::external_body] pub struct Backend { _p: () }
#[verifier::external_body] pub struct BackendStatus { _p: () }
#[verifier::external_body] #[verifier::reject_recursive_types(T)] pub struct Rc<T> { _p: core::marker::PhantomData<T> }
#[verifier::external_body] #[verifier::reject_recursive_types(T)] pub struct RefCell<T> { _p: core::marker::PhantomData<T> }
// kawa_h1::parser::Method (an enum with a Custom(String) arm): opaque, with the one question asked of it
#[verifier::external_body] pub struct Method { _p: () }
pub uninterp spec fn spec_is_head(m: Option<Method>) -> bool;
#[verifier::external_body]
pub fn verif_is_head(m: &Option<Method>) -> (r: bool) ensures r == spec_is_head(*m) { unimplemented!() }

//@item lib/src/protocol/mux/mod.rs enum Position
impl Position {
    //@fn lib/src/protocol/mux/mod.rs Position::is_server
    //@  ret r
    //@  ensures
    //@    r == (self is Server),                                                                      // [server-iff-server]
    //@end
    //@fn lib/src/protocol/mux/mod.rs Position::is_client
    //@  ret r
    //@  ensures
    //@    r == (self is Client),                                                                      // [client-iff-client]
    //@end
}
// narrowed to the fields content_length_exempt reads (HttpContext has 40 fields, ConnectionH2 60)
pub struct HttpContext { pub method: Option<Method>, pub status: Option<u16> }
pub struct ConnectionH2 { pub position: Position }

impl ConnectionH2 {
    //@fn lib/src/protocol/mux/h2.rs ConnectionH2::content_length_exempt
    //@  ret r
    //@  sig "context: &crate::protocol::kawa_h1::editor::HttpContext," => "context: &HttpContext,"
    //@  subst "use crate::protocol::kawa_h1::parser::Method;" => ""
    //@  subst "context.method == Some(Method::Head)" => "verif_is_head(&context.method)"
    //@  subst "(100..200).contains(&status)" => "(100 <= status && status < 200)"
    //@  ensures
    //@    r <==> ((self.position is Client && spec_is_head(context.method))
    //@            || (context.status matches Some(s) && ((100 <= s && s < 200) || s == 204 || s == 304))), // [exempt-iff-bodyless-by-definition]
    //@    self.position is Server && context.status is None ==> !r,                                   // [a-request-is-never-exempt]
    //@end
}

} // verus!
fn main() {}
