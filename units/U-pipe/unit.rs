// Unit U-pipe — lib/src/protocol/pipe.rs (TCP / WebSocket relay) over lib/src/pool.rs Checkout (serves C18, C01)
// Property sentence -> contract: "A TCP session (and an upgraded WebSocket) relays both byte streams exactly and in
// order for any amount of data and any pacing". For each direction define the relay stream
//     client -> backend :  backend_socket.sent()  ++  frontend_buffer.data()
//     backend -> client :  frontend.sent()        ++  backend_buffer.data()
// (everything already handed to the far socket followed by everything still queued). Then
//     readable / backend_readable : the relay stream grows by EXACTLY the bytes the near socket delivered, at the end
//     backend_writable / writable : the relay stream is UNCHANGED (bytes only move from the queue to the far socket)
// and no operation touches the other direction. Nothing is duplicated, dropped, reordered or altered.
// Termination of the two write loops is NOT verified (partial correctness): a socket that keeps answering
// (0 bytes, Continue) for a non-empty buffer would spin them; the plain-TCP implementation never does.
// Hand-written: narrowed structs, socket shims with ghost byte logs (ASSUMED SocketHandler contract: proved for
// plain TCP in U-sockwrite), poule shims. Real text: //@item, //@fn.
use vstd::prelude::*;
verus! {

global layout usize is size == 8;

// ---------------------------------------------------------------- shims
//@item lib/src/socket.rs enum SocketResult structural
//@item lib/src/lib.rs enum SessionResult structural
//@item lib/src/protocol/pipe.rs enum ConnectionStatus structural

// SocketHandler: what a call hands to / takes from the kernel, as ghost byte logs (ASSUMED for every implementor;
// U-sockwrite proves exactly this for the plain-TCP implementation)
pub trait SocketHandler {
    spec fn sent(&self) -> Seq<u8>;
    spec fn received(&self) -> Seq<u8>;
    fn socket_read(&mut self, buf: &mut [u8]) -> (r: (usize, SocketResult))
        ensures
            r.0 <= old(buf)@.len(), final(buf)@.len() == old(buf)@.len(),
            final(self).received() == old(self).received() + final(buf)@.subrange(0, r.0 as int),
            final(buf)@.subrange(r.0 as int, final(buf)@.len() as int) == old(buf)@.subrange(r.0 as int, old(buf)@.len() as int),
            final(self).sent() == old(self).sent();
    fn socket_write(&mut self, buf: &[u8]) -> (r: (usize, SocketResult))
        ensures
            r.0 <= buf@.len(),
            final(self).sent() == old(self).sent() + buf@.subrange(0, r.0 as int),
            final(self).received() == old(self).received();
}
#[verifier::external_body] pub struct TcpStream { _p: () }
impl SocketHandler for TcpStream {
    uninterp spec fn sent(&self) -> Seq<u8>;
    uninterp spec fn received(&self) -> Seq<u8>;
    #[verifier::external_body] fn socket_read(&mut self, buf: &mut [u8]) -> (r: (usize, SocketResult)) { unimplemented!() }
    #[verifier::external_body] fn socket_write(&mut self, buf: &[u8]) -> (r: (usize, SocketResult)) { unimplemented!() }
}
// Ready: a bit set; only set algebra on the two readiness words, nothing else
#[verifier::external_body] #[derive(Clone, Copy)] pub struct Ready { _p: () }
impl Ready {
    pub uninterp spec fn spec_empty() -> Ready;
    pub uninterp spec fn spec_readable(&self) -> bool;
    pub uninterp spec fn spec_is_empty(&self) -> bool;
    #[verifier::external_body] pub fn insert(&mut self, o: Ready) { unimplemented!() }
    #[verifier::external_body] pub fn remove(&mut self, o: Ready) { unimplemented!() }
    #[verifier::external_body] pub fn is_readable(&self) -> (r: bool) ensures r == self.spec_readable() { unimplemented!() }
    #[verifier::external_body] pub fn is_empty(&self) -> (r: bool) ensures r == self.spec_is_empty() { unimplemented!() }
    #[verifier::external_body] pub fn verif_readable() -> Ready { unimplemented!() }
    #[verifier::external_body] pub fn verif_writable() -> Ready { unimplemented!() }
    #[verifier::external_body] pub fn verif_empty() -> (r: Ready) ensures r == Ready::spec_empty(), r.spec_is_empty() { unimplemented!() }
}
//@global-subst "Ready::READABLE" => "Ready::verif_readable()"
//@global-subst "Ready::WRITABLE" => "Ready::verif_writable()"
//@global-subst "Ready::EMPTY" => "Ready::verif_empty()"
//@item lib/src/lib.rs struct Readiness
impl Readiness {
    //@fn lib/src/lib.rs Readiness::reset
    //@  cut "#[cfg(debug_assertions)]\n        self.check_invariants();" .. "\n    }" => ""
    //@  ensures
    //@    final(self).event.spec_is_empty() && final(self).interest.spec_is_empty(),                   // [both-words-cleared]
    //@end
}
#[verifier::external_body] pub struct TimeoutContainer { _p: () }
impl TimeoutContainer { #[verifier::external_body] pub fn reset(&mut self) -> bool { unimplemented!() } }
// SessionMetrics narrowed to the four byte counters the relay bumps
pub struct SessionMetrics { pub bin: usize, pub bout: usize, pub backend_bin: usize, pub backend_bout: usize }

// poule::Checkout<BufferMetadata>: derefs to the metadata {position, end}; extra() is the raw byte area
pub struct PouleCheckout { pub position: usize, pub end: usize, pub verif_bytes: Vec<u8> }
impl PouleCheckout {
    #[verifier::external_body]
    pub fn extra(&self) -> (r: &[u8]) ensures r@ == self.verif_bytes@ { unimplemented!() }
}
//@global-subst "poule::Checkout<BufferMetadata>" => "PouleCheckout"
//@item lib/src/pool.rs struct Checkout

impl Checkout {
    // (a Rust allocation never exceeds isize::MAX bytes)
    pub open spec fn wf(&self) -> bool { self.inner.position <= self.inner.end <= self.inner.verif_bytes@.len() <= isize::MAX }
    // the readable window and the free tail
    pub open spec fn view(&self) -> Seq<u8> { self.inner.verif_bytes@.subrange(self.inner.position as int, self.inner.end as int) }
    pub open spec fn tail(&self) -> Seq<u8> { self.inner.verif_bytes@.subrange(self.inner.end as int, self.inner.verif_bytes@.len() as int) }

    //@fn lib/src/pool.rs Checkout::capacity
    //@  ret r
    //@  ensures
    //@    r == self.inner.verif_bytes@.len(),
    //@end
    //@fn lib/src/pool.rs Checkout::available_data
    //@  ret r
    //@  requires
    //@    self.wf(),
    //@  ensures
    //@    r == self@.len(),
    //@end
    //@fn lib/src/pool.rs Checkout::available_space
    //@  ret r
    //@  requires
    //@    self.wf(),
    //@  ensures
    //@    r == self.tail().len(),
    //@end
    // the three bodies below use raw slice ranges / ptr::copy: contract only (R7), ASSUMED
    //@fn lib/src/pool.rs Checkout::check_invariants
    //@  opaque_body
    //@end
    //@fn lib/src/pool.rs Checkout::shift
    //@  opaque_body
    //@  requires
    //@    old(self).wf(),
    //@  ensures
    //@    final(self).wf() && final(self)@ == old(self)@ && final(self).inner.verif_bytes@.len() == old(self).inner.verif_bytes@.len(),
    //@    final(self).inner.position == 0,
    //@    // the free tail keeps whatever it held beyond the moved window? NO: only its length is known
    //@end
    //@fn lib/src/pool.rs Checkout::data
    //@  opaque_body
    //@  ret r
    //@  requires
    //@    self.wf(),
    //@  ensures
    //@    r@ == self@,
    //@end
    //@fn lib/src/pool.rs Checkout::space
    //@  opaque_body
    //@  ret r
    //@  requires
    //@    old(self).wf(),
    //@  ensures
    //@    r@ == old(self).tail(),
    //@    final(self).inner.position == old(self).inner.position && final(self).inner.end == old(self).inner.end,
    //@    final(self).inner.verif_bytes@ == old(self).inner.verif_bytes@.subrange(0, old(self).inner.end as int) + final(r)@,
    //@    final(r)@.len() == old(self).tail().len(),
    //@end

    //@fn lib/src/pool.rs Checkout::consume
    //@  ret r
    //@  subst "cmp::min(count, available_before)" => "(if count < available_before { count } else { available_before })"
    //@  requires
    //@    old(self).wf(),
    //@  ensures
    //@    final(self).wf() && final(self).inner.verif_bytes@.len() == old(self).inner.verif_bytes@.len(),
    //@    r == (if count <= old(self)@.len() { count } else { old(self)@.len() as usize }),               // [never-more-than-is-readable]
    //@    final(self)@ == old(self)@.subrange(r as int, old(self)@.len() as int),                        // [drops-exactly-the-first-r-readable-bytes]
    //@end

    //@fn lib/src/pool.rs Checkout::fill
    //@  ret r
    //@  subst "cmp::min(count, space_before)" => "(if count < space_before { count } else { space_before })"
    //@  requires
    //@    old(self).wf(),
    //@  ensures
    //@    final(self).wf() && final(self).inner.verif_bytes@.len() == old(self).inner.verif_bytes@.len(),
    //@    r == (if count <= old(self).tail().len() { count } else { old(self).tail().len() as usize }),  // [never-more-than-the-free-space]
    //@    final(self)@ == old(self)@ + old(self).tail().subrange(0, r as int),                           // [appends-exactly-the-first-r-bytes-of-the-free-tail]
    //@end
}

// ---------------------------------------------------------------- the relay
// Pipe narrowed to the fields the four relay functions (and the helpers they call) touch; the real struct has 30
pub struct Pipe<Front: SocketHandler> {
    pub backend_buffer: Checkout,
    pub backend_readiness: Readiness,
    pub backend_socket: Option<TcpStream>,
    pub backend_status: ConnectionStatus,
    pub container_backend_timeout: Option<TimeoutContainer>,
    pub container_frontend_timeout: Option<TimeoutContainer>,
    pub frontend_buffer: Checkout,
    pub frontend_readiness: Readiness,
    pub frontend_status: ConnectionStatus,
    pub frontend: Front,
}

impl<Front: SocketHandler> Pipe<Front> {
    pub open spec fn wf(&self) -> bool { self.frontend_buffer.wf() && self.backend_buffer.wf() }
    pub open spec fn back_sent(&self) -> Seq<u8> { if self.backend_socket is Some { self.backend_socket->0.sent() } else { Seq::empty() } }
    pub open spec fn back_received(&self) -> Seq<u8> { if self.backend_socket is Some { self.backend_socket->0.received() } else { Seq::empty() } }
    // client -> backend: already handed to the backend socket, then what is still queued
    pub open spec fn relay_up(&self) -> Seq<u8> { self.back_sent() + self.frontend_buffer@ }
    // backend -> client
    pub open spec fn relay_down(&self) -> Seq<u8> { self.frontend.sent() + self.backend_buffer@ }
    pub open spec fn same_socket_presence(&self, o: &Self) -> bool { (self.backend_socket is Some) == (o.backend_socket is Some) }

    // helpers called by the relay functions -------------------------------------------------
    //@fn lib/src/protocol/pipe.rs Pipe::reset_timeouts
    //@  ensures
    //@    final(self).frontend_buffer == old(self).frontend_buffer && final(self).backend_buffer == old(self).backend_buffer
    //@      && final(self).frontend == old(self).frontend && final(self).backend_socket == old(self).backend_socket
    //@      && final(self).frontend_status == old(self).frontend_status && final(self).backend_status == old(self).backend_status, // [timers-only]
    //@end
    //@fn lib/src/protocol/pipe.rs Pipe::reset_readiness_for_close
    //@  ensures
    //@    final(self).frontend_buffer == old(self).frontend_buffer && final(self).backend_buffer == old(self).backend_buffer
    //@      && final(self).frontend == old(self).frontend && final(self).backend_socket == old(self).backend_socket, // [readiness-only]
    //@end
    // pure observers (`&self`): bodies are logging / a decision table over statuses, outside this unit's claim
    //@fn lib/src/protocol/pipe.rs Pipe::check_connections
    //@  opaque_body
    //@end
    //@fn lib/src/protocol/pipe.rs Pipe::log_request_success
    //@  opaque_body
    //@end
    //@fn lib/src/protocol/pipe.rs Pipe::log_request_error
    //@  opaque_body
    //@end

    // client -> sozu ---------------------------------------------------------------------------
    //@fn lib/src/protocol/pipe.rs Pipe::readable
    //@  ret r
    //@  requires
    //@    old(self).wf(), old(metrics).bin + old(self).frontend_buffer.inner.verif_bytes@.len() <= usize::MAX,
    //@  ensures
    //@    final(self).wf() && final(self).same_socket_presence(old(self)),
    //@    final(self).frontend.received().len() >= old(self).frontend.received().len()
    //@      && final(self).frontend.received().subrange(0, old(self).frontend.received().len() as int) == old(self).frontend.received()
    //@      && final(self).relay_up() == old(self).relay_up() + final(self).frontend.received().subrange(old(self).frontend.received().len() as int, final(self).frontend.received().len() as int), // [what-the-client-socket-delivered-joins-the-upstream-relay-at-the-end-exactly]
    //@    final(self).back_sent() == old(self).back_sent(),                                            // [reading-sends-nothing]
    //@    final(self).relay_down() == old(self).relay_down() && final(self).back_received() == old(self).back_received(), // [the-other-direction-is-untouched]
    //@end

    // sozu -> backend --------------------------------------------------------------------------
    //@fn lib/src/protocol/pipe.rs Pipe::backend_writable
    //@  ret r
    //@  attr #[verifier::exec_allows_no_decreases_clause]
    //@  attr #[verifier::loop_isolation(false)]
    //@  requires
    //@    old(self).wf(), old(metrics).backend_bout + old(self).frontend_buffer.inner.verif_bytes@.len() <= usize::MAX,
    //@  ensures
    //@    final(self).wf() && final(self).same_socket_presence(old(self)),
    //@    final(self).relay_up() == old(self).relay_up(),                                              // [bytes-only-move-from-the-queue-to-the-backend-socket-in-order]
    //@    final(self).back_sent().len() >= old(self).back_sent().len(),                                // [nothing-is-unsent]
    //@    final(self).frontend.received() == old(self).frontend.received() && final(self).relay_down() == old(self).relay_down()
    //@      && final(self).back_received() == old(self).back_received(),                               // [the-other-direction-is-untouched]
    //@  loop 0
    //@    invariant
    //@      self.frontend_buffer.wf() && self.backend_buffer == old(self).backend_buffer && self.frontend == old(self).frontend,
    //@      old(self).backend_socket is Some,
    //@      backend.sent() + self.frontend_buffer@ == old(self).relay_up(),
    //@      backend.sent().len() >= old(self).back_sent().len(),
    //@      backend.received() == old(self).back_received(),
    //@      sz <= output_size && sz + self.frontend_buffer@.len() == output_size && output_size <= self.frontend_buffer.inner.verif_bytes@.len(),
    //@      self.frontend_buffer.inner.verif_bytes@.len() == old(self).frontend_buffer.inner.verif_bytes@.len(),
    //@      metrics.backend_bout == old(metrics).backend_bout,
    //@      old(self).wf() && old(metrics).backend_bout + old(self).frontend_buffer.inner.verif_bytes@.len() <= usize::MAX,
    //@end

    // backend -> sozu --------------------------------------------------------------------------
    //@fn lib/src/protocol/pipe.rs Pipe::backend_readable
    //@  ret r
    //@  requires
    //@    old(self).wf(), old(metrics).backend_bin + old(self).backend_buffer.inner.verif_bytes@.len() <= usize::MAX,
    //@  ensures
    //@    final(self).wf() && final(self).same_socket_presence(old(self)),
    //@    final(self).back_received().len() >= old(self).back_received().len()
    //@      && final(self).back_received().subrange(0, old(self).back_received().len() as int) == old(self).back_received()
    //@      && final(self).relay_down() == old(self).relay_down() + final(self).back_received().subrange(old(self).back_received().len() as int, final(self).back_received().len() as int), // [what-the-backend-socket-delivered-joins-the-downstream-relay-at-the-end-exactly]
    //@    final(self).frontend.sent() == old(self).frontend.sent(),                                    // [reading-sends-nothing]
    //@    final(self).relay_up() == old(self).relay_up() && final(self).frontend.received() == old(self).frontend.received(), // [the-other-direction-is-untouched]
    //@end

    // sozu -> client ---------------------------------------------------------------------------
    //@fn lib/src/protocol/pipe.rs Pipe::writable
    //@  ret r
    //@  attr #[verifier::exec_allows_no_decreases_clause]
    //@  requires
    //@    old(self).wf(), old(metrics).bout + old(self).backend_buffer.inner.verif_bytes@.len() <= usize::MAX,
    //@  ensures
    //@    final(self).wf() && final(self).same_socket_presence(old(self)),
    //@    final(self).relay_down() == old(self).relay_down(),                                          // [bytes-only-move-from-the-queue-to-the-client-socket-in-order]
    //@    final(self).frontend.sent().len() >= old(self).frontend.sent().len(),                        // [nothing-is-unsent]
    //@    final(self).back_received() == old(self).back_received() && final(self).relay_up() == old(self).relay_up()
    //@      && final(self).frontend.received() == old(self).frontend.received(),                       // [the-other-direction-is-untouched]
    //@  loop 0
    //@    invariant
    //@      self.backend_buffer.wf() && self.frontend_buffer == old(self).frontend_buffer && self.backend_socket == old(self).backend_socket,
    //@      self.frontend.sent() + self.backend_buffer@ == old(self).relay_down(),
    //@      self.frontend.sent().len() >= old(self).frontend.sent().len(),
    //@      self.frontend.received() == old(self).frontend.received(),
    //@      sz <= queued_total && sz + self.backend_buffer@.len() == queued_total && queued_total <= self.backend_buffer.inner.verif_bytes@.len(),
    //@      self.backend_buffer.inner.verif_bytes@.len() == old(self).backend_buffer.inner.verif_bytes@.len(),
    //@      metrics.bout == old(metrics).bout,
    //@      old(self).wf() && old(metrics).bout + old(self).backend_buffer.inner.verif_bytes@.len() <= usize::MAX,
    //@end
}

} // verus!
fn main() {}
