// Unit U-tcptrack — lib/src/tcp.rs: the per-(cluster, source IP) slot of a TCP session (C16)
// Property sentence -> contract: "resources return to baseline and admission limits are never exceeded": a TCP session
// takes a slot of its (cluster, source IP) pair in TcpSession::connect_to_backend and gives it back in close(); the only
// link between the two is the flag `cluster_ip_tracked` (close() releases only when it is set). So:
//   connect_to_backend (the admission region, on EVERY exit, Ok or Err): a slot was taken  ==>  the flag is set (or the
//       slot was given back at once); the Ok exit is judged where the region ends (the socket wiring that follows has no
//       fallible exit, but a flag set only there is reported);
//       at the limit nothing is taken and the connection is refused;
//   close (the release region): flag set ==> untrack_all_cluster_ip(frontend_token) is called and the flag cleared.
// Regions are cut out of the real functions: connect_to_backend from the limit lookup to the backend selection
// (the prologue — cluster lookup, retry ceiling, capacity — and the socket wiring after the selection are dropped);
// close() from the release statement to the gauges. Hand-written: narrowed structs; the Rc<RefCell<..>> chains that
// reach the session manager / the backend map are replaced by shims with ghost logs (printed R6 substitutions).
use vstd::prelude::*;
verus! {

#[derive(PartialEq, Eq, Structural, Clone, Copy)]
pub struct Token(pub usize);
#[verifier::external_body] pub struct IpAddr { _p: () }
#[verifier::external_body] pub struct BackendError { _p: () }
#[verifier::external_body] pub struct BackendAndStream { _p: () }
pub enum BackendConnectAction { New, Reuse, Replace }
pub enum BackendConnectionError { Backend(BackendError), TooManyConnectionsPerIp { cluster_id: String }, Other }

// SessionManager behind proxy.sessions (Rc<RefCell<..>>): its three per-(cluster, IP) operations, with ghost logs
pub struct Sessions { pub verif_tracked: Ghost<Seq<Token>>, pub verif_untracked: Ghost<Seq<Token>>, pub verif_rest: SessionsRest }
#[verifier::external_body] pub struct SessionsRest { _p: () }
impl Sessions {
    pub uninterp spec fn spec_at_limit(&self, token: Token, cluster_id: &str, ip: &IpAddr, limit: Option<u64>) -> bool;
    #[verifier::external_body]
    pub fn cluster_ip_at_limit(&self, token: Token, cluster_id: &str, ip: &IpAddr, override_value: Option<u64>) -> (r: bool)
        ensures r == self.spec_at_limit(token, cluster_id, ip, override_value) { unimplemented!() }
    #[verifier::external_body]
    pub fn track_cluster_ip(&mut self, token: Token, cluster_id: String, ip: IpAddr)
        ensures final(self).verif_tracked@ == old(self).verif_tracked@.push(token), final(self).verif_untracked@ == old(self).verif_untracked@ { unimplemented!() }
    #[verifier::external_body]
    pub fn untrack_all_cluster_ip(&mut self, token: Token)
        ensures final(self).verif_untracked@ == old(self).verif_untracked@.push(token), final(self).verif_tracked@ == old(self).verif_tracked@ { unimplemented!() }
}
#[verifier::external_body] pub struct Metrics { _p: () }
impl Metrics { #[verifier::external_body] pub fn service_stop(&mut self) { unimplemented!() } }

pub struct TcpSession { pub frontend_token: Token, pub cluster_ip_tracked: bool, pub has_been_closed: bool, pub verif_sessions: Sessions, pub metrics: Metrics, pub verif_rest: SessionRest }
#[verifier::external_body] pub struct SessionRest { _p: () }
impl TcpSession {
    // `self.proxy.borrow().configs.get(&cluster_id).and_then(|c| c.max_connections_per_ip)`
    #[verifier::external_body] pub fn verif_cluster_limit(&self, cluster_id: &String) -> Option<u64> { unimplemented!() }
    // `self.effective_session_address().map(|sa| sa.ip())`
    #[verifier::external_body] pub fn verif_session_ip(&self) -> Option<IpAddr> { unimplemented!() }
    // `self.proxy.borrow().backends.borrow_mut().backend_from_cluster_id(&cluster_id)`: fallible (no backend, connect error)
    #[verifier::external_body] pub fn verif_backend_from_cluster_id(&self, cluster_id: &String) -> Result<BackendAndStream, BackendError> { unimplemented!() }

    //@fn lib/src/tcp.rs TcpSession::connect_to_backend
    //@  rename connect_to_backend_admission_region
    //@  ret r
    //@  sig "session_rc: Rc<RefCell<dyn ProxySession>>," => "cluster_id: String,"
    //@  cut "@start" .. "let cluster_max_connections_per_ip = self" => "\n        "
    //@  resubst "let cluster_max_connections_per_ip = self\\s*\\.proxy\\s*\\.borrow\\(\\)\\s*\\.configs\\s*\\.get\\(&cluster_id\\)\\s*\\.and_then\\(\\|c\\| c\\.max_connections_per_ip\\);" => "let cluster_max_connections_per_ip = self.verif_cluster_limit(&cluster_id);"
    //@  resubst "self\\.effective_session_address\\(\\)\\.map\\(\\|sa\\| sa\\.ip\\(\\)\\)" => "self.verif_session_ip()"
    //@  resubst "let sessions_rc = self\\.proxy\\.borrow\\(\\)\\.sessions\\.clone\\(\\);" => ""
    //@  resubst "sessions_rc\\s*\\.borrow\\(\\)\\s*\\.cluster_ip_at_limit\\(" => "self.verif_sessions.cluster_ip_at_limit("
    //@  resubst "sessions_rc\\s*\\.borrow_mut\\(\\)\\s*\\.track_cluster_ip\\(" => "self.verif_sessions.track_cluster_ip("
    //@  resubst "let \\(backend, mut stream\\) = self\\s*\\.proxy\\s*\\.borrow\\(\\)\\s*\\.backends\\s*\\.borrow_mut\\(\\)\\s*\\.backend_from_cluster_id\\(&cluster_id\\)\\s*\\.map_err\\(BackendConnectionError::Backend\\)\\?;" => "let verif_backend = match self.verif_backend_from_cluster_id(&cluster_id) { Ok(v) => v, Err(e) => { return Err(BackendConnectionError::Backend(e)); } };"
    //@  cut "if let Err(e) = stream.set_nodelay(true) {" .. "\n    }" => "Ok(BackendConnectAction::New)"
    //@  ensures
    //@    final(self).verif_sessions.verif_tracked@.len() > old(self).verif_sessions.verif_tracked@.len() ==> (final(self).cluster_ip_tracked || final(self).verif_sessions.verif_untracked@.len() > old(self).verif_sessions.verif_untracked@.len()), // [a-session-that-took-a-slot-is-marked-as-owning-one-on-every-exit-or-has-given-it-back]
    //@    final(self).verif_sessions.verif_tracked@ == old(self).verif_sessions.verif_tracked@ || final(self).verif_sessions.verif_tracked@ == old(self).verif_sessions.verif_tracked@.push(old(self).frontend_token), // [at-most-one-slot-is-taken-and-under-the-sessions-own-token]
    //@    (r matches Err(BackendConnectionError::TooManyConnectionsPerIp { .. })) ==> final(self).verif_sessions.verif_tracked@ == old(self).verif_sessions.verif_tracked@, // [a-refused-connection-takes-no-slot]
    //@    old(self).cluster_ip_tracked ==> final(self).cluster_ip_tracked,                                                           // [an-owned-slot-is-never-disowned-here]
    //@end

    //@fn lib/src/tcp.rs ProxySession for TcpSession::close
    //@  rename close_release_region
    //@  cut "@start" .. "self.metrics.service_stop();" => "\n        "
    //@  resubst "self\\.proxy\\s*\\.borrow\\(\\)\\s*\\.sessions\\s*\\.borrow_mut\\(\\)\\s*\\.untrack_all_cluster_ip\\(" => "self.verif_sessions.untrack_all_cluster_ip("
    //@  cut "match self.state.marker() {\n            StateMarker::Pipe => gauge_add!" .. "\n    }" => ""
    //@  ensures
    //@    old(self).cluster_ip_tracked ==> final(self).verif_sessions.verif_untracked@ == old(self).verif_sessions.verif_untracked@.push(old(self).frontend_token), // [closing-a-session-that-owns-a-slot-releases-it]
    //@    !final(self).cluster_ip_tracked,                                                             // [a-closed-session-owns-no-slot]
    //@    final(self).verif_sessions.verif_tracked@ == old(self).verif_sessions.verif_tracked@,
    //@end
}

} // verus!
fn main() {}
