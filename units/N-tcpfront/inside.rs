    // Bounded native enumeration for C08, worker side (unit N-tcpfront): the REAL TcpProxy (add_tcp_front / remove_tcp_front),
    // appended as a test module to tcp.rs in a scratch copy (the proxy's listener map is private). "The workers converge": after
    // every command the main process can send — AddTcpFrontend(cluster @ listener); RemoveTcpFrontend of a frontend that is
    // configured — each live TCP listener must forward to exactly the cluster of the frontend configured on it, and to none
    // once that frontend is removed, whatever other listeners the same cluster is (or was) configured on.
    use sozu_command::proto::command::SocketAddress as ProtoAddr;

    #[derive(Clone, Copy, Debug)]
    enum Op { Add(usize, usize), Remove(usize) }   // (cluster, listener) / listener

    #[test]
    fn enumerate() {
        let args = std::env::var("VERIF_NATIVE_ARGS").unwrap_or_default();
        let depth = if args.contains("thorough") { 6 } else { 5 };
        let clusters = ["c1", "c2"];
        let addrs = [ProtoAddr::new_v4(127, 0, 0, 1, 15001), ProtoAddr::new_v4(127, 0, 0, 1, 15002)];
        let mut ops: Vec<Op> = Vec::new();
        for c in 0..2 { for l in 0..2 { ops.push(Op::Add(c, l)); } }
        for l in 0..2 { ops.push(Op::Remove(l)); }
        let nops = ops.len();
        let total = nops.pow(depth as u32);
        let (mut n, mut nontrivial, mut fails): (u64, u64, Vec<(String, String)>) = (0, 0, Vec::new());
        let poll = mio::Poll::new().expect("poll");
        'all: for k in 0..total {
            let mut x = k;
            let seq: Vec<Op> = (0..depth).map(|_| { let o = ops[x % nops]; x /= nops; o }).collect();
            let sessions = crate::server::SessionManager::new(slab::Slab::new(), 100, 0, 0);
            let pool = Rc::new(RefCell::new(crate::pool::Pool::with_capacity(1, 2, 16384)));
            let backends = Rc::new(RefCell::new(BackendMap::new()));
            let mut proxy = TcpProxy::new(poll.registry().try_clone().expect("registry"), sessions, pool, backends);
            for (i, a) in addrs.iter().enumerate() {
                let cfg = sozu_command::config::ListenerBuilder::new_tcp(*a).to_tcp(None).expect("tcp listener config");
                proxy.add_listener(cfg, Token(10 + i)).expect("add listener");
            }
            let mut model: [Option<usize>; 2] = [None, None];
            n += 1;
            for (step, op) in seq.iter().enumerate() {
                match *op {
                    Op::Add(c, l) => {
                        let r = proxy.add_tcp_front(RequestTcpFrontend { cluster_id: clusters[c].into(), address: addrs[l], tags: Default::default() });
                        if r.is_err() { fails.push((format!("{seq:?}"), format!("step {step}: AddTcpFrontend({} @ listener {l}) was refused", clusters[c]))); break 'all; }
                        model[l] = Some(c);
                    }
                    Op::Remove(l) => {
                        // the main process only sends the removal of a frontend it holds
                        let Some(c) = model[l] else { continue };
                        nontrivial += 1;
                        let r = proxy.remove_tcp_front(RequestTcpFrontend { cluster_id: clusters[c].into(), address: addrs[l], tags: Default::default() });
                        if r.is_err() { fails.push((format!("{seq:?}"), format!("step {step}: RemoveTcpFrontend({} @ listener {l}) of a configured frontend was refused", clusters[c]))); break 'all; }
                        model[l] = None;
                    }
                }
                for l in 0..2 {
                    let got = proxy.listeners.get(&Token(10 + l)).unwrap().borrow().cluster_id.clone();
                    let want = model[l].map(|c| clusters[c].to_string());
                    if got != want {
                        fails.push((format!("{seq:?}"), format!("after step {step} ({op:?}): listener {l} forwards to {got:?}, the frontends configured say {want:?}")));
                        break 'all;
                    }
                }
            }
        }
        let fl: Vec<String> = fails.iter().map(|(i, o)| format!("{{\"input\": {:?}, \"observed\": {:?}}}", i, o)).collect();
        println!("{{\"bound\": \"every history of {depth} operations over 2 clusters x 2 TCP listeners (add a frontend, remove the configured one)\", \"states\": {n}, \"pairs\": {n}, \"nontrivial_pairs\": {nontrivial}, \"failures\": [{}]}}", fl.join(", "));
    }
