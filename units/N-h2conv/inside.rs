    // Bounded native enumeration for C14 / C01 (unit N-h2conv): the REAL H2BlockConverter (initialize / call / finalize, all
    // arms) driven by the REAL kawa (H1 parser -> blocks -> prepare -> out), appended as a test module to converter.rs
    // in a scratch copy of the tree. For every case of {message kind} x {header block size} x {body framing and chunk
    // sizes} x {max_frame_size} x {send-window schedule} x {incremental yes / no, peers} the message is converted in
    // rounds, like write_streams does: set converter.window, kawa.prepare(&mut converter), take everything from
    // kawa.out; the window schedule says what the window is at the start of each round. The wire image is then parsed
    // frame by frame and checked:
    //   limits    every frame payload <= max_frame_size; the DATA octets of a round <= max(window, 0) at its start and
    //             the converter's window is debited by exactly that amount; nothing is sent on a window <= 0;
    //   framing   HEADERS first, then only CONTINUATIONs until END_HEADERS (set on the last one only), all on the same
    //             stream; END_STREAM exactly once, on the last frame of the message;
    //   integrity the DATA payloads concatenated are exactly the body; the HPACK-decoded header block is exactly the
    //             message's header list (lower-cased; Connection / Proxy-Connection / Keep-Alive / Transfer-Encoding in any
    //             spelling removed);
    //   progress  a round that starts with window > 0 and body left emits at least one DATA octet, and the message
    //             completes within the rounds its schedule needs.
    use kawa::{Buffer, Kind, SliceBuffer, OutBlock};

    #[derive(Clone, Debug)]
    struct Case { request: bool, big_headers: usize, chunked: bool, chunks: Vec<usize>, mfs: usize, schedule: Vec<i32>, incremental: bool, peers: usize }

    fn body_byte(i: usize) -> u8 { (i % 251) as u8 ^ 0x5a }

    fn build_message(c: &Case) -> (Vec<u8>, Vec<u8>, Vec<(String, String)>) {
        let total: usize = c.chunks.iter().sum();
        let body: Vec<u8> = (0..total).map(body_byte).collect();
        let mut msg = Vec::new();
        let mut want: Vec<(String, String)> = Vec::new();
        if c.request {
            msg.extend_from_slice(b"POST /upload/x?y=1 HTTP/1.1\r\nHost: a.example\r\n");
            want.push((":method".into(), "POST".into()));
            want.push((":authority".into(), "a.example".into()));
            want.push((":path".into(), "/upload/x?y=1".into()));
            want.push((":scheme".into(), "https".into()));
        } else {
            msg.extend_from_slice(b"HTTP/1.1 200 OK\r\n");
            want.push((":status".into(), "200".into()));
        }
        // connection-specific fields (RFC 9113 §8.2.2) in several spellings: none may cross into HTTP/2
        msg.extend_from_slice(b"X-First: one\r\nConnection: keep-alive\r\nProxy-Connection: keep-alive\r\nKeep-Alive: timeout=5\r\nkeep-alive: max=3\r\nPROXY-CONNECTION: close\r\nproxy-connection: x\r\nCONNECTION: x-first-not\r\n");
        want.push(("x-first".into(), "one".into()));
        for k in 0..c.big_headers {
            let v: String = (0..7000).map(|i| (b'a' + ((i + k) % 26) as u8) as char).collect();
            msg.extend_from_slice(format!("X-Pad-{k}: {v}\r\n").as_bytes());
            want.push((format!("x-pad-{k}"), v));
        }
        if c.chunked {
            msg.extend_from_slice(b"Transfer-Encoding: chunked\r\n\r\n");
            let mut off = 0;
            for &n in &c.chunks {
                if n == 0 { continue; }
                msg.extend_from_slice(format!("{n:x}\r\n").as_bytes());
                msg.extend_from_slice(&body[off..off + n]);
                msg.extend_from_slice(b"\r\n");
                off += n;
            }
            msg.extend_from_slice(b"0\r\n\r\n");
        } else {
            msg.extend_from_slice(format!("Content-Length: {total}\r\n\r\n").as_bytes());
            want.push(("content-length".into(), total.to_string()));
            msg.extend_from_slice(&body);
        }
        (msg, body, want)
    }

    struct Frame { ty: u8, flags: u8, sid: u32, payload: Vec<u8> }
    fn parse_frames(wire: &[u8]) -> Result<Vec<Frame>, String> {
        let mut v = Vec::new();
        let mut i = 0;
        while i < wire.len() {
            if wire.len() - i < 9 { return Err(format!("{} trailing octets that are not a frame header", wire.len() - i)); }
            let len = ((wire[i] as usize) << 16) | ((wire[i + 1] as usize) << 8) | wire[i + 2] as usize;
            let (ty, flags) = (wire[i + 3], wire[i + 4]);
            let sid = u32::from_be_bytes([wire[i + 5], wire[i + 6], wire[i + 7], wire[i + 8]]);
            if wire.len() - i - 9 < len { return Err(format!("frame type {ty} declares {len} octets, only {} follow", wire.len() - i - 9)); }
            v.push(Frame { ty, flags, sid, payload: wire[i + 9..i + 9 + len].to_vec() });
            i += 9 + len;
        }
        Ok(v)
    }

    fn run_case(c: &Case) -> Result<(), String> {
        let (msg, body, want) = build_message(c);
        let mut buf = vec![0u8; msg.len() + 64];
        let mut kawa = Kawa::new(if c.request { Kind::Request } else { Kind::Response }, Buffer::new(SliceBuffer(&mut buf[..])));
        kawa.storage.space()[..msg.len()].copy_from_slice(&msg);
        kawa.storage.fill(msg.len());
        kawa::h1::parse(&mut kawa, &mut kawa::h1::NoCallbacks);
        if kawa.is_error() || !kawa.is_terminated() { return Err(format!("driver: kawa did not parse the message to its end (phase {:?})", kawa.parsing_phase)); }
        // what handle_data_frame / h1 readable do at the end of a message: the closing flags carry end_stream
        if let Some(Block::Flags(f)) = kawa.blocks.back_mut() { f.end_stream = true; } else { return Err("driver: last block is not Flags".into()); }
        let mut encoder = loona_hpack::Encoder::new();
        let mut conv = H2BlockConverter {
            max_frame_size: c.mfs, window: 0, stream_id: 5, encoder: &mut encoder, out: Vec::new(), scheme: b"https",
            lowercase_buf: Vec::new(), cookie_buf: Vec::new(), position_is_client: c.request, incremental_mode: c.incremental,
            incremental_peer_count: c.peers, pending_table_size_update: None, size_update_emitted: false, pending_oversized_abort: false,
        };
        let mut wire: Vec<u8> = Vec::new();
        let mut sent_data = 0usize;
        let mut rounds = 0usize;
        let max_rounds = 40 + 4 * (body.len() / 1usize.max(c.schedule.iter().copied().filter(|w| *w > 0).min().unwrap_or(1) as usize).min(c.mfs) + 1) * c.schedule.len();
        while !kawa.is_completed() {
            if rounds > max_rounds { return Err(format!("the message does not complete: after {rounds} rounds {} of {} body octets are out and {} blocks remain", sent_data, body.len(), kawa.blocks.len())); }
            let w = c.schedule[rounds % c.schedule.len()];
            rounds += 1;
            conv.window = w;
            let headers_pending = kawa.blocks.iter().any(|b| matches!(b, Block::StatusLine | Block::Header(_) | Block::Flags(Flags { end_header: true, .. })));
            kawa.prepare(&mut conv);
            let mut round_bytes: Vec<u8> = Vec::new();
            for ob in kawa.out.iter() { if let OutBlock::Store(s) = ob { round_bytes.extend_from_slice(s.data(kawa.storage.buffer())); } }
            let n = round_bytes.len();
            kawa.consume(n);
            if !kawa.out.is_empty() { kawa.out.clear(); }
            let frames = parse_frames(&round_bytes).map_err(|e| format!("round {rounds}: {e}"))?;
            let data_now: usize = frames.iter().filter(|f| f.ty == 0).map(|f| f.payload.len()).sum();
            if data_now > 0 && (w <= 0 || data_now > w as usize) { return Err(format!("round {rounds}: {data_now} DATA octets were sent on a send window of {w}")); }
            if conv.window != w - data_now as i32 { return Err(format!("round {rounds}: window {w}, {data_now} DATA octets sent, converter window afterwards {} (must be debited by exactly the octets sent)", conv.window)); }
            if !headers_pending && w > 0 && sent_data < body.len() && data_now == 0 { return Err(format!("round {rounds}: window {w} > 0 and {} body octets left, but no DATA was emitted (the transfer does not move)", body.len() - sent_data)); }
            sent_data += data_now;
            wire.extend_from_slice(&round_bytes);
        }
        let frames = parse_frames(&wire)?;
        if frames.is_empty() { return Err("nothing was emitted".into()); }
        for (k, f) in frames.iter().enumerate() {
            if f.payload.len() > c.mfs { return Err(format!("frame #{k} (type {}) carries {} octets, max_frame_size is {}", f.ty, f.payload.len(), c.mfs)); }
            if f.sid != 5 { return Err(format!("frame #{k} is on stream {}, the converter was given stream 5", f.sid)); }
        }
        if frames[0].ty != 1 { return Err(format!("the first frame has type {}, expected HEADERS", frames[0].ty)); }
        let mut block = frames[0].payload.clone();
        let mut k = 1;
        let mut end_headers = frames[0].flags & 0x4 != 0;
        while !end_headers {
            if k >= frames.len() || frames[k].ty != 9 { return Err(format!("HEADERS without END_HEADERS is followed by frame type {:?}, not CONTINUATION", frames.get(k).map(|f| f.ty))); }
            if frames[k].flags & 0x1 != 0 { return Err("a CONTINUATION frame carries END_STREAM".into()); }
            block.extend_from_slice(&frames[k].payload);
            end_headers = frames[k].flags & 0x4 != 0;
            k += 1;
        }
        let mut got: Vec<(String, String)> = Vec::new();
        let mut dec = loona_hpack::Decoder::new();
        dec.decode_with_cb(&block, |n, v| got.push((String::from_utf8_lossy(&n).into_owned(), String::from_utf8_lossy(&v).into_owned())))
            .map_err(|e| format!("the header block does not decode: {e:?}"))?;
        if got != want {
            let gs: Vec<(String, usize)> = got.iter().map(|(n, v)| (n.clone(), v.len())).collect();
            let ws: Vec<(String, usize)> = want.iter().map(|(n, v)| (n.clone(), v.len())).collect();
            return Err(format!("header list on the wire (name, value length) {gs:?} differs from the message's {ws:?}"));
        }
        let mut data: Vec<u8> = Vec::new();
        for f in &frames[k..] {
            if f.ty != 0 { return Err(format!("frame type {} after the header block (only DATA expected)", f.ty)); }
            data.extend_from_slice(&f.payload);
        }
        if data != body {
            let first = data.iter().zip(body.iter()).position(|(a, b)| a != b).unwrap_or(data.len().min(body.len()));
            return Err(format!("the DATA payloads ({} octets) are not the body ({} octets); first difference at offset {first}", data.len(), body.len()));
        }
        let es: Vec<usize> = frames.iter().enumerate().filter(|(_, f)| (f.ty == 0 || f.ty == 1) && f.flags & 0x1 != 0).map(|(i, _)| i).collect();
        let last_es_carrier = if frames.len() > k { frames.len() - 1 } else { 0 };
        if es != vec![last_es_carrier] { return Err(format!("END_STREAM is carried by frames {es:?} of {}; expected exactly the last frame of the message (#{last_es_carrier})", frames.len())); }
        Ok(())
    }

    #[test]
    fn enumerate() {
        let args = std::env::var("VERIF_NATIVE_ARGS").unwrap_or_default();
        let thorough = args.contains("thorough");
        let chunk_sets: Vec<Vec<usize>> = if thorough {
            vec![vec![], vec![1], vec![9], vec![16383], vec![16384], vec![16385], vec![32768], vec![40000], vec![5, 3, 1], vec![16384, 1], vec![1, 16384, 16384], vec![70000], vec![100, 20000, 7, 33000]]
        } else {
            vec![vec![], vec![1], vec![16384], vec![16385], vec![5, 3, 1], vec![1, 16384, 16384], vec![40000]]
        };
        let mfss: Vec<usize> = if thorough { vec![16384, 16385, 20000, 65536, (1 << 24) - 1] } else { vec![16384, 20000, (1 << 24) - 1] };
        let schedules: Vec<Vec<i32>> = if thorough {
            vec![vec![65535], vec![1 << 30], vec![1], vec![9], vec![16384], vec![16385], vec![0, 5], vec![-7, 0, 3], vec![16383, 0, 1], vec![3, 20000], vec![i32::MAX]]
        } else {
            vec![vec![65535], vec![1], vec![16385], vec![-7, 0, 3], vec![3, 20000], vec![i32::MAX]]
        };
        let (mut n, mut fails): (u64, Vec<(String, String)>) = (0, Vec::new());
        'all: for request in [false, true] {
            for big_headers in [0usize, 3, 8] {
                for chunked in [false, true] {
                    for chunks in &chunk_sets {
                        if chunked && chunks.is_empty() && !thorough { continue; }
                        for &mfs in &mfss {
                            for schedule in &schedules {
                                if chunks.iter().sum::<usize>() > 20000 && schedule.iter().all(|w| *w < 100) && !thorough { continue; }
                                for (incremental, peers) in [(false, 0usize), (true, 1), (true, 2)] {
                                    let c = Case { request, big_headers, chunked, chunks: chunks.clone(), mfs, schedule: schedule.clone(), incremental, peers };
                                    n += 1;
                                    let r = std::panic::catch_unwind(|| run_case(&c));
                                    let r = match r { Ok(r) => r, Err(e) => Err(format!("the real code panicked: {}", e.downcast_ref::<String>().cloned().or_else(|| e.downcast_ref::<&str>().map(|s| s.to_string())).unwrap_or_default())) };
                                    if let Err(obs) = r {
                                        fails.push((format!("{c:?}"), obs));
                                        if fails.len() >= 3 { break 'all; }
                                    }
                                }
                            }
                        }
                    }
                }
            }
        }
        let fl: Vec<String> = fails.iter().map(|(i, o)| format!("{{\"input\": {:?}, \"observed\": {:?}}}", i, o)).collect();
        println!("{{\"bound\": \"requests and responses x header blocks of 0 / 3 / 8 seven-kilobyte fields x Content-Length and chunked bodies with {} chunk-size sets (0 .. 70000 octets) x {} max_frame_size values x {} send-window schedules x 3 incremental settings, converted in rounds\", \"states\": {n}, \"pairs\": {n}, \"nontrivial_pairs\": {n}, \"failures\": [{}]}}", chunk_sets.len(), mfss.len(), schedules.len(), fl.join(", "));
    }
