// Unit U-h1reset — lib/src/protocol/mux/h1.rs: the keep-alive reset of the stream slot in ConnectionH1::writable (C02)
// Property sentence -> contract: "every request ... is answered exactly once ..., either the backend's response relayed
// intact ..." and "a failure of one request never corrupts ... other requests on the same connection": the slot of an
// HTTP/1.1 connection serves one request after the other; once an answer is complete and the connection is kept alive,
// the slot must carry NOTHING of the answered message into the next one — state Idle, no retry count, both kawa
// buffers reset, and the per-message end-of-stream / received-octet bookkeeping cleared (F26: a stale
// back_received_end_of_stream made an h2c backend's next answer be refused, 502).
// The region is cut out of the real function: from the statement that re-borrows the slot to the last assertion of
// the reset (the writable prologue, the access log, the detaching of the backend and the pipelining re-parse that
// follow are dropped). Hand-written: narrowed structs, shims for kawa.
use vstd::prelude::*;
use std::marker::PhantomData;
verus! {
global layout usize is size == 8;

pub type GlobalStreamId = usize;
#[derive(PartialEq, Eq, Structural, Clone, Copy)]
pub enum StreamState { Idle, Link, Linked, Unlinked, Recycle }
// HttpContext::reset (kawa_h1/editor.rs, outside this unit): forgets the request / response line of the message
pub struct HttpContext { pub verif_reset: Ghost<bool> }
impl HttpContext { pub fn reset(&mut self) ensures final(self).verif_reset@ { proof { self.verif_reset@ = true; } } }
// kawa::Kawa and its storage (external crate): clear() returns the parser to its initial state / empties the buffer
pub struct Storage { pub verif_empty: Ghost<bool> }
impl Storage {
    pub fn clear(&mut self) ensures final(self).verif_empty@ { proof { self.verif_empty@ = true; } }
    #[verifier::external_body] pub fn is_empty(&self) -> (r: bool) ensures r == self.verif_empty@ { unimplemented!() }
}
pub struct Kawa { pub storage: Storage, pub verif_initial: Ghost<bool> }
impl Kawa { pub fn clear(&mut self) ensures final(self).verif_initial@, final(self).storage == old(self).storage { proof { self.verif_initial@ = true; } } }
pub struct Stream {
    pub state: StreamState, pub attempts: u8, pub request_counted: bool,
    pub front_received_end_of_stream: bool, pub back_received_end_of_stream: bool,
    pub front_data_received: usize, pub back_data_received: usize,
    pub context: HttpContext, pub front: Kawa, pub back: Kawa,
}
pub struct Context<L> { pub streams: Vec<Stream>, pub verif_listener: PhantomData<L> }
pub trait ListenerHandler {}
pub trait L7ListenerHandler {}
pub struct ConnectionH1 { pub verif_rest: () }
impl ConnectionH1 {
    //@fn lib/src/protocol/mux/h1.rs ConnectionH1::writable
    //@  rename writable_keep_alive_reset
    //@  sig "writable<E, L>(&mut self, context: &mut Context<L>, mut endpoint: E) -> MuxResult" => "writable<L>(&mut self, context: &mut Context<L>, stream_id: GlobalStreamId)"
    //@  sig "where\n        E: Endpoint,\n        L: ListenerHandler + L7ListenerHandler," => "where\n        L: ListenerHandler + L7ListenerHandler,"
    //@  cut "@start" .. "let stream = &mut context.streams[stream_id];\n                        stream.context.reset();" => "\n        if true {\n                        "
    //@  cut "if !stream.front.storage.is_empty() {\n                            kawa::h1::parse(" .. "\n    }" => "}"
    //@  requires
    //@    stream_id < old(context).streams@.len(),
    //@    !old(context).streams@[stream_id as int].request_counted,    // cleared by generate_access_log, just before (outside the region)
    //@  ensures
    //@    final(context).streams@.len() == old(context).streams@.len(),
    //@    ({ let s = final(context).streams@[stream_id as int];
    //@       !s.front_received_end_of_stream && !s.back_received_end_of_stream && s.front_data_received == 0 && s.back_data_received == 0 }), // [the-slot-carries-no-end-of-stream-or-received-octet-bookkeeping-of-the-answered-message]
    //@    ({ let s = final(context).streams@[stream_id as int];
    //@       s.state == StreamState::Idle && s.attempts == 0 && s.context.verif_reset@ && s.front.verif_initial@ && s.back.verif_initial@ && s.back.storage.verif_empty@ }), // [the-slot-is-idle-with-both-parsers-reset-and-the-response-storage-empty]
    //@    final(context).streams@[stream_id as int].front.storage == old(context).streams@[stream_id as int].front.storage, // [pipelined-request-octets-already-read-are-kept]
    //@    forall|k: int| 0 <= k < old(context).streams@.len() && k != stream_id ==> (#[trigger] final(context).streams@[k]) == old(context).streams@[k], // [no-other-slot-is-touched]
    //@end
}

} // verus!
fn main() {}
