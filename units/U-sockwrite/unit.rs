// Unit U-sockwrite — lib/src/socket.rs plain-TCP read/write loops (serves C01 and C18: "byte-exact ... no truncation,
// duplication, corruption or reordering")
// Contract with a ghost byte log on the stream: the loop hands the kernel exactly the prefix buf[..n] it reports,
// in order, nothing twice, nothing skipped; a Continue status with n < |buf| only when the kernel accepted 0 bytes;
// the loop is bounded by MAX_LOOP_ITERATIONS (terminates).
use vstd::prelude::*;
verus! {

pub enum ErrorKind { WouldBlock, ConnectionReset, ConnectionAborted, BrokenPipe, ConnectionRefused, HostUnreachable, NetworkUnreachable, TimedOut, NotConnected, Other }
#[verifier::external_body] pub struct IoError { _p: () }
impl IoError { #[verifier::external_body] pub fn kind(&self) -> ErrorKind { unimplemented!() } }
#[verifier::external_body] #[derive(Clone, Copy)] pub struct Ulid { _p: () }
#[verifier::external_body] #[derive(Clone, Copy)] pub struct SocketAddr { _p: () }

// mio::net::TcpStream with ghost logs of the bytes the kernel accepted / delivered (ASSUMED contracts of write/read)
#[verifier::external_body] pub struct TcpStream { _p: () }
impl TcpStream {
    pub uninterp spec fn sent(&self) -> Seq<u8>;
    pub uninterp spec fn received(&self) -> Seq<u8>;
    #[verifier::external_body]
    pub fn write(&mut self, buf: &[u8]) -> (r: Result<usize, IoError>)
        ensures
            final(self).received() == old(self).received(),
            r matches Ok(n) ==> n <= buf@.len() && final(self).sent() =~= old(self).sent() + buf@.subrange(0, n as int),
            r is Err ==> final(self).sent() == old(self).sent(),
    { unimplemented!() }
    // `stream.read(&mut buf[size..])`: reads into the tail of buf starting at `at` (R6: sub-slice IndexMut is outside Verus)
    #[verifier::external_body]
    pub fn verif_read_at(&mut self, buf: &mut [u8], at: usize) -> (r: Result<usize, IoError>)
        requires at <= old(buf)@.len(),
        ensures
            final(self).sent() == old(self).sent(),
            final(buf)@.len() == old(buf)@.len(),
            final(buf)@.subrange(0, at as int) =~= old(buf)@.subrange(0, at as int),
            r matches Ok(n) ==> n <= old(buf)@.len() - at
                && final(self).received() =~= old(self).received() + final(buf)@.subrange(at as int, at + n)
                && final(buf)@.subrange(at + n, old(buf)@.len() as int) =~= old(buf)@.subrange(at + n, old(buf)@.len() as int),
            r is Err ==> final(self).received() == old(self).received() && final(buf)@ == old(buf)@,
    { unimplemented!() }
}

//@item command/src/config.rs const MAX_LOOP_ITERATIONS
//@item lib/src/socket.rs enum SocketResult structural

//@fn lib/src/socket.rs tcp_socket_write
//@  ret r
//@  ensures
//@    r.0 <= buf@.len(),                                                                         // [never-more-than-offered]
//@    final(stream).sent() =~= old(stream).sent() + buf@.subrange(0, r.0 as int),               // [exactly-the-reported-prefix-in-order]
//@    final(stream).received() == old(stream).received(),                                        // [nothing-read]
//@  loop 0
//@    invariant
//@      size <= buf@.len(), 0 <= counter <= MAX_LOOP_ITERATIONS,
//@      stream.sent() =~= old(stream).sent() + buf@.subrange(0, size as int),
//@      stream.received() == old(stream).received(),
//@    decreases MAX_LOOP_ITERATIONS - counter,
//@end

//@fn lib/src/socket.rs tcp_socket_read
//@  ret r
//@  subst "stream.read(&mut buf[size..])" => "stream.verif_read_at(buf, size)"
//@  ensures
//@    r.0 <= old(buf)@.len() && final(buf)@.len() == old(buf)@.len(),                            // [never-more-than-room]
//@    final(stream).received() =~= old(stream).received() + final(buf)@.subrange(0, r.0 as int), // [delivered-bytes-are-the-reported-prefix-in-order]
//@    final(buf)@.subrange(r.0 as int, old(buf)@.len() as int) =~= old(buf)@.subrange(r.0 as int, old(buf)@.len() as int), // [rest-of-buffer-untouched]
//@    final(stream).sent() == old(stream).sent(),                                                // [nothing-sent]
//@  loop 0
//@    invariant
//@      size <= buf@.len(), buf@.len() == old(buf)@.len(), 0 <= counter <= MAX_LOOP_ITERATIONS,
//@      stream.received() =~= old(stream).received() + buf@.subrange(0, size as int),
//@      buf@.subrange(size as int, buf@.len() as int) =~= old(buf)@.subrange(size as int, buf@.len() as int),
//@      stream.sent() == old(stream).sent(),
//@    decreases MAX_LOOP_ITERATIONS - counter,
//@  before "match stream.read(&mut buf[size..]) {"
//@    let ghost verif_b0 = buf@;
//@  before "size += sz;"
//@    proof {
//@        let len = buf@.len() as int;
//@        assert forall|i: int| size + sz <= i < len implies buf@[i] == old(buf)@[i] by {
//@            assert(buf@.subrange(size + sz, len)[i - (size + sz)] == verif_b0.subrange(size + sz, len)[i - (size + sz)]);
//@            assert(verif_b0.subrange(size as int, len)[i - size] == old(buf)@.subrange(size as int, len)[i - size]);
//@        }
//@        assert forall|i: int| 0 <= i < size implies buf@[i] == verif_b0[i] by {
//@            assert(buf@.subrange(0, size as int)[i] == verif_b0.subrange(0, size as int)[i]);
//@        }
//@        assert(buf@.subrange(0, size + sz) =~= verif_b0.subrange(0, size as int) + buf@.subrange(size as int, size + sz));
//@        assert(buf@.subrange(size + sz, len) =~= old(buf)@.subrange(size + sz, len));
//@    }
//@end

} // verus!
fn main() {}
