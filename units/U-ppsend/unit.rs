// Unit U-ppsend — lib/src/protocol/proxy_protocol/send.rs: emitting the PROXY v2 header towards the backend (serves C18)
// Property sentence -> contract: "When PROXY protocol is configured the backend receives exactly one well-formed v2
// header before any payload byte, carrying the true client and listener addresses ... however the header is
// fragmented". SendProxyProtocol::back_writable is the only writer of the backend socket in this state. Contract:
//   - the header is built once, from the frontend socket's own peer (client) and local (listener) addresses, as
//     HeaderV2::new(Proxy, peer, local) serialised (K-ppv2 proves what those bytes are), and never rebuilt
//   - each call appends to the backend socket exactly header[cursor_before .. cursor_after], cursor only advances
//   - Upgrade (hand-over to the relay) is answered only when cursor == header.len(): the whole header is out
// so over any number of calls and any fragmentation the backend has received exactly header[..cursor].
// Termination of the write loop is NOT verified (a socket answering Ok(0) forever would spin it).
use vstd::prelude::*;
verus! {

global layout usize is size == 8;

//@item lib/src/lib.rs enum SessionResult structural
#[verifier::external_body] #[derive(Clone, Copy)] pub struct SocketAddr { _p: () }
#[verifier::external_body] #[derive(Clone, Copy)] pub struct Ready { _p: () }
impl Ready {
    #[verifier::external_body] pub fn remove(&mut self, o: Ready) { unimplemented!() }
    #[verifier::external_body] pub fn verif_writable() -> Ready { unimplemented!() }
}
//@global-subst "Ready::WRITABLE" => "Ready::verif_writable()"
//@item lib/src/lib.rs struct Readiness
pub struct SessionMetrics { pub backend_bout: usize }
pub enum ErrorKind { WouldBlock, Other }
#[verifier::external_body] pub struct IoError { _p: () }
impl IoError { #[verifier::external_body] pub fn kind(&self) -> ErrorKind { unimplemented!() } }

// mio TcpStream as seen here: io::Write::write with a ghost log of the bytes the kernel accepted (std contract:
// Ok(n) means the first n bytes of the buffer were written, n <= len), and the two address getters
#[verifier::external_body] pub struct TcpStream { _p: () }
impl TcpStream {
    pub uninterp spec fn sent(&self) -> Seq<u8>;
    pub uninterp spec fn spec_peer(&self) -> SocketAddr;
    pub uninterp spec fn spec_local(&self) -> SocketAddr;
    #[verifier::external_body]
    pub fn write(&mut self, buf: &[u8]) -> (r: Result<usize, IoError>)
        ensures
            final(self).spec_peer() == old(self).spec_peer() && final(self).spec_local() == old(self).spec_local(),
            match r { Ok(n) => n <= buf@.len() && final(self).sent() == old(self).sent() + buf@.subrange(0, n as int), Err(_) => final(self).sent() == old(self).sent() },
    { unimplemented!() }
    #[verifier::external_body]
    pub fn local_addr(&self) -> (r: Result<SocketAddr, IoError>) ensures r matches Ok(a) ==> a == self.spec_local() { unimplemented!() }
    #[verifier::external_body]
    pub fn peer_addr(&self) -> (r: Result<SocketAddr, IoError>) ensures r matches Ok(a) ==> a == self.spec_peer() { unimplemented!() }
}
pub trait SocketHandler {
    spec fn spec_socket(&self) -> TcpStream;
    fn socket_ref(&self) -> (r: &TcpStream) ensures *r == self.spec_socket();
}

// header.rs (serialisation proved in K-ppv2): the bytes of a v2 header are a function of (command, source, destination)
//@item lib/src/protocol/proxy_protocol/header.rs enum Command structural
pub uninterp spec fn spec_v2_bytes(c: Command, src: SocketAddr, dst: SocketAddr) -> Seq<u8>;
#[verifier::external_body] pub struct HeaderV2 { _p: () }
impl HeaderV2 {
    pub uninterp spec fn spec_bytes(&self) -> Seq<u8>;
    #[verifier::external_body]
    pub fn new(command: Command, addr_src: SocketAddr, addr_dst: SocketAddr) -> (r: HeaderV2) ensures r.spec_bytes() == spec_v2_bytes(command, addr_src, addr_dst) { unimplemented!() }
    // K-ppv2: len() == into_bytes().len(), which is 16, 28 or 52
    #[verifier::external_body]
    pub fn len(&self) -> (r: usize) ensures r == self.spec_bytes().len() && r >= 16 && r < 65536 { unimplemented!() }
}
pub enum ProxyProtocolHeader { V2(HeaderV2) }
impl ProxyProtocolHeader {
    #[verifier::external_body]
    pub fn into_bytes(&self) -> (r: Vec<u8>) ensures self matches ProxyProtocolHeader::V2(h) ==> r@ == h.spec_bytes() { unimplemented!() }
}
// `&header[self.cursor_header..]` (RangeFrom slice of a Vec; panics when the start is past the end)
#[verifier::external_body]
pub fn verif_tail(v: &Vec<u8>, from: usize) -> (r: &[u8]) requires from <= v@.len() ensures r@ == v@.subrange(from as int, v@.len() as int) { unimplemented!() }

// SendProxyProtocol narrowed to the fields back_writable touches (the real struct also has the two tokens and the request id)
pub struct SendProxyProtocol<Front: SocketHandler> {
    pub cursor_header: usize,
    pub backend_readiness: Readiness,
    pub backend: Option<TcpStream>,
    pub frontend_readiness: Readiness,
    pub frontend: Front,
    pub header: Option<Vec<u8>>,
}

impl<Front: SocketHandler> SendProxyProtocol<Front> {
    pub open spec fn back_sent(&self) -> Seq<u8> { if self.backend is Some { self.backend->0.sent() } else { Seq::empty() } }
    pub open spec fn cursor_ok(&self) -> bool { self.header matches Some(h) ==> self.cursor_header <= h@.len() }

    //@fn lib/src/protocol/proxy_protocol/send.rs SendProxyProtocol::front_socket
    //@  ret r
    //@  ensures
    //@    *r == self.frontend.spec_socket(),
    //@end

    //@fn lib/src/protocol/proxy_protocol/send.rs SendProxyProtocol::back_writable
    //@  ret r
    //@  attr #[verifier::exec_allows_no_decreases_clause]
    //@  attr #[verifier::loop_isolation(false)]
    //@  subst "socket.write(&header[self.cursor_header..])" => "socket.write(verif_tail(header, self.cursor_header))"
    //@  requires
    //@    old(self).cursor_ok(), (old(self).header is None ==> old(self).cursor_header == 0),
    //@    old(metrics).backend_bout + 65536 <= usize::MAX, (old(self).header matches Some(h) ==> h@.len() < 65536),
    //@  ensures
    //@    final(self).cursor_ok() && (final(self).backend is Some) == (old(self).backend is Some),
    //@    old(self).header matches Some(h) ==> final(self).header == Some(h),                                   // [the-header-is-never-rebuilt]
    //@    (old(self).header is None && final(self).header is Some) ==>
    //@        final(self).header->0@ == spec_v2_bytes(Command::Proxy, old(self).frontend.spec_socket().spec_peer(), old(self).frontend.spec_socket().spec_local()), // [built-from-the-true-client-and-listener-addresses]
    //@    final(self).header is None ==> final(self).back_sent() == old(self).back_sent(),                       // [nothing-is-sent-without-a-header]
    //@    final(self).header matches Some(h) ==> final(self).cursor_header >= old(self).cursor_header
    //@        && final(self).back_sent() == old(self).back_sent() + h@.subrange(old(self).cursor_header as int, final(self).cursor_header as int), // [exactly-the-next-unsent-header-bytes-are-sent-in-order]
    //@    r == SessionResult::Upgrade ==> (final(self).header matches Some(h) && final(self).cursor_header == h@.len()), // [hand-over-only-after-the-whole-header]
    //@  loop 0
    //@    invariant
    //@      self.cursor_header <= header@.len(), self.cursor_header >= old(self).cursor_header,
    //@      socket.sent() == old(self).back_sent() + header@.subrange(old(self).cursor_header as int, self.cursor_header as int),
    //@      metrics.backend_bout - old(metrics).backend_bout == self.cursor_header - old(self).cursor_header, header@.len() < 65536,
    //@end
}

} // verus!
fn main() {}
