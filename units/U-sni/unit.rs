// Unit U-sni — lib/src/protocol/mux/router.rs strict SNI binding predicate (serves C17, narrowly: its third sentence)
// Property sentence -> contract: "With strict SNI binding, a request whose authority is not covered by the certificate
// served on its connection is never routed to a backend." The router asks authority_matched_cert_name(authority,
// names-of-the-served-certificate) and answers 421 on None. Contract (RFC 6125 §6.4.3 written as a spec):
//   host = authority without a trailing ":digits" port and without ONE trailing dot
//   covers(name, host) = name has no '*' and equals host ASCII-case-insensitively, or
//                        name = "*." + suffix, suffix has no '*', and host = label + "." + rest with a non-empty,
//                        dot-free left-most label and rest equal to suffix ASCII-case-insensitively
//   Some(n) ==> n is one of the names and covers(n, host);   None <==> host is empty or no name covers it
// The std `str` searching / splitting methods are ASSUMED to behave as documented (shims over the Seq<char> view);
// the matching logic itself is the real text.
use vstd::prelude::*;
verus! {

pub open spec fn is_digit(c: char) -> bool { '0' <= c && c <= '9' }
pub uninterp spec fn lower(c: char) -> char;
pub open spec fn ci_eq(a: Seq<char>, b: Seq<char>) -> bool { a.len() == b.len() && forall|i: int| 0 <= i < a.len() ==> lower(#[trigger] a[i]) == lower(b[i]) }
// index of the last / first occurrence of c, or -1
pub open spec fn last_index(s: Seq<char>, c: char) -> int decreases s.len() {
    if s.len() == 0 { -1 } else if s.last() == c { s.len() - 1 } else { last_index(s.drop_last(), c) }
}
pub open spec fn first_index(s: Seq<char>, c: char) -> int decreases s.len() {
    if s.len() == 0 { -1 } else if s[0] == c { 0 } else { let r = first_index(s.skip(1), c); if r < 0 { -1 } else { r + 1 } }
}
pub proof fn lemma_first_index_bounds(s: Seq<char>, c: char)
    ensures -1 <= first_index(s, c) < s.len() || (s.len() == 0 && first_index(s, c) == -1),
    decreases s.len(),
{
    if s.len() > 0 && s[0] != c { lemma_first_index_bounds(s.skip(1), c); }
}
pub open spec fn all_digits(s: Seq<char>) -> bool { forall|i: int| 0 <= i < s.len() ==> is_digit(#[trigger] s[i]) }

// ---- std str methods (ASSUMED contracts) --------------------------------------------------------------------
#[verifier::external_body]
pub fn verif_rsplit_once(s: &str, c: char) -> (r: Option<(&str, &str)>)
    ensures match r {
        Some((h, t)) => { let i = last_index(s@, c); i >= 0 && h@ == s@.subrange(0, i) && t@ == s@.subrange(i + 1, s@.len() as int) },
        None => last_index(s@, c) < 0,
    }
{ unimplemented!() }
#[verifier::external_body]
pub fn verif_split_once(s: &str, c: char) -> (r: Option<(&str, &str)>)
    ensures match r {
        Some((h, t)) => { let i = first_index(s@, c); i >= 0 && h@ == s@.subrange(0, i) && t@ == s@.subrange(i + 1, s@.len() as int) },
        None => first_index(s@, c) < 0,
    }
{ unimplemented!() }
#[verifier::external_body]
pub fn verif_all_ascii_digits(s: &str) -> (r: bool) ensures r == all_digits(s@) { unimplemented!() }
#[verifier::external_body]
pub fn verif_is_empty(s: &str) -> (r: bool) ensures r == (s@.len() == 0) { unimplemented!() }
#[verifier::external_body]
pub fn verif_strip_suffix_char(s: &str, c: char) -> (r: Option<&str>)
    ensures match r { Some(t) => s@.len() > 0 && s@.last() == c && t@ == s@.drop_last(), None => s@.len() == 0 || s@.last() != c }
{ unimplemented!() }
#[verifier::external_body]
pub fn verif_strip_prefix_star_dot(s: &String) -> (r: Option<&str>)
    ensures match r {
        Some(t) => s@.len() >= 2 && s@[0] == '*' && s@[1] == '.' && t@ == s@.skip(2),
        None => !(s@.len() >= 2 && s@[0] == '*' && s@[1] == '.'),
    }
{ unimplemented!() }
#[verifier::external_body]
pub fn verif_contains_char(s: &str, c: char) -> (r: bool) ensures r == s@.contains(c) { unimplemented!() }
#[verifier::external_body]
pub fn verif_string_contains_char(s: &String, c: char) -> (r: bool) ensures r == s@.contains(c) { unimplemented!() }
#[verifier::external_body]
pub fn verif_eq_ignore_ascii_case(a: &str, b: &str) -> (r: bool) ensures r == ci_eq(a@, b@) { unimplemented!() }
#[verifier::external_body]
pub fn verif_eq_ignore_ascii_case_string(a: &str, b: &String) -> (r: bool) ensures r == ci_eq(a@, b@) { unimplemented!() }
#[verifier::external_body]
pub fn verif_as_str(s: &String) -> (r: &str) ensures r@ == s@ { unimplemented!() }

// ---- the specification ---------------------------------------------------------------------------------------
pub open spec fn spec_strip_port(a: Seq<char>) -> Seq<char> {
    let i = last_index(a, ':');
    if i >= 0 && a.subrange(i + 1, a.len() as int).len() > 0 && all_digits(a.subrange(i + 1, a.len() as int)) { a.subrange(0, i) } else { a }
}
pub open spec fn spec_host(a: Seq<char>) -> Seq<char> {
    let h = spec_strip_port(a);
    if h.len() > 0 && h.last() == '.' { h.drop_last() } else { h }
}
pub open spec fn covers(name: Seq<char>, host: Seq<char>) -> bool {
    if name.len() >= 2 && name[0] == '*' && name[1] == '.' {
        let suffix = name.skip(2);
        let d = first_index(host, '.');
        !suffix.contains('*') && d > 0 && ci_eq(host.subrange(d + 1, host.len() as int), suffix)
    } else {
        !name.contains('*') && ci_eq(host, name)
    }
}

//@fn lib/src/protocol/mux/router.rs strip_authority_port
//@  ret r
//@  subst "authority.rsplit_once(':')" => "verif_rsplit_once(authority, ':')"
//@  subst "!port.is_empty() && port.bytes().all(|b| b.is_ascii_digit())" => "!verif_is_empty(port) && verif_all_ascii_digits(port)"
//@  ensures
//@    r@ == spec_strip_port(authority@),                                                              // [only-a-numeric-port-suffix-is-stripped]
//@end

//@fn lib/src/protocol/mux/router.rs authority_matched_cert_name
//@  ret r
//@  subst "host.strip_suffix('.')" => "verif_strip_suffix_char(host, '.')"
//@  subst "host.is_empty()" => "verif_is_empty(host)"
//@  subst "entry.strip_prefix(\"*.\")" => "verif_strip_prefix_star_dot(entry)"
//@  subst "suffix.contains('*')" => "verif_contains_char(suffix, '*')"
//@  subst "host.split_once('.')" => "verif_split_once(host, '.')"
//@  subst "leftmost.is_empty()" => "verif_is_empty(leftmost)"
//@  subst "rest.eq_ignore_ascii_case(suffix)" => "verif_eq_ignore_ascii_case(rest, suffix)"
//@  subst "entry.contains('*')" => "verif_string_contains_char(entry, '*')"
//@  subst "host.eq_ignore_ascii_case(entry)" => "verif_eq_ignore_ascii_case_string(host, entry)"
//@  substall "return Some(entry);" => "return Some(verif_as_str(entry));"
//   Verus for-loops do not support `continue`: the loop header is rewritten as the equivalent indexed while loop
//@  subst "for entry in names" => "let mut verif_i: usize = 0; while verif_i < names.len()"
//@  before "if leftmost.is_empty() {"
//@    proof { lemma_first_index_bounds(host@, '.'); }
//@    assert(leftmost@.len() == first_index(host@, '.'));
//@  exec_before "if let Some(suffix) ="
//@    let entry = &names[verif_i]; verif_i += 1;
//@  ensures
//@    r matches Some(n) ==> spec_host(authority@).len() > 0
//@        && exists|i: int| 0 <= i < names@.len() && names@[i]@ == n@ && covers(names@[i]@, spec_host(authority@)), // [a-match-is-a-served-name-that-covers-the-authority]
//@    r is None ==> spec_host(authority@).len() == 0
//@        || forall|i: int| 0 <= i < names@.len() ==> !covers(#[trigger] names@[i]@, spec_host(authority@)),       // [no-match-only-when-no-served-name-covers-the-authority]
//@    names@.len() == 0 ==> r is None,                                                                // [default-certificate-path-is-never-authoritative]
//@  loop 0
//@    invariant
//@      host@ == spec_host(authority@) && host@.len() > 0 && verif_i <= names@.len(),
//@      forall|i: int| 0 <= i < verif_i ==> !covers(#[trigger] names@[i]@, host@),
//@    decreases names@.len() - verif_i,
//@end

} // verus!
fn main() {}
