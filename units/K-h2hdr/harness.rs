    // Kani harnesses for lib/src/protocol/mux/pkawa.rs — appended to the REAL file in a scratch copy.

    // RFC 9110 §5.6.2, written independently of is_tchar
    fn rfc_tchar(b: u8) -> bool {
        b.is_ascii_alphanumeric()
            || b == b'!' || b == b'#' || b == b'$' || b == b'%' || b == b'&' || b == b'\'' || b == b'*'
            || b == b'+' || b == b'-' || b == b'.' || b == b'^' || b == b'_' || b == b'`' || b == b'|' || b == b'~'
    }

    #[kani::proof]
    fn tchar_is_rfc9110_token_char() {
        let b: u8 = kani::any();
        kani::cover!(b == b'~');
        assert!(is_tchar(b) == rfc_tchar(b));
    }

    #[kani::proof]
    fn content_length_conflict_rejected() {
        let n: usize = kani::any();
        let prior: BodySize = match kani::any::<u8>() % 3 { 0 => BodySize::Empty, 1 => BodySize::Chunked, _ => BodySize::Length(kani::any()) };
        let mut bs = prior;
        let accepted = set_content_length(&mut bs, n);
        kani::cover!(!accepted);
        match prior {
            BodySize::Length(e) if e != n => { assert!(!accepted); assert!(bs == prior); }
            _ => { assert!(accepted); assert!(bs == BodySize::Length(n)); }
        }
    }

    fn bad_value_byte(b: u8) -> bool { b <= 0x08 || (b >= 0x0A && b <= 0x1F) || b == 0x7F }

    fn check_accept(name: &[u8], value: &[u8]) {
        if classify_invalid_h2_header(name, value).is_none() {
            assert!(!name.is_empty());
            if name[0] != b':' {
                let mut i = 0;
                while i < name.len() {
                    assert!(rfc_tchar(name[i]) && !name[i].is_ascii_uppercase());
                    i += 1;
                }
            }
            let mut j = 0;
            while j < value.len() {
                assert!(!bad_value_byte(value[j]));
                j += 1;
            }
        }
    }

    #[kani::proof]
    #[kani::unwind(20)]
    fn accepted_header_is_clean() {
        let n: [u8; 3] = kani::any();
        let v: [u8; 3] = kani::any();
        kani::cover!(classify_invalid_h2_header(&n[..2], &v[..2]).is_none());
        assert!(classify_invalid_h2_header(&n[..0], &v[..1]).is_some());
        check_accept(&n[..1], &v[..0]); check_accept(&n[..1], &v[..1]); check_accept(&n[..1], &v[..2]); check_accept(&n[..1], &v[..3]);
        check_accept(&n[..2], &v[..0]); check_accept(&n[..2], &v[..1]); check_accept(&n[..2], &v[..2]); check_accept(&n[..2], &v[..3]);
        check_accept(&n[..3], &v[..0]); check_accept(&n[..3], &v[..1]); check_accept(&n[..3], &v[..2]); check_accept(&n[..3], &v[..3]);
    }

    fn eq_ignore_case(a: &[u8], b: &[u8]) -> bool {
        if a.len() != b.len() { return false; }
        let mut i = 0;
        while i < a.len() {
            if a[i].to_ascii_lowercase() != b[i].to_ascii_lowercase() { return false; }
            i += 1;
        }
        true
    }

    #[kani::proof]
    #[kani::unwind(20)]
    fn connection_specific_rejected() {
        let n7: [u8; 7] = kani::any();
        let n10: [u8; 10] = kani::any();
        kani::cover!(eq_ignore_case(&n10, b"keep-alive"));
        if eq_ignore_case(&n7, b"upgrade") {
            assert!(is_connection_specific_header(&n7));
            assert!(classify_invalid_h2_header(&n7, b"").is_some());
        }
        if eq_ignore_case(&n10, b"connection") || eq_ignore_case(&n10, b"keep-alive") {
            assert!(is_connection_specific_header(&n10));
            assert!(classify_invalid_h2_header(&n10, b"").is_some());
        }
    }

    #[kani::proof]
    #[kani::unwind(20)]
    fn te_only_trailers() {
        let v8: [u8; 8] = kani::any();
        let v3: [u8; 3] = kani::any();
        kani::cover!(classify_invalid_h2_header(b"te", &v8).is_none());
        if classify_invalid_h2_header(b"te", &v8).is_none() {
            assert!(eq_ignore_case(&v8, b"trailers"));
        }
        assert!(classify_invalid_h2_header(b"te", &v3[..0]).is_some());
        assert!(classify_invalid_h2_header(b"te", &v3[..1]).is_some());
        assert!(classify_invalid_h2_header(b"te", &v3[..2]).is_some());
        assert!(classify_invalid_h2_header(b"te", &v3[..3]).is_some());
    }

    fn check_pseudo(v: &[u8]) {
        if !has_invalid_pseudo_value_byte(v) {
            let mut i = 0;
            while i < v.len() { assert!(v[i] >= 0x20 && v[i] != 0x7F); i += 1; }
        }
    }

    #[kani::proof]
    #[kani::unwind(8)]
    fn pseudo_value_bytes() {
        let v: [u8; 4] = kani::any();
        kani::cover!(!has_invalid_pseudo_value_byte(&v));
        check_pseudo(&v[..0]); check_pseudo(&v[..1]); check_pseudo(&v[..2]); check_pseudo(&v[..3]); check_pseudo(&v[..4]);
    }
