    // Kani harnesses for lib/src/protocol/proxy_protocol/header.rs — appended to the REAL file in a scratch copy.
    use std::net::{Ipv4Addr, Ipv6Addr};
    use crate::protocol::proxy_protocol::parser::parse_v2_header;

    const SIG: [u8; 12] = [0x0D, 0x0A, 0x0D, 0x0A, 0x00, 0x0D, 0x0A, 0x51, 0x55, 0x49, 0x54, 0x0A];

    fn any_command() -> (Command, u8) {
        if kani::any() { (Command::Proxy, 1) } else { (Command::Local, 0) }
    }

    #[kani::proof]
    #[kani::unwind(30)]
    fn v2_roundtrip_ipv4() {
        let s: [u8; 4] = kani::any();
        let d: [u8; 4] = kani::any();
        let sp: u16 = kani::any();
        let dp: u16 = kani::any();
        let src = SocketAddr::V4(SocketAddrV4::new(Ipv4Addr::from(s), sp));
        let dst = SocketAddr::V4(SocketAddrV4::new(Ipv4Addr::from(d), dp));
        let (cmd, cbit) = any_command();
        let h = HeaderV2::new(cmd, src, dst);
        let bytes = h.into_bytes();
        kani::cover!(sp > 1024 && s[0] == 10);
        assert!(bytes.len() == 28 && h.len() == 28);
        let mut i = 0;
        while i < 12 { assert!(bytes[i] == SIG[i]); i += 1; }
        assert!(bytes[12] == 0x20 | cbit);
        assert!(bytes[13] == 0x11);
        assert!(bytes[14] == 0 && bytes[15] == 12);
        assert!(bytes[16..20] == s && bytes[20..24] == d);
        assert!(bytes[24..26] == sp.to_be_bytes() && bytes[26..28] == dp.to_be_bytes());
        match parse_v2_header(&bytes) {
            Ok((rest, p)) => {
                assert!(rest.is_empty());
                assert!(p.family == 0x11);
                assert!(p.addr.source() == Some(src));
                assert!(p.addr.destination() == Some(dst));
                assert!((cbit == 1) == (p.command == Command::Proxy));
            }
            Err(_) => assert!(false),
        }
    }

    #[kani::proof]
    #[kani::unwind(60)]
    fn v2_roundtrip_ipv6() {
        let s: [u8; 16] = kani::any();
        let d: [u8; 16] = kani::any();
        let sp: u16 = kani::any();
        let dp: u16 = kani::any();
        let src = SocketAddr::V6(SocketAddrV6::new(Ipv6Addr::from(s), sp, 0, 0));
        let dst = SocketAddr::V6(SocketAddrV6::new(Ipv6Addr::from(d), dp, 0, 0));
        let (cmd, cbit) = any_command();
        let h = HeaderV2::new(cmd, src, dst);
        let bytes = h.into_bytes();
        kani::cover!(dp == 443);
        assert!(bytes.len() == 52 && h.len() == 52);
        let mut i = 0;
        while i < 12 { assert!(bytes[i] == SIG[i]); i += 1; }
        assert!(bytes[12] == 0x20 | cbit);
        assert!(bytes[13] == 0x21);
        assert!(bytes[14] == 0 && bytes[15] == 36);
        assert!(bytes[16..32] == s && bytes[32..48] == d);
        assert!(bytes[48..50] == sp.to_be_bytes() && bytes[50..52] == dp.to_be_bytes());
        match parse_v2_header(&bytes) {
            Ok((rest, p)) => {
                assert!(rest.is_empty());
                assert!(p.addr.source() == Some(src));
                assert!(p.addr.destination() == Some(dst));
                assert!((cbit == 1) == (p.command == Command::Proxy));
            }
            Err(_) => assert!(false),
        }
    }

    #[kani::proof]
    #[kani::unwind(30)]
    fn v2_mixed_family_is_unspec() {
        let s: [u8; 4] = kani::any();
        let d: [u8; 16] = kani::any();
        let v4 = SocketAddr::V4(SocketAddrV4::new(Ipv4Addr::from(s), kani::any()));
        let v6 = SocketAddr::V6(SocketAddrV6::new(Ipv6Addr::from(d), kani::any(), 0, 0));
        let flip: bool = kani::any();
        let (cmd, _) = any_command();
        let h = if flip { HeaderV2::new(cmd, v4, v6) } else { HeaderV2::new(cmd, v6, v4) };
        let bytes = h.into_bytes();
        kani::cover!(flip);
        assert!(bytes.len() == 16 && h.len() == 16);
        assert!(bytes[13] == 0x00 && bytes[14] == 0 && bytes[15] == 0);
        match parse_v2_header(&bytes) {
            Ok((rest, p)) => { assert!(rest.is_empty()); assert!(p.addr == ProxyAddr::AfUnspec); }
            Err(_) => assert!(false),
        }
    }

    // "malformed ... headers close the session without forwarding anything": whatever 28 bytes arrive (signature,
    // version/command byte, family byte, length field, address block all symbolic), the parser accepts them only if
    // they are a well-formed v2 header, and what it reports is exactly what the bytes say.
    #[kani::proof]
    #[kani::unwind(30)]
    fn v2_parser_accepts_only_wellformed_28() {
        let b: [u8; 28] = kani::any();
        let r = parse_v2_header(&b);
        let sig_ok = { let mut ok = true; let mut i = 0; while i < 12 { if b[i] != SIG[i] { ok = false; } i += 1; } ok };
        let declared = u16::from_be_bytes([b[14], b[15]]) as usize;
        match r {
            Ok((rest, h)) => {
                assert!(sig_ok);
                // version nibble must be 2, command nibble LOCAL (0) or PROXY (1): nothing else is PROXY protocol v2
                assert!(b[12] == 0x20 || b[12] == 0x21);
                assert!((b[12] == 0x21) == (h.command == Command::Proxy));
                assert!(h.family == b[13]);
                let fam = b[13] >> 4;
                assert!(fam <= 2);
                assert!(declared <= 12 && rest.len() == 12 - declared);
                match h.addr {
                    ProxyAddr::Ipv4Addr { src_addr, dst_addr } => {
                        assert!(fam == 1 && declared == 12);
                        assert!(src_addr.ip().octets() == [b[16], b[17], b[18], b[19]]);
                        assert!(dst_addr.ip().octets() == [b[20], b[21], b[22], b[23]]);
                        assert!(src_addr.port() == u16::from_be_bytes([b[24], b[25]]));
                        assert!(dst_addr.port() == u16::from_be_bytes([b[26], b[27]]));
                    }
                    ProxyAddr::AfUnspec => assert!(fam == 0),
                    _ => assert!(false),   // an IPv6 block needs 36 bytes: impossible inside 28
                }
            }
            Err(_) => {
                // a well-formed IPv4 header is never refused
                assert!(!(sig_ok && (b[12] == 0x20 || b[12] == 0x21) && b[13] >> 4 == 1 && declared == 12));
            }
        }
        kani::cover!(matches!(parse_v2_header(&b), Ok(_)));
    }

