// Unit U-router — lib/src/router/mod.rs rule identity, rule matching and Router::lookup (serves C04)
// Property sentences -> contracts:
//  "After a frontend is removed no request is routed by it" -> the equality used by dedup / removal is the identity
//      of the configured rule: PathRule::eq / DomainRule::eq  <==>  same kind and same pattern text (in particular reflexive)
//  "pre rules in order, then the host tree (within a host EQUALS path over REGEX over longest PREFIX; method-specific
//   over method-agnostic), then post rules - never on the order in which tree frontends were added"
//      -> Router::lookup returns the FIRST matching pre rule; else, in the leaf list of the host-trie hit, a leaf of
//         MAXIMAL rank (kind, prefix length, method specificity) among the matching leaves — a characterisation that
//         does not mention list order; else the FIRST matching post rule; else RouteNotFound.
use vstd::prelude::*;
use std::marker::PhantomData;
verus! {

// ---------------------------------------------------------------- shims (ASSUMED contracts)
// String as UTF-8 bytes; equality of strings is equality of their bytes (UTF-8 is injective)
pub uninterp spec fn spec_bytes(s: String) -> Seq<u8>;
#[verifier::external_body]
pub fn verif_string_eq(a: &String, b: &String) -> (r: bool) ensures r == (spec_bytes(*a) == spec_bytes(*b)) { a == b }
#[verifier::external_body]
pub fn verif_starts_with(path: &[u8], prefix: &String) -> (r: bool)
    ensures r == (spec_bytes(*prefix).len() <= path@.len() && path@.subrange(0, spec_bytes(*prefix).len() as int) == spec_bytes(*prefix))
{ path.starts_with(prefix.as_bytes()) }
#[verifier::external_body]
pub fn verif_bytes_eq_string(path: &[u8], pattern: &String) -> (r: bool) ensures r == (path@ == spec_bytes(*pattern)) { path == pattern.as_bytes() }
#[verifier::external_body]
pub fn verif_string_len(s: &String) -> (r: usize) ensures r == spec_bytes(*s).len() { s.len() }
pub uninterp spec fn spec_str_bytes(s: &str) -> Seq<u8>;
#[verifier::external_body]
pub fn verif_str_as_bytes(s: &str) -> (r: &[u8]) ensures r@ == spec_str_bytes(s) { s.as_bytes() }
#[verifier::external_body]
pub fn verif_str_to_owned(s: &str) -> String { s.to_owned() }

// regex::bytes::Regex: its pattern text and an uninterpreted match relation
#[verifier::external_body] pub struct Regex { _p: () }
impl Regex {
    pub uninterp spec fn pattern(&self) -> Seq<char>;
    pub uninterp spec fn spec_is_match(&self, b: Seq<u8>) -> bool;
    #[verifier::external_body] pub fn as_str(&self) -> (r: &str) ensures r@ == self.pattern() { unimplemented!() }
    #[verifier::external_body] pub fn is_match(&self, b: &[u8]) -> (r: bool) ensures r == self.spec_is_match(b@) { unimplemented!() }
}
#[verifier::external_body] pub struct Instant { _p: () }
impl Instant { #[verifier::external_body] pub fn now() -> Instant { unimplemented!() } }

// http method (enum with a Custom(String) arm; derive(PartialEq) not extracted): identity equality
#[verifier::external_body] pub struct Method { _p: () }
#[verifier::external_body]
pub fn verif_method_eq(a: &Method, b: &Method) -> (r: bool) ensures r == (*a == *b) { unimplemented!() }
#[verifier::external_body]
pub fn verif_method_to_owned(a: &Method) -> Method { unimplemented!() }

#[verifier::external_body] pub struct Route { _p: () }
#[verifier::external_body] pub struct TrieMatches { _p: () }
impl TrieMatches { #[verifier::external_body] pub fn with_capacity(n: usize) -> TrieMatches { unimplemented!() } }

// the host trie: a partial function from the request host to the leaf list of the best host entry
// (exact over wildcard over regex host: pattern_trie.rs, NOT under contract — assumed)
#[verifier::external_body]
#[verifier::reject_recursive_types(V)]
pub struct TrieNode<V> { _p: PhantomData<V> }
impl<V> TrieNode<V> {
    pub uninterp spec fn spec_lookup(&self, host: Seq<u8>) -> Option<(Vec<u8>, V)>;
    #[verifier::external_body]
    pub fn lookup_with_path<'a, 'b>(&'b self, partial_key: &'a [u8], accept_wildcard: bool, trace: TrieMatches)
        -> (r: Option<(&'b (Vec<u8>, V), TrieMatches)>)
        ensures
            r matches Some((kv, _)) ==> self.spec_lookup(partial_key@) == Some(*kv),
            r is None ==> self.spec_lookup(partial_key@) is None,
    { unimplemented!() }
}

// RouteResult: `chosen` records which Route (and through which path rule) the request was resolved to
#[verifier::external_body] pub struct RouteResult { _p: () }
impl RouteResult {
    pub uninterp spec fn chosen(&self) -> Route;
    #[verifier::external_body]
    pub fn new_no_trie(hostname: &[u8], domain_rule: &DomainRule, path: &[u8], path_rule: &PathRule, route: &Route) -> (r: RouteResult)
        ensures r.chosen() == *route { unimplemented!() }
    #[verifier::external_body]
    pub fn new_with_trie(hostname: &[u8], trie_matches: TrieMatches, path: &[u8], path_rule: &PathRule, route: &Route) -> (r: RouteResult)
        ensures r.chosen() == *route { unimplemented!() }
}
pub enum RouterError { RouteNotFound { host: String, path: String, method: Method }, Other }

//@item lib/src/router/mod.rs enum DomainRule
//@item lib/src/router/mod.rs enum PathRule
//@item lib/src/router/mod.rs enum PathRuleResult structural
//@item lib/src/router/mod.rs struct MethodRule
//@item lib/src/router/mod.rs enum MethodRuleResult structural
//@item lib/src/router/mod.rs struct Router

// ---------------------------------------------------------------- specification
pub open spec fn same_path_rule(a: PathRule, b: PathRule) -> bool {
    match (a, b) {
        (PathRule::Prefix(s1), PathRule::Prefix(s2)) => spec_bytes(s1) == spec_bytes(s2),
        (PathRule::Regex(r1), PathRule::Regex(r2)) => r1.pattern() == r2.pattern(),
        (PathRule::Equals(s1), PathRule::Equals(s2)) => spec_bytes(s1) == spec_bytes(s2),
        _ => false,
    }
}
pub open spec fn same_domain_rule(a: DomainRule, b: DomainRule) -> bool {
    match (a, b) {
        (DomainRule::Any, DomainRule::Any) => true,
        (DomainRule::Wildcard(s1), DomainRule::Wildcard(s2)) => spec_bytes(s1) == spec_bytes(s2),
        (DomainRule::Exact(s1), DomainRule::Exact(s2)) => spec_bytes(s1) == spec_bytes(s2),
        (DomainRule::Regex(r1), DomainRule::Regex(r2)) => r1.pattern() == r2.pattern(),
        _ => false,
    }
}
pub open spec fn spec_path_match(rule: PathRule, path: Seq<u8>) -> PathRuleResult {
    match rule {
        PathRule::Prefix(p) => if spec_bytes(p).len() <= path.len() && path.subrange(0, spec_bytes(p).len() as int) == spec_bytes(p)
                               { PathRuleResult::Prefix(spec_bytes(p).len() as usize) } else { PathRuleResult::None },
        PathRule::Regex(re) => if re.spec_is_match(path) { PathRuleResult::Regex } else { PathRuleResult::None },
        PathRule::Equals(p) => if path == spec_bytes(p) { PathRuleResult::Equals } else { PathRuleResult::None },
    }
}
pub open spec fn spec_method_match(rule: MethodRule, method: Method) -> MethodRuleResult {
    match rule.inner { None => MethodRuleResult::All, Some(m) => if method == m { MethodRuleResult::Equals } else { MethodRuleResult::None } }
}
// which hosts a domain rule covers (wildcard label rule, regex): uninterpreted here (closure code, K-rule territory)
pub uninterp spec fn spec_domain_match(rule: DomainRule, host: Seq<u8>) -> bool;

// documented precedence as a rank: (path kind: EQUALS 2 > REGEX 1 > PREFIX 0, prefix length, method-specific 1 > any 0)
pub open spec fn leaf_rank(leaf: (PathRule, MethodRule, Route), path: Seq<u8>, method: Method) -> Option<(u8, usize, u8)> {
    let pr = match spec_path_match(leaf.0, path) {
        PathRuleResult::Equals => Some((2u8, 0usize)),
        PathRuleResult::Regex => Some((1u8, 0usize)),
        PathRuleResult::Prefix(n) => Some((0u8, n)),
        PathRuleResult::None => None,
    };
    let mr = match spec_method_match(leaf.1, method) {
        MethodRuleResult::Equals => Some(1u8),
        MethodRuleResult::All => Some(0u8),
        MethodRuleResult::None => None,
    };
    match (pr, mr) { (Some((k, n)), Some(s)) => Some((k, n, s)), _ => None }
}
pub open spec fn rank_gt(a: (u8, usize, u8), b: (u8, usize, u8)) -> bool {
    a.0 > b.0 || (a.0 == b.0 && (a.1 > b.1 || (a.1 == b.1 && a.2 > b.2)))
}
// `rank > best_rank` on (u8, usize, u8): std's lexicographic tuple order (ASSUMED)
#[verifier::external_body]
pub fn verif_rank_gt(a: (u8, usize, u8), b: (u8, usize, u8)) -> (r: bool) ensures r == rank_gt(a, b) { a > b }
#[verifier::external_body]
pub fn verif_strip_rank<'a>(best: Option<((u8, usize, u8), &'a PathRule, &'a Route)>) -> (r: Option<(&'a PathRule, &'a Route)>)
    ensures best is None ==> r is None, best matches Some((_, p, q)) ==> r == Some((p, q)),
{ best.map(|(_, rule, route)| (rule, route)) }

pub open spec fn entry_matches(e: (DomainRule, PathRule, MethodRule, Route), host: Seq<u8>, path: Seq<u8>, method: Method) -> bool {
    spec_domain_match(e.0, host) && spec_path_match(e.1, path) != PathRuleResult::None && spec_method_match(e.2, method) != MethodRuleResult::None
}

impl DomainRule {
    // wildcard / regex host matching: closure-based, outside Verus; ASSUMED to implement spec_domain_match
    #[verifier::external_body]
    pub fn matches(&self, hostname: &[u8]) -> (r: bool) ensures r == spec_domain_match(*self, hostname@) { unimplemented!() }

    //@fn lib/src/router/mod.rs PartialEq for DomainRule::eq
    //@  rename domain_rule_eq
    //@  ret r
    //@  substall "s1 == s2" => "verif_string_eq(s1, s2)"
    //@  ensures
    //@    r <==> same_domain_rule(*self, *other),                                   // [equal-iff-same-kind-and-pattern]
    //@end
}

impl PathRule {
    //@fn lib/src/router/mod.rs PartialEq for PathRule::eq
    //@  rename path_rule_eq
    //@  ret r
    //@  substall "s1 == s2" => "verif_string_eq(s1, s2)"
    //@  ensures
    //@    r <==> same_path_rule(*self, *other),                                     // [equal-iff-same-kind-and-pattern]
    //@end

    //@fn lib/src/router/mod.rs PathRule::matches
    //@  ret r
    //@  subst "path.starts_with(prefix.as_bytes())" => "verif_starts_with(path, prefix)"
    //@  substall "prefix.len()" => "verif_string_len(prefix)"
    //@  subst "path == pattern.as_bytes()" => "verif_bytes_eq_string(path, pattern)"
    //@  ensures
    //@    r == spec_path_match(*self, path@),                                       // [matches-as-specified]
    //@end
}

impl MethodRule {
    //@fn lib/src/router/mod.rs MethodRule::matches
    //@  ret r
    //@  subst "method == m" => "verif_method_eq(method, m)"
    //@  ensures
    //@    r == spec_method_match(*self, *method),                                   // [matches-as-specified]
    //@end
}

pub open spec fn no_entry_matches_before(l: Seq<(DomainRule, PathRule, MethodRule, Route)>, n: int, host: Seq<u8>, path: Seq<u8>, method: Method) -> bool {
    forall|k: int| 0 <= k < n ==> !entry_matches(#[trigger] l[k], host, path, method)
}
pub open spec fn is_first_match(l: Seq<(DomainRule, PathRule, MethodRule, Route)>, i: int, host: Seq<u8>, path: Seq<u8>, method: Method) -> bool {
    0 <= i < l.len() && entry_matches(l[i], host, path, method) && no_entry_matches_before(l, i, host, path, method)
}
// j is a leaf of maximal rank among the matching leaves of L (a statement that does not mention the order of L)
pub open spec fn is_max_rank_leaf(l: Seq<(PathRule, MethodRule, Route)>, j: int, path: Seq<u8>, method: Method) -> bool {
    &&& 0 <= j < l.len()
    &&& leaf_rank(l[j], path, method) is Some
    &&& forall|k: int| 0 <= k < l.len() && (#[trigger] leaf_rank(l[k], path, method)) is Some
            ==> !rank_gt(leaf_rank(l[k], path, method)->0, leaf_rank(l[j], path, method)->0)
}
pub open spec fn no_leaf_matches(l: Seq<(PathRule, MethodRule, Route)>, n: int, path: Seq<u8>, method: Method) -> bool {
    forall|k: int| 0 <= k < n ==> (#[trigger] leaf_rank(l[k], path, method)) is None
}

impl Router {
    //@fn lib/src/router/mod.rs Router::lookup
    //@  ret r
    //@  subst "hostname.as_bytes()" => "verif_str_as_bytes(hostname)"
    //@  subst "path.as_bytes()" => "verif_str_as_bytes(path)"
    //@  subst "let trie_path: TrieMatches<'_, '_> = Vec::with_capacity(16);" => "let trie_path: TrieMatches = TrieMatches::with_capacity(16);"
    //@  subst "rank > best_rank" => "verif_rank_gt(rank, best_rank)"
    //@  subst "best.map(|(_, rule, route)| (rule, route))" => "verif_strip_rank(best)"
    //@  subst "self.post.iter()" => "&self.post"
    //@  subst "hostname.to_owned()" => "verif_str_to_owned(hostname)"
    //@  subst "path.to_owned()" => "verif_str_to_owned(path)"
    //@  subst "method.to_owned()" => "verif_method_to_owned(method)"
    //@  ensures
    //@    ({
    //@      let h = spec_str_bytes(hostname); let p = spec_str_bytes(path); let m = *method;
    //@      // 1. pre rules, first match in order
    //@      (exists|i: int| is_first_match(self.pre@, i, h, p, m)) ==>
    //@          (r matches Ok(rr) && exists|i: int| is_first_match(self.pre@, i, h, p, m) && rr.chosen() == self.pre@[i].3) }), // [pre-rules-first-match-in-order]
    //@    ({
    //@      let h = spec_str_bytes(hostname); let p = spec_str_bytes(path); let m = *method;
    //@      // 2. host tree: a leaf of maximal documented rank among the matching leaves of the host entry
    //@      no_entry_matches_before(self.pre@, self.pre@.len() as int, h, p, m)
    //@        && (self.tree.spec_lookup(h) matches Some(kv) && exists|j: int| 0 <= j < kv.1@.len() && leaf_rank(kv.1@[j], p, m) is Some) ==>
    //@          (r matches Ok(rr) && exists|j: int| is_max_rank_leaf((self.tree.spec_lookup(h)->0).1@, j, p, m)
    //@                                   && rr.chosen() == (self.tree.spec_lookup(h)->0).1@[j].2) }),               // [tree-leaf-of-maximal-documented-rank]
    //@    ({
    //@      let h = spec_str_bytes(hostname); let p = spec_str_bytes(path); let m = *method;
    //@      // 3. post rules, first match in order — only when neither pre rules nor the tree matched
    //@      no_entry_matches_before(self.pre@, self.pre@.len() as int, h, p, m)
    //@        && (self.tree.spec_lookup(h) matches Some(kv) ==> no_leaf_matches(kv.1@, kv.1@.len() as int, p, m))
    //@        && (exists|i: int| is_first_match(self.post@, i, h, p, m)) ==>
    //@          (r matches Ok(rr) && exists|i: int| is_first_match(self.post@, i, h, p, m) && rr.chosen() == self.post@[i].3) }), // [post-rules-first-match-in-order]
    //@    ({
    //@      let h = spec_str_bytes(hostname); let p = spec_str_bytes(path); let m = *method;
    //@      // 4. nothing matches: no route
    //@      no_entry_matches_before(self.pre@, self.pre@.len() as int, h, p, m)
    //@        && (self.tree.spec_lookup(h) matches Some(kv) ==> no_leaf_matches(kv.1@, kv.1@.len() as int, p, m))
    //@        && no_entry_matches_before(self.post@, self.post@.len() as int, h, p, m) ==> r is Err }),                  // [no-route-when-nothing-matches]
    //@  loop 0
    //@    iter verif_it0
    //@    invariant
    //@      hostname_b@ == spec_str_bytes(hostname), path_b@ == spec_str_bytes(path),
    //@      no_entry_matches_before(self.pre@, verif_it0.index@, hostname_b@, path_b@, *method),
    //@  loop 1
    //@    iter verif_it1
    //@    invariant
    //@      hostname_b@ == spec_str_bytes(hostname), path_b@ == spec_str_bytes(path),
    //@      no_entry_matches_before(self.pre@, self.pre@.len() as int, hostname_b@, path_b@, *method),
    //@      best is None ==> no_leaf_matches(path_rules@, verif_it1.index@, path_b@, *method),
    //@      best matches Some((rk, brule, broute)) ==> (0 <= verif_wj < verif_it1.index@
    //@          && leaf_rank(path_rules@[verif_wj], path_b@, *method) == Some(rk)
    //@          && path_rules@[verif_wj].2 == *broute
    //@          && forall|k: int| 0 <= k < verif_it1.index@ && (#[trigger] leaf_rank(path_rules@[k], path_b@, *method)) is Some
    //@                ==> !rank_gt(leaf_rank(path_rules@[k], path_b@, *method)->0, rk)),
    //@  loop 2
    //@    iter verif_it2
    //@    invariant
    //@      hostname_b@ == spec_str_bytes(hostname), path_b@ == spec_str_bytes(path),
    //@      no_entry_matches_before(self.pre@, self.pre@.len() as int, hostname_b@, path_b@, *method),
    //@      self.tree.spec_lookup(hostname_b@) matches Some(kv) ==> no_leaf_matches(kv.1@, kv.1@.len() as int, path_b@, *method),
    //@      no_entry_matches_before(self.post@, verif_it2.index@, hostname_b@, path_b@, *method),
    //@  before "let mut best: Option<((u8, usize, u8), &PathRule, &Route)> = None;"
    //@    let ghost mut verif_wj: int = 0;
    //@  before "best = Some((rank, rule, route));"
    //@    proof { verif_wj = verif_it1.index@; }
    //@  before "return Ok(RouteResult::new_with_trie("
    //@    proof { assert(is_max_rank_leaf(path_rules@, verif_wj, path_b@, *method)); }
    //@end
}

// `list.iter().position(|(d, p, m, _)| d == domain && p == path && m == method)` (iterator adaptor + closure): the first
// index whose (domain, path, method) triple equals the arguments under the real `==` of the three rule types
// (ASSUMED std semantics of Iterator::position)
pub uninterp spec fn spec_triple_eq(e: (DomainRule, PathRule, MethodRule, Route), d: DomainRule, p: PathRule, m: MethodRule) -> bool;
#[verifier::external_body]
pub fn verif_position(l: &Vec<(DomainRule, PathRule, MethodRule, Route)>, d: &DomainRule, p: &PathRule, m: &MethodRule) -> (r: Option<usize>)
    ensures
        match r {
            Some(i) => i < l@.len() && spec_triple_eq(l@[i as int], *d, *p, *m) && forall|k: int| 0 <= k < i ==> !spec_triple_eq(#[trigger] l@[k], *d, *p, *m),
            None => forall|k: int| 0 <= k < l@.len() ==> !spec_triple_eq(#[trigger] l@[k], *d, *p, *m),
        }
{ unimplemented!() }

impl Router {
    // Pre / post rules are matched first-wins in list order (lookup above), so removing one rule must keep the
    // relative order of all the others: otherwise the route of a request the removed rule never matched would
    // depend on the history of additions and removals.
    //@fn lib/src/router/mod.rs Router::remove_pre_rule
    //@  ret r
    //@  subst "self\n            .pre\n            .iter()\n            .position(|(d, p, m, _)| d == domain && p == path && m == method)" => "verif_position(&self.pre, domain, path, method)"
    //@  drop_dassert 3 iterator adaptor any(..) with a closure; its content (the triple is gone) follows from the list being deduplicated, which is not a claim of this unit
    //@  ensures
    //@    !r ==> final(self).pre@ == old(self).pre@ && (forall|k: int| 0 <= k < old(self).pre@.len() ==> !spec_triple_eq(#[trigger] old(self).pre@[k], *domain, *path, *method)), // [nothing-removed-only-when-absent]
    //@    r ==> exists|i: int| 0 <= i < old(self).pre@.len() && spec_triple_eq(old(self).pre@[i], *domain, *path, *method)
    //@        && final(self).pre@ == old(self).pre@.remove(i),                                         // [the-first-equal-rule-goes-and-every-other-rule-keeps-its-relative-order]
    //@    final(self).post@ == old(self).post@ && final(self).tree == old(self).tree,                   // [only-the-pre-list-changes]
    //@end
    //@fn lib/src/router/mod.rs Router::remove_post_rule
    //@  ret r
    //@  subst "self\n            .post\n            .iter()\n            .position(|(d, p, m, _)| d == domain && p == path && m == method)" => "verif_position(&self.post, domain, path, method)"
    //@  drop_dassert 3 iterator adaptor any(..) with a closure; see remove_pre_rule
    //@  ensures
    //@    !r ==> final(self).post@ == old(self).post@ && (forall|k: int| 0 <= k < old(self).post@.len() ==> !spec_triple_eq(#[trigger] old(self).post@[k], *domain, *path, *method)), // [nothing-removed-only-when-absent]
    //@    r ==> exists|i: int| 0 <= i < old(self).post@.len() && spec_triple_eq(old(self).post@[i], *domain, *path, *method)
    //@        && final(self).post@ == old(self).post@.remove(i),                                        // [the-first-equal-rule-goes-and-every-other-rule-keeps-its-relative-order]
    //@    final(self).pre@ == old(self).pre@ && final(self).tree == old(self).tree,                     // [only-the-post-list-changes]
    //@end
}

pub proof fn lemma_path_rule_eq_reflexive(a: PathRule)
    ensures same_path_rule(a, a)
{}

} // verus!
fn main() {}
