// Unit U-cfgmsg — command/src/config.rs Config::generate_config_messages (serves C20)
// Property sentence -> contract: "yields a command list ... for any number of entries ... nothing duplicated or
// silently dropped": no arithmetic overflow for any sizes; the list has exactly one message per declared
// listener, per cluster request, per activation and for the metrics switch; message i carries the id built
// from i (so ids are pairwise distinct — they key the main process's in-flight map).
use vstd::prelude::*;
use std::marker::PhantomData;
verus! {

// ---------------------------------------------------------------- shims (ASSUMED contracts)
#[verifier::external_body] pub struct AccessLogFormat { _p: () }
#[verifier::external_body] pub struct MetricsConfig { _p: () }
#[verifier::external_body] pub struct ClusterConfig { _p: () }
#[verifier::external_body] pub struct Cluster { _p: () }
#[verifier::external_body] pub struct ConfigError { _p: () }
#[verifier::external_body] pub struct Request { _p: () }
#[verifier::external_body] pub struct HttpListenerConfig { _p: () }
#[verifier::external_body] pub struct HttpsListenerConfig { _p: () }
#[verifier::external_body] #[derive(Clone, Copy)] pub struct TcpListenerConfig { _p: () }
#[verifier::external_body] #[derive(Clone, Copy)] pub struct UdpListenerConfig { _p: () }
#[verifier::external_body]
#[verifier::reject_recursive_types(K)]
#[verifier::reject_recursive_types(V)]
pub struct HashMap<K, V> { _p: PhantomData<(K, V)> }

// `self.clusters.values()`: the values of the map in iteration order (one entry per cluster)
pub uninterp spec fn spec_cluster_values(m: HashMap<String, ClusterConfig>) -> Seq<ClusterConfig>;
#[verifier::external_body]
pub fn verif_cluster_values(m: &HashMap<String, ClusterConfig>) -> (r: Vec<&ClusterConfig>)
    ensures r@.len() == spec_cluster_values(*m).len(),
            forall|i: int| 0 <= i < r@.len() ==> *(#[trigger] r@[i]) == spec_cluster_values(*m)[i],
{ unimplemented!() }
// ClusterConfig::generate_requests: a function of the cluster (690 lines of request building, not under contract here)
pub uninterp spec fn spec_cluster_requests(c: ClusterConfig) -> Seq<Request>;
impl ClusterConfig {
    #[verifier::external_body]
    pub fn generate_requests(&self) -> (r: Result<Vec<Request>, ConfigError>)
        ensures r matches Ok(v) ==> v@ == spec_cluster_requests(*self),
    { unimplemented!() }
}
// total number of requests of the first n clusters
pub open spec fn sum_requests(cs: Seq<ClusterConfig>, n: int) -> int
    decreases n
{
    if n <= 0 { 0 } else { sum_requests(cs, n - 1) + spec_cluster_requests(cs[n - 1]).len() }
}

// `format!("CONFIG-{count}")`: decimal formatting is injective (ASSUMED)
pub uninterp spec fn spec_id(i: nat) -> Seq<char>;
#[verifier::external_body]
pub proof fn axiom_id_injective(a: nat, b: nat)
    ensures spec_id(a) == spec_id(b) ==> a == b
{}
#[verifier::external_body]
pub fn verif_fmt_id(count: usize) -> (r: String) ensures r@ == spec_id(count as nat) { unimplemented!() }

// request constructors (`RequestType::X(..).into()`): pure; which request is built is not part of this contract
#[verifier::external_body] pub fn verif_req_add_http(l: &HttpListenerConfig) -> Request { unimplemented!() }
#[verifier::external_body] pub fn verif_req_add_https(l: &HttpsListenerConfig) -> Request { unimplemented!() }
#[verifier::external_body] pub fn verif_req_add_tcp(l: &TcpListenerConfig) -> Request { unimplemented!() }
#[verifier::external_body] pub fn verif_req_add_udp(l: &UdpListenerConfig) -> Request { unimplemented!() }
#[verifier::external_body] pub fn verif_req_activate_http(l: &HttpListenerConfig) -> Request { unimplemented!() }
#[verifier::external_body] pub fn verif_req_activate_https(l: &HttpsListenerConfig) -> Request { unimplemented!() }
#[verifier::external_body] pub fn verif_req_activate_tcp(l: &TcpListenerConfig) -> Request { unimplemented!() }
#[verifier::external_body] pub fn verif_req_activate_udp(l: &UdpListenerConfig) -> Request { unimplemented!() }
#[verifier::external_body] pub fn verif_req_metrics_disabled() -> Request { unimplemented!() }

pub struct WorkerRequest { pub id: String, pub content: Request }

//@item command/src/config.rs struct Config

pub open spec fn ids_are_positions(v: Seq<WorkerRequest>) -> bool {
    forall|i: int| 0 <= i < v.len() ==> (#[trigger] v[i]).id@ == spec_id(i as nat)
}

// corollary over the contract: ids are pairwise distinct
pub proof fn lemma_ids_distinct(v: Seq<WorkerRequest>, i: int, j: int)
    requires ids_are_positions(v), 0 <= i < v.len(), 0 <= j < v.len(), i != j
    ensures v[i].id@ != v[j].id@
{
    axiom_id_injective(i as nat, j as nat);
}

impl Config {
    pub open spec fn n_listeners(&self) -> int {
        (self.http_listeners@.len() + self.https_listeners@.len() + self.tcp_listeners@.len() + self.udp_listeners@.len()) as int
    }

    //@fn command/src/config.rs Config::generate_config_messages
    //@  ret r
    //@  substall "format!(\"CONFIG-{count}\")" => "verif_fmt_id(count as usize)"
    //@  subst "let mut v = Vec::new();" => "let mut v: Vec<WorkerRequest> = Vec::new();"
    //@  subst "RequestType::AddHttpListener(listener.clone()).into()" => "verif_req_add_http(listener)"
    //@  subst "RequestType::AddHttpsListener(listener.clone()).into()" => "verif_req_add_https(listener)"
    //@  subst "RequestType::AddTcpListener(*listener).into()" => "verif_req_add_tcp(listener)"
    //@  subst "RequestType::AddUdpListener(*listener).into()" => "verif_req_add_udp(listener)"
    //@  subst "RequestType::ActivateListener(ActivateListener {\n                        address: listener.address,\n                        proxy: ListenerType::Http.into(),\n                        from_scm: false,\n                    })\n                    .into()" => "verif_req_activate_http(listener)"
    //@  subst "RequestType::ActivateListener(ActivateListener {\n                        address: listener.address,\n                        proxy: ListenerType::Https.into(),\n                        from_scm: false,\n                    })\n                    .into()" => "verif_req_activate_https(listener)"
    //@  subst "RequestType::ActivateListener(ActivateListener {\n                        address: listener.address,\n                        proxy: ListenerType::Tcp.into(),\n                        from_scm: false,\n                    })\n                    .into()" => "verif_req_activate_tcp(listener)"
    //@  subst "RequestType::ActivateListener(ActivateListener {\n                        address: listener.address,\n                        proxy: ListenerType::Udp.into(),\n                        from_scm: false,\n                    })\n                    .into()" => "verif_req_activate_udp(listener)"
    //@  subst "RequestType::ConfigureMetrics(MetricsConfiguration::Disabled.into())\n                    .into()" => "verif_req_metrics_disabled()"
    //@  loop 0
    //@    iter verif_it0
    //@    invariant
    //@      count as int == v@.len(), ids_are_positions(v@),
    //@      v@.len() == 0 + verif_it0.index@,
    //@  loop 1
    //@    iter verif_it1
    //@    invariant
    //@      count as int == v@.len(), ids_are_positions(v@),
    //@      v@.len() == self.http_listeners@.len() + verif_it1.index@,
    //@  loop 2
    //@    iter verif_it2
    //@    invariant
    //@      count as int == v@.len(), ids_are_positions(v@),
    //@      v@.len() == self.http_listeners@.len() + self.https_listeners@.len() + verif_it2.index@,
    //@  loop 3
    //@    iter verif_it3
    //@    invariant
    //@      count as int == v@.len(), ids_are_positions(v@),
    //@      v@.len() == self.http_listeners@.len() + self.https_listeners@.len() + self.tcp_listeners@.len() + verif_it3.index@,
    //@  loop 4
    //@    iter verif_it4
    //@    invariant
    //@      count as int == v@.len(), ids_are_positions(v@),
    //@      verif_clusters@.len() == spec_cluster_values(self.clusters).len(),
    //@      forall|i: int| 0 <= i < verif_clusters@.len() ==> *(#[trigger] verif_clusters@[i]) == spec_cluster_values(self.clusters)[i],
    //@      v@.len() == self.n_listeners() + sum_requests(spec_cluster_values(self.clusters), verif_it4.index@),
    //@  loop 5
    //@    iter verif_it5
    //@    invariant
    //@      count as int == v@.len(), ids_are_positions(v@),
    //@      0 <= verif_it4.index@ < spec_cluster_values(self.clusters).len(),
    //@      v@.len() == self.n_listeners() + sum_requests(spec_cluster_values(self.clusters), verif_it4.index@) + verif_it5.index@,
    //@  loop 6
    //@    iter verif_it6
    //@    invariant
    //@      count as int == v@.len(), ids_are_positions(v@),
    //@      v@.len() == self.n_listeners() + sum_requests(spec_cluster_values(self.clusters), spec_cluster_values(self.clusters).len() as int) + verif_it6.index@,
    //@  loop 7
    //@    iter verif_it7
    //@    invariant
    //@      count as int == v@.len(), ids_are_positions(v@),
    //@      v@.len() == self.n_listeners() + sum_requests(spec_cluster_values(self.clusters), spec_cluster_values(self.clusters).len() as int) + self.http_listeners@.len() + verif_it7.index@,
    //@  loop 8
    //@    iter verif_it8
    //@    invariant
    //@      count as int == v@.len(), ids_are_positions(v@),
    //@      v@.len() == self.n_listeners() + sum_requests(spec_cluster_values(self.clusters), spec_cluster_values(self.clusters).len() as int) + self.http_listeners@.len() + self.https_listeners@.len() + verif_it8.index@,
    //@  loop 9
    //@    iter verif_it9
    //@    invariant
    //@      count as int == v@.len(), ids_are_positions(v@),
    //@      v@.len() == self.n_listeners() + sum_requests(spec_cluster_values(self.clusters), spec_cluster_values(self.clusters).len() as int) + self.http_listeners@.len() + self.https_listeners@.len() + self.tcp_listeners@.len() + verif_it9.index@,
    //@  subst "self.clusters.values()" => "&verif_clusters"
    //@  subst "orders.drain(..)" => "orders"
    //@  exec_before "for cluster in self.clusters.values() {"
    //@    let verif_clusters = verif_cluster_values(&self.clusters);
    //@  before "count += 1;" #1
    //@    proof { vstd::std_specs::vec::axiom_spec_len(&v); }
    //@  before "count += 1;" #2
    //@    proof { vstd::std_specs::vec::axiom_spec_len(&v); }
    //@  before "count += 1;" #3
    //@    proof { vstd::std_specs::vec::axiom_spec_len(&v); }
    //@  before "count += 1;" #4
    //@    proof { vstd::std_specs::vec::axiom_spec_len(&v); }
    //@  before "count += 1;" #5
    //@    proof { vstd::std_specs::vec::axiom_spec_len(&v); }
    //@  before "count += 1;" #6
    //@    proof { vstd::std_specs::vec::axiom_spec_len(&v); }
    //@  before "count += 1;" #7
    //@    proof { vstd::std_specs::vec::axiom_spec_len(&v); }
    //@  before "count += 1;" #8
    //@    proof { vstd::std_specs::vec::axiom_spec_len(&v); }
    //@  before "count += 1;" #9
    //@    proof { vstd::std_specs::vec::axiom_spec_len(&v); }
    //@  ensures
    //@    r matches Ok(v) ==> ids_are_positions(v@),                                                      // [message-i-has-id-i]
    //@    r matches Ok(v) ==> v@.len() == self.n_listeners() + sum_requests(spec_cluster_values(self.clusters), spec_cluster_values(self.clusters).len() as int)
    //@        + (if self.activate_listeners { self.n_listeners() } else { 0 })
    //@        + (if self.disable_cluster_metrics { 1int } else { 0 }),                                    // [one-message-per-declared-object]
    //@end
}

// ---------------------------------------------------------------- per-cluster request list (HTTP clusters)
// "nothing duplicated or silently dropped": the cluster's command list is exactly the AddCluster request, then
// every request of every frontend (in order, none filtered out), then one AddBackend per backend.
#[verifier::external_body] pub struct HttpFrontendConfig { _p: () }
#[verifier::external_body] pub struct BackendConfig { _p: () }
#[verifier::external_body] pub struct LoadBalancingAlgorithms { _p: () }
#[verifier::external_body] pub struct LoadMetric { _p: () }
#[verifier::external_body] pub struct HealthCheckConfig { _p: () }
#[verifier::external_body] pub struct UdpClusterConfig { _p: () }
#[verifier::external_body]
#[verifier::reject_recursive_types(K)]
#[verifier::reject_recursive_types(V)]
pub struct BTreeMap<K, V> { _p: PhantomData<(K, V)> }
pub uninterp spec fn spec_frontend_requests(f: HttpFrontendConfig, cluster_id: String) -> Seq<Request>;
impl HttpFrontendConfig {
    // 110 lines of request building (AddCertificate + AddHttp(s)Frontend): a function of the frontend, not under contract
    #[verifier::external_body]
    pub fn generate_requests(&self, cluster_id: &String) -> (r: Vec<Request>)
        ensures r@ == spec_frontend_requests(*self, *cluster_id)
    { unimplemented!() }
}
pub uninterp spec fn spec_add_cluster_request(c: HttpClusterConfig) -> Request;
pub uninterp spec fn spec_add_backend_request(c: HttpClusterConfig, b: BackendConfig) -> Request;
#[verifier::external_body]
pub fn verif_req_add_cluster(c: &HttpClusterConfig) -> (r: Request) ensures r == spec_add_cluster_request(*c) { unimplemented!() }
#[verifier::external_body]
pub fn verif_req_add_backend(c: &HttpClusterConfig, b: &BackendConfig) -> (r: Request)
    ensures r == spec_add_backend_request(*c, *b)
{ unimplemented!() }
pub open spec fn flat_frontend_requests(c: HttpClusterConfig, n: int) -> Seq<Request>
    decreases n
{
    if n <= 0 { Seq::empty() } else { flat_frontend_requests(c, n - 1) + spec_frontend_requests(c.frontends@[n - 1], c.cluster_id) }
}
pub open spec fn backend_requests(c: HttpClusterConfig, n: int) -> Seq<Request>
    decreases n
{
    if n <= 0 { Seq::empty() } else { backend_requests(c, n - 1).push(spec_add_backend_request(c, c.backends@[n - 1])) }
}

//@item command/src/config.rs struct HttpClusterConfig

impl HttpClusterConfig {
    //@fn command/src/config.rs HttpClusterConfig::generate_requests
    //@  ret r
    //@  cut "RequestType::AddCluster(Cluster {" .. "\n        ];" => "verif_req_add_cluster(self),"
    //@  subst "(backend_count, backend) in self.backends.iter().enumerate()" => "backend in verif_itb: &self.backends"
    //@  cut "let load_balancing_parameters = Some(LoadBalancingParams {" .. "        }\n\n        // POST: the order stream" => "v.push(verif_req_add_backend(self, backend));\n"
    //@  drop_dassert 0 iterator / matches! assertion; its content is part of the [exactly-the-declared-requests] clause
    //@  drop_dassert 1 iterator filter count; its content is part of the [exactly-the-declared-requests] clause
    //@  ensures
    //@    r matches Ok(v) ==> v@ =~= seq![spec_add_cluster_request(*self)]
    //@        + flat_frontend_requests(*self, self.frontends@.len() as int)
    //@        + backend_requests(*self, self.backends@.len() as int),                      // [exactly-the-declared-requests-in-order]
    //@    r is Ok,                                                                        // [total]
    //@  loop 0
    //@    iter verif_itf
    //@    invariant
    //@      v@ =~= seq![spec_add_cluster_request(*self)] + flat_frontend_requests(*self, verif_itf.index@),
    //@  loop 1
    //@    invariant
    //@      v@ =~= seq![spec_add_cluster_request(*self)] + flat_frontend_requests(*self, self.frontends@.len() as int)
    //@             + backend_requests(*self, verif_itb.index@),
    //@end
}

} // verus!
fn main() {}
