    // Bounded native check for C07, worker side (unit N-wreject): a frontend command that the REAL HttpsProxy / HttpProxy
    // rejects must leave the live listener as it was (routes AND the per-hostname tags the access logs use). Appended
    // as a test module to https.rs in a scratch copy (the proxies' listener maps are private).
    // For each proxy kind: a frontend (host, path) with tags T1 is added; then, for every rejected variant of a second
    // add — the same route again with other tags, the same route with no tags, a frontend on an address without a
    // listener — the tags of the hostname and the route of a probe request must be what they were before the attempt.
    use std::collections::BTreeMap;
    use sozu_command::proto::command::{PathRule, RulePosition, SocketAddress as ProtoAddr};

    fn tags(v: &str) -> BTreeMap<String, String> { let mut t = BTreeMap::new(); t.insert("owner".to_string(), v.to_string()); t }
    fn front(addr: ProtoAddr, host: &str, t: Option<&str>) -> RequestHttpFrontend {
        RequestHttpFrontend { cluster_id: Some("c1".into()), address: addr, hostname: host.into(), path: PathRule::prefix("/".to_string()), position: RulePosition::Tree.into(),
                              tags: t.map(tags).unwrap_or_default(), ..Default::default() }
    }

    #[test]
    fn enumerate() {
        let (mut n, mut rejected, mut fails): (u64, u64, Vec<(String, String)>) = (0, 0, Vec::new());
        let poll = mio::Poll::new().expect("poll");
        let sessions = crate::server::SessionManager::new(slab::Slab::new(), 100, 0, 0);
        let pool = Rc::new(RefCell::new(crate::pool::Pool::with_capacity(1, 2, 16384)));
        let backends = Rc::new(RefCell::new(crate::backends::BackendMap::new()));
        // ---- HTTPS
        {
            let addr = ProtoAddr::new_v4(127, 0, 0, 1, 18443);
            let nowhere = ProtoAddr::new_v4(127, 0, 0, 1, 18444);
            let mut proxy = HttpsProxy::new(poll.registry().try_clone().expect("registry"), sessions.clone(), pool.clone(), backends.clone());
            let cfg = sozu_command::config::ListenerBuilder::new_https(addr).to_tls(None).expect("tls listener config");
            proxy.add_listener(cfg, Token(1)).expect("add listener");
            proxy.add_https_frontend(front(addr, "a.example", Some("team-a"))).expect("first frontend");
            let snapshot = |p: &HttpsProxy| -> String {
                let l = p.listeners.get(&Token(1)).unwrap().borrow();
                format!("tags(a.example) = {:?}; tags(b.example) = {:?}", l.get_tags("a.example"), l.get_tags("b.example"))
            };
            for (what, f) in [("the same route again with other tags", front(addr, "a.example", Some("team-b"))), ("the same route again without tags", front(addr, "a.example", None)),
                              ("a frontend for an address without a listener", front(nowhere, "b.example", Some("team-c")))] {
                n += 1;
                let before = snapshot(&proxy);
                let res = proxy.add_https_frontend(f);
                if res.is_err() {
                    rejected += 1;
                    let after = snapshot(&proxy);
                    if after != before { fails.push((format!("HttpsProxy with frontend a.example / tagged owner=team-a; AddHttpsFrontend: {what}"), format!("rejected ({}), yet the live listener changed: before [{before}], after [{after}]", res.err().map(|e| e.to_string()).unwrap_or_default()))); }
                }
            }
        }
        // ---- HTTP
        {
            let addr = ProtoAddr::new_v4(127, 0, 0, 1, 18080);
            let nowhere = ProtoAddr::new_v4(127, 0, 0, 1, 18081);
            let mut proxy = crate::http::HttpProxy::new(poll.registry().try_clone().expect("registry"), sessions.clone(), pool.clone(), backends.clone());
            let cfg = sozu_command::config::ListenerBuilder::new_http(addr).to_http(None).expect("http listener config");
            proxy.add_listener(cfg, Token(2)).expect("add listener");
            proxy.add_http_frontend(front(addr, "a.example", Some("team-a"))).expect("first frontend");
            for (what, f) in [("the same route again with other tags", front(addr, "a.example", Some("team-b"))), ("the same route again without tags", front(addr, "a.example", None)),
                              ("a frontend for an address without a listener", front(nowhere, "b.example", Some("team-c")))] {
                n += 1;
                let before = format!("{:?}", proxy.get_listener(&Token(2)).map(|l| format!("{:?} {:?}", l.borrow().get_tags("a.example"), l.borrow().get_tags("b.example"))));
                let res = proxy.add_http_frontend(f);
                if res.is_err() {
                    rejected += 1;
                    let after = format!("{:?}", proxy.get_listener(&Token(2)).map(|l| format!("{:?} {:?}", l.borrow().get_tags("a.example"), l.borrow().get_tags("b.example"))));
                    if after != before { fails.push((format!("HttpProxy with frontend a.example / tagged owner=team-a; AddHttpFrontend: {what}"), format!("rejected, yet the live listener changed: before [{before}], after [{after}]"))); }
                }
            }
        }
        let fl: Vec<String> = fails.iter().map(|(i, o)| format!("{{\"input\": {:?}, \"observed\": {:?}}}", i, o)).collect();
        println!("{{\"bound\": \"HTTPS and HTTP proxies x 3 rejected frontend additions each\", \"states\": {n}, \"pairs\": {n}, \"nontrivial_pairs\": {rejected}, \"failures\": [{}]}}", fl.join(", "));
    }
