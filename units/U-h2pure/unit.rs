// Unit U-h2pure — lib/src/protocol/mux/h2.rs arithmetic helpers and flood counters (serves C14, C15)
// C14 "uses only legal stream identifiers": next_stream_id issues ids <= 2^31-1, strictly increasing, odd for a
//      client / even for a server from an even watermark, None exactly at exhaustion.
// C15 "no HTTP/2 input can ... over-commit a worker": each lifetime flood counter reports a violation IFF it
//      exceeds its configured threshold, with ENHANCE_YOUR_CALM, counters saturate (never wrap to a small value),
//      half-decay never increases a counter and never touches the lifetime ceilings; overhead distribution
//      conserves the pool (the repository's debug_asserts are proof obligations).
use vstd::prelude::*;
verus! {

pub type StreamId = u32;
#[verifier::external_body] pub struct Instant { _p: () }
#[verifier::external_body] pub struct Duration { _p: () }
impl Instant {
    pub uninterp spec fn spec_elapsed_ge_window(&self) -> bool;
    #[verifier::external_body] pub fn now() -> (r: Instant) ensures !r.spec_elapsed_ge_window() { unimplemented!() }
}
// `self.window_start.elapsed() >= FLOOD_WINDOW_DURATION` (clock: arbitrary, frozen within the call)
#[verifier::external_body]
pub fn verif_window_expired(start: &Instant) -> (r: bool) ensures r == start.spec_elapsed_ge_window() { unimplemented!() }
pub fn verif_max_i32(a: i32, b: i32) -> (r: i32) ensures r >= a, r >= b, r == a || r == b { if a >= b { a } else { b } }
pub fn verif_min(a: usize, b: usize) -> (r: usize) ensures r <= a, r <= b, r == a || r == b { if a <= b { a } else { b } }
pub fn verif_max(a: usize, b: usize) -> (r: usize) ensures r >= a, r >= b, r == a || r == b { if a >= b { a } else { b } }

//@item lib/src/protocol/mux/h2.rs const STREAM_ID_MAX
//@item lib/src/protocol/mux/h2.rs const FC_STALL_CLEAR_FLOOR
//@item lib/src/protocol/mux/h2.rs const DEFAULT_MAX_PING_LIFETIME
//@item lib/src/protocol/mux/h2.rs const DEFAULT_MAX_SETTINGS_LIFETIME
//@item lib/src/protocol/mux/h2.rs enum FcStallAction structural
//@item lib/src/protocol/mux/h2.rs struct H2FloodConfig
//@item lib/src/protocol/mux/h2.rs struct H2FloodViolation
//@item lib/src/protocol/mux/h2.rs struct H2FloodDetector
//@item lib/src/protocol/mux/parser.rs enum H2Error structural

pub struct SessionMetrics { pub bin: usize, pub bout: usize }

//@fn lib/src/protocol/mux/h2.rs next_stream_id
//@  ret r
//@  ensures
//@    r matches Some((issued, next)) ==> issued <= 0x7FFF_FFFF && (is_client ==> issued > 0),                               // [issued-id-fits-31-bits]
//@    r matches Some((issued, next)) ==> next == last_stream_id + 2 && next > issued && issued > last_stream_id - 1, // [strictly-increasing]
//@    r matches Some((issued, next)) ==> (last_stream_id % 2 == 0 ==> ((issued % 2 == 1) == is_client)),    // [odd-for-client-even-for-server]
//@    r is None <==> (last_stream_id as int + 2 > u32::MAX || (if is_client { last_stream_id as int + 1 } else { last_stream_id as int }) > 0x7FFF_FFFF
//@                    || (!is_client && false)),                                                           // [none-exactly-at-exhaustion]
//@  before "debug_assert!(\n        last_stream_id & 1 != 0 || (issued & 1 == 1) == is_client,"
//@    proof {
//@        assert(last_stream_id & 1 == last_stream_id % 2) by(bit_vector);
//@        assert(issued & 1 == issued % 2) by(bit_vector);
//@    }
//@end

//@fn lib/src/protocol/mux/h2.rs fc_stall_budget_decision
//@  ret r
//@  subst "consumed.max(0)" => "verif_max_i32(consumed, 0)"
//@  ensures
//@    !outbound_window_blocked ==> r == FcStallAction::Clear,                                              // [open-window-clears]
//@    r matches FcStallAction::Arm { progress } ==> outbound_window_blocked && progress < FC_STALL_CLEAR_FLOOR, // [armed-only-below-the-floor]
//@    outbound_window_blocked && consumed <= 0 && (prior_progress matches Some(p) && p < FC_STALL_CLEAR_FLOOR)
//@        ==> r == (FcStallAction::Arm { progress: prior_progress->0 }),                                   // [no-progress-keeps-the-deadline-aging]
//@end

//@fn lib/src/protocol/mux/h2.rs distribute_overhead
//@  subst "(*overhead_bin * stream_bytes.0 / total_bytes.0).min(*overhead_bin)" => "verif_min(*overhead_bin * stream_bytes.0 / total_bytes.0, *overhead_bin)"
//@  subst "(*overhead_bout * stream_bytes.1 / total_bytes.1).min(*overhead_bout)" => "verif_min(*overhead_bout * stream_bytes.1 / total_bytes.1, *overhead_bout)"
//@  substall "active_streams.max(1)" => "verif_max(active_streams, 1)"
//@  requires
//@    // the callers are NOT shown to meet these (residue): no overflow in `overhead * stream_bytes` / metrics sums
//@    *old(overhead_bin) * stream_bytes.0 <= usize::MAX, *old(overhead_bout) * stream_bytes.1 <= usize::MAX,
//@    old(metrics).bin + *old(overhead_bin) <= usize::MAX, old(metrics).bout + *old(overhead_bout) <= usize::MAX,
//@  ensures
//@    old(metrics).bin + *old(overhead_bin) == final(metrics).bin + *final(overhead_bin),                  // [overhead-in-conserved]
//@    old(metrics).bout + *old(overhead_bout) == final(metrics).bout + *final(overhead_bout),              // [overhead-out-conserved]
//@    is_last_stream ==> *final(overhead_bin) == 0 && *final(overhead_bout) == 0,                          // [last-stream-drains-the-pool]
//@end

impl H2FloodDetector {
    //@fn lib/src/protocol/mux/h2.rs H2FloodDetector::record_rst_lifetime
    //@  ret r
    //@  requires
    //@    old(self).total_abusive_rst_received_lifetime <= old(self).total_rst_received_lifetime,
    //@    old(self).total_rst_received_lifetime < u64::MAX,
    //@  ensures
    //@    final(self).total_rst_received_lifetime == old(self).total_rst_received_lifetime + 1,            // [counts-every-rst]
    //@    final(self).total_abusive_rst_received_lifetime == old(self).total_abusive_rst_received_lifetime + (if response_started { 0int } else { 1 }), // [abusive-iff-pre-response]
    //@    r is Some <==> (final(self).total_rst_received_lifetime > final(self).config.max_rst_stream_lifetime
    //@        || final(self).total_abusive_rst_received_lifetime > final(self).config.max_rst_stream_abusive_lifetime), // [violation-iff-a-ceiling-is-exceeded]
    //@    r matches Some(v) ==> v.error == H2Error::EnhanceYourCalm && v.count > v.threshold,             // [enhance-your-calm]
    //@    final(self).config == old(self).config,                                                         // [frame]
    //@end

    //@fn lib/src/protocol/mux/h2.rs H2FloodDetector::record_rst_emitted
    //@  ret r
    //@  ensures
    //@    final(self).total_rst_streams_emitted_lifetime == (if old(self).total_rst_streams_emitted_lifetime == u64::MAX { u64::MAX } else { (old(self).total_rst_streams_emitted_lifetime + 1) as u64 }), // [saturating-count]
    //@    r is Some <==> final(self).total_rst_streams_emitted_lifetime > final(self).config.max_rst_stream_emitted_lifetime, // [violation-iff-ceiling-exceeded]
    //@    r matches Some(v) ==> v.error == H2Error::EnhanceYourCalm && v.count > v.threshold,             // [enhance-your-calm]
    //@end

    //@fn lib/src/protocol/mux/h2.rs H2FloodDetector::maybe_reset_window
    //@  subst "self.window_start.elapsed() >= FLOOD_WINDOW_DURATION" => "verif_window_expired(&self.window_start)"
    //@  drop_dassert 6 wall-clock assertion (Instant::now() then elapsed() < 1 s): not a logical property
    //@  ensures
    //@    final(self).rst_stream_count <= old(self).rst_stream_count && final(self).ping_count <= old(self).ping_count
    //@      && final(self).settings_count <= old(self).settings_count && final(self).empty_data_count <= old(self).empty_data_count
    //@      && final(self).window_update_stream0_count <= old(self).window_update_stream0_count && final(self).glitch_count <= old(self).glitch_count, // [decay-never-increases]
    //@    final(self).total_rst_received_lifetime == old(self).total_rst_received_lifetime
    //@      && final(self).total_abusive_rst_received_lifetime == old(self).total_abusive_rst_received_lifetime
    //@      && final(self).total_rst_streams_emitted_lifetime == old(self).total_rst_streams_emitted_lifetime
    //@      && final(self).total_ping_received_lifetime == old(self).total_ping_received_lifetime
    //@      && final(self).total_settings_received_lifetime == old(self).total_settings_received_lifetime, // [lifetime-ceilings-never-decay]
    //@    old(self).window_start.spec_elapsed_ge_window() ==> final(self).rst_stream_count == old(self).rst_stream_count / 2, // [half-decay]
    //@    final(self).config == old(self).config,                                                         // [frame]
    //@    final(self).continuation_count == old(self).continuation_count
    //@      && final(self).accumulated_header_size == old(self).accumulated_header_size,                  // [per-block-counters-do-not-decay]
    //@    !old(self).window_start.spec_elapsed_ge_window() ==> (final(self).rst_stream_count == old(self).rst_stream_count
    //@      && final(self).ping_count == old(self).ping_count && final(self).settings_count == old(self).settings_count
    //@      && final(self).empty_data_count == old(self).empty_data_count
    //@      && final(self).window_update_stream0_count == old(self).window_update_stream0_count
    //@      && final(self).glitch_count == old(self).glitch_count),                                       // [no-decay-inside-the-window]
    //@end

    // check_flood (nested fn + ten `.or_else(|| flag(..))` closures) is outside Verus' reach: NOT under contract.

    //@fn lib/src/protocol/mux/h2.rs H2FloodDetector::reset_continuation
    //@  ensures
    //@    final(self).continuation_count == 0 && final(self).accumulated_header_size == 0,                // [per-block-accounting-cleared]
    //@    final(self).rst_stream_count == old(self).rst_stream_count && final(self).glitch_count == old(self).glitch_count, // [frame]
    //@end
}

} // verus!
fn main() {}
