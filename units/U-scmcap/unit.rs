// Unit U-scmcap — command/src/scm_socket.rs manifest capacity (serves C10)
// Property sentence -> contract: "every listener ends up in the successor bound to the address it had, for any set
// of listeners up to the documented fd limit". The receiver reads the address manifest with ONE recvmsg into a
// buffer of MAX_BYTES_OUT bytes, the sender may pass any Listeners with at most MAX_FDS_OUT entries. So the
// manifest of any admissible listener set must fit:  total <= MAX_FDS_OUT  ==>  |manifest| <= MAX_BYTES_OUT.
// The two constants are the REAL ones (extracted each run); |manifest| is a spec function from the documented wire
// formats (ASSUMED): prost `repeated string` field = 1 tag byte + varint length + bytes per entry, outer
// length-delimiter varint; `SocketAddr::to_string()` is at most 21 bytes for IPv4 and 47 for IPv6 (no scope id).
use vstd::prelude::*;
verus! {

//@item command/src/scm_socket.rs const MAX_FDS_OUT
//@item command/src/scm_socket.rs const MAX_BYTES_OUT

// worst-case encoded size of ListenersCount with n4 IPv4 and n6 IPv6 entries (any split over http/tls/tcp/udp):
// one entry = 1 tag byte + 1 length byte (text < 128 bytes) + text; text <= 21 bytes for IPv4
// ("255.255.255.255:65535"), <= 47 bytes for IPv6 ("[ffff:ffff:ffff:ffff:ffff:ffff:ffff:ffff]:65535")
pub open spec fn manifest_body(n4: int, n6: int) -> int { 23 * n4 + 49 * n6 }
pub open spec fn varint_len(n: int) -> int { if n < 128 { 1 } else if n < 16384 { 2 } else if n < 2097152 { 3 } else { 10 } }
pub open spec fn manifest_size(n4: int, n6: int) -> int { varint_len(manifest_body(n4, n6)) + manifest_body(n4, n6) }

// the obligation: every admissible listener set's manifest fits the receive buffer
pub proof fn lemma_manifest_fits_receive_buffer(n4: int, n6: int)
    requires 0 <= n4, 0 <= n6, n4 + n6 <= MAX_FDS_OUT,
    ensures manifest_size(n4, n6) <= MAX_BYTES_OUT,
{
}

// the receive buffer really is MAX_BYTES_OUT bytes and the fd array MAX_FDS_OUT slots (real text of the allocation)
//@fn command/src/scm_socket.rs ScmSocket::receive_listeners
//@  rename receive_listeners_allocation
//@  sig "&self" => ""
//@  sig "Result<Listeners, ScmSocketError>" => "(Vec<u8>, [i32; MAX_FDS_OUT])"
//@  ret r
//@  substall "RawFd" => "i32"
//@  cut "let (size, file_descriptor_length) =" .. "\n    }" => "(buf, received_fds)"
//@  ensures
//@    r.0@.len() == MAX_BYTES_OUT,                         // [manifest-buffer-is-MAX_BYTES_OUT]
//@    r.1@.len() == MAX_FDS_OUT,                           // [fd-array-is-MAX_FDS_OUT]
//@end

// ---- the consistency guard of receive_listeners: a consistent message with up to MAX_FDS_OUT listeners is accepted
#[verifier::external_body] pub struct IoError { _p: () }
#[verifier::external_body] pub struct AddrParseError { _p: () }
#[verifier::external_body] pub struct DecodeError { _p: () }
//@global-subst "std::io::Error" => "IoError"
//@item command/src/scm_socket.rs enum ScmSocketError
// `a.checked_add(b).and_then(|s| s.checked_add(c)).and_then(|s| s.checked_add(d))` (closures): the checked sum (std)
#[verifier::external_body]
pub fn verif_checked_sum4(a: usize, b: usize, c: usize, d: usize) -> (r: Option<usize>)
    ensures match r { Some(t) => t as int == a + b + c + d, None => a + b + c + d > usize::MAX as int }
{ unimplemented!() }

//@fn command/src/scm_socket.rs ScmSocket::receive_listeners
//@  rename receive_listeners_guard
//@  sig "&self" => "http_len: usize, tls_len: usize, tcp_len: usize, udp_len: usize, file_descriptor_length: usize, received_fds: [i32; MAX_FDS_OUT]"
//@  sig "Result<Listeners, ScmSocketError>" => "Result<usize, ScmSocketError>"
//@  ret r
//@  cut "let mut buf = vec![0; MAX_BYTES_OUT];" .. "let total = http_len" => ""
//@  subst "http_len\n            .checked_add(tls_len)\n            .and_then(|s| s.checked_add(tcp_len))\n            .and_then(|s| s.checked_add(udp_len))" => "verif_checked_sum4(http_len, tls_len, tcp_len, udp_len)"
//@  cut "let mut http_addresses = parse_addresses(&listeners_count.http)?;" .. "\n    }" => "Ok(total)"
//@  ensures
//@    (http_len + tls_len + tcp_len + udp_len <= MAX_FDS_OUT && http_len + tls_len + tcp_len + udp_len <= file_descriptor_length)
//@        ==> (r matches Ok(t) && t == http_len + tls_len + tcp_len + udp_len),                      // [a-consistent-manifest-up-to-the-documented-fd-limit-is-accepted]
//@    r matches Ok(t) ==> t == http_len + tls_len + tcp_len + udp_len && t <= MAX_FDS_OUT && t <= file_descriptor_length, // [an-accepted-manifest-is-backed-by-received-fds]
//@end

} // verus!
fn main() {}
