    // Kani harnesses for lib/src/protocol/mux/parser.rs — appended to the REAL file in a scratch copy.
    // Input lengths are concrete per call (symbolic slice lengths make CBMC's pointer reasoning explode:
    // measured > 15 min vs 2 s); every length 0..=8 plus 9 and 12 is called explicitly, bytes are fully symbolic.

    fn any_frame_type() -> FrameType {
        let t: u8 = kani::any();
        convert_frame_type(t)
    }

    fn check_header(input: &[u8], max: u32) {
        let n = input.len();
        match frame_header(input, max) {
            Ok((rest, h)) => {
                assert!(n >= 9);
                let declared: u32 = ((input[0] as u32) << 16) | ((input[1] as u32) << 8) | (input[2] as u32);
                let raw_sid: u32 = u32::from_be_bytes([input[5], input[6], input[7], input[8]]);
                kani::cover!(h.payload_len > 0 && h.stream_id > 0);
                assert!(rest.len() == n - 9);
                assert!(rest.as_ptr() as usize == input.as_ptr() as usize + 9);
                assert!(h.payload_len == declared);
                assert!(h.payload_len <= max);
                assert!(h.flags == input[4]);
                assert!(h.stream_id == raw_sid & 0x7FFF_FFFF);
                assert!(h.frame_type == convert_frame_type(input[3]));
                // RFC 9113 §6: stream-bound frames never on stream 0, connection frames only on stream 0
                match h.frame_type {
                    FrameType::Data | FrameType::Headers | FrameType::Priority | FrameType::RstStream
                    | FrameType::PushPromise | FrameType::Continuation => assert!(h.stream_id != 0),
                    FrameType::Settings | FrameType::Ping | FrameType::GoAway | FrameType::PriorityUpdate => assert!(h.stream_id == 0),
                    FrameType::WindowUpdate | FrameType::Unknown(_) => {}
                }
            }
            Err(nom::Err::Incomplete(_)) => assert!(n < 9),
            Err(nom::Err::Failure(e)) | Err(nom::Err::Error(e)) => {
                if n >= 3 {
                    let declared: u32 = ((input[0] as u32) << 16) | ((input[1] as u32) << 8) | (input[2] as u32);
                    if declared > max {
                        // an oversize declared length is a FRAME_SIZE_ERROR
                        assert!(e.kind == ParserErrorKind::H2(H2Error::FrameSizeError));
                    }
                }
            }
        }
    }

    #[kani::proof]
    #[kani::unwind(6)]
    fn frame_header_total() {
        let buf: [u8; 12] = kani::any();
        let max: u32 = kani::any();
        check_header(&buf[..0], max);
        check_header(&buf[..1], max);
        check_header(&buf[..2], max);
        check_header(&buf[..3], max);
        check_header(&buf[..4], max);
        check_header(&buf[..5], max);
        check_header(&buf[..6], max);
        check_header(&buf[..7], max);
        check_header(&buf[..8], max);
        check_header(&buf[..9], max);
        check_header(&buf[..12], max);
        // an oversize declared length never yields Ok
        let declared: u32 = ((buf[0] as u32) << 16) | ((buf[1] as u32) << 8) | (buf[2] as u32);
        if declared > max {
            assert!(frame_header(&buf[..12], max).is_err());
        }
    }

    fn check_body(input: &[u8], header: &FrameHeader) {
        let n = input.len();
        let plen = header.payload_len as usize;
        match frame_body(input, header) {
            Ok((rest, f)) => {
                kani::cover!(rest.len() > 0);
                assert!(n >= plen);
                assert!(rest.len() == n - plen);
                assert!(rest.as_ptr() as usize == input.as_ptr() as usize + plen);
                // fixed-size frame types only parse at their size
                match header.frame_type {
                    FrameType::Priority => assert!(plen == 5),
                    FrameType::RstStream => assert!(plen == 4),
                    FrameType::Ping => assert!(plen == 8),
                    FrameType::WindowUpdate => assert!(plen == 4),
                    FrameType::Settings => assert!(plen % 6 == 0 && !(header.flags & FLAG_ACK != 0 && plen != 0)),
                    FrameType::GoAway => assert!(plen >= 8),
                    _ => {}
                }
                if let Frame::Data(d) = &f {
                    assert!(d.stream_id == header.stream_id);
                    assert!((d.payload.len as usize) <= plen);
                    assert!(d.end_stream == (header.flags & FLAG_END_STREAM != 0));
                }
            }
            Err(_) => {}
        }
        if n < plen {
            assert!(frame_body(input, header).is_err());
        }
    }

    // one harness per frame type: payload_len symbolic up to the bound, flags / stream id / bytes fully symbolic;
    // a 12-byte input (payload fits or not) and a 4-byte input (mostly the Incomplete paths)
    macro_rules! body {
        ($name:ident, $ft:expr, $maxp:expr) => {
            #[kani::proof]
            #[kani::unwind(14)]
            fn $name() {
                let buf: [u8; 12] = kani::any();
                let header = FrameHeader { payload_len: kani::any(), frame_type: $ft, flags: kani::any(), stream_id: kani::any() };
                kani::assume(header.payload_len <= $maxp);
                check_body(&buf[..], &header);
                check_body(&buf[..4], &header);
            }
        };
    }
    body!(body_data, FrameType::Data, 10);
    body!(body_headers, FrameType::Headers, 10);
    body!(body_priority, FrameType::Priority, 10);
    body!(body_rst_stream, FrameType::RstStream, 10);
    body!(body_settings, FrameType::Settings, 12);
    // PUSH_PROMISE is never accepted (a client must not send it, and sozu does not enable push towards backends):
    // the generic body checks plus "never Ok" — so the vacuity cover of this harness is the refusal itself
    #[kani::proof]
    #[kani::unwind(14)]
    fn body_push_promise() {
        let buf: [u8; 12] = kani::any();
        let header = FrameHeader { payload_len: kani::any(), frame_type: FrameType::PushPromise, flags: kani::any(), stream_id: kani::any() };
        kani::assume(header.payload_len <= 10);
        check_body(&buf[..], &header);
        check_body(&buf[..4], &header);
        assert!(frame_body(&buf[..], &header).is_err());
        assert!(frame_body(&buf[..4], &header).is_err());
        kani::cover!(frame_body(&buf[..], &header).is_err());
    }
    body!(body_ping, FrameType::Ping, 10);
    body!(body_goaway, FrameType::GoAway, 10);
    body!(body_window_update, FrameType::WindowUpdate, 10);
    body!(body_continuation, FrameType::Continuation, 10);
    body!(body_priority_update, FrameType::PriorityUpdate, 10);
    body!(body_unknown, FrameType::Unknown(kani::any()), 10);
