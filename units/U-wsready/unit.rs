// Unit U-wsready — bin/src/command/sessions.rs: WorkerSession::ready (C09)
// Property sentence -> contract: "the main process's verdict matches what the workers did": an answer a worker has
// written to its channel is never thrown away by the main process — in particular not when the worker answers and
// exits at once (READABLE and HUP arrive in the same event: the last answer of a SoftStop / HardStop).
//   - whatever the channel's readiness says, the answers that can be read are read first and handed to the hub;
//   - the session is closed only when nothing was left to read AND the channel reports an error / hang-up.
// Hand-written: the channel narrowed to its readiness word and a ghost sequence of the messages that are readable;
// extract_messages (same file, a read loop over the real Channel proved in U-chan) enters by its contract: it returns
// exactly the readable messages, in order, and leaves none.
use vstd::prelude::*;
verus! {

#[verifier::external_body] pub struct WorkerResponse { _p: () }
#[verifier::external_body] pub struct ChannelStatus { _p: () }
pub struct Ready { pub error: bool, pub hup: bool }
impl Ready {
    pub fn is_error(&self) -> (r: bool) ensures r == self.error { self.error }
    pub fn is_hup(&self) -> (r: bool) ensures r == self.hup { self.hup }
}
pub struct Channel { pub readiness: Ready, pub verif_readable: Ghost<Seq<WorkerResponse>> }
impl Channel {
    // flushes the back buffer; reads nothing
    #[verifier::external_body]
    pub fn writable(&mut self) -> (r: ChannelStatus)
        ensures final(self).verif_readable@ == old(self).verif_readable@, final(self).readiness == old(self).readiness
    { unimplemented!() }
}
// ASSUMED (read loop over Channel::readable / read_message, whose framing is proved in U-chan)
#[verifier::external_body]
pub fn extract_messages(channel: &mut Channel) -> (r: Vec<WorkerResponse>)
    ensures r@ == old(channel).verif_readable@, final(channel).verif_readable@.len() == 0, final(channel).readiness == old(channel).readiness
{ unimplemented!() }

pub type WorkerId = u32;
//@item bin/src/command/sessions.rs enum WorkerResult
pub struct WorkerSession { pub channel: Channel, pub id: WorkerId }
impl WorkerSession {
    //@fn bin/src/command/sessions.rs WorkerSession::ready
    //@  ret r
    //@  ensures
    //@    old(self).channel.verif_readable@.len() > 0 ==> (r matches WorkerResult::NewResponses(v) && v@ == old(self).channel.verif_readable@), // [answers-that-can-be-read-are-handed-over-whatever-the-readiness]
    //@    r is CloseSession ==> old(self).channel.verif_readable@.len() == 0 && (old(self).channel.readiness.error || old(self).channel.readiness.hup), // [the-session-closes-only-with-nothing-left-to-read]
    //@    (old(self).channel.verif_readable@.len() == 0 && (old(self).channel.readiness.error || old(self).channel.readiness.hup)) ==> r is CloseSession, // [a-dead-channel-with-nothing-to-read-is-closed]
    //@end
}

} // verus!
fn main() {}
