    // Bounded native enumeration for C17, third sentence (unit N-sni): the REAL authority_matched_cert_name /
    // authority_matches_sni (pub(crate) in router.rs; appended as a test module in a scratch copy) against an
    // independent RFC 6125 §6.4.3 matcher written for this unit, over every authority x certificate-name list of a
    // universe built from labels {a, b, ab, A, *, ""} (1..4 labels), with / without a trailing dot and the port
    // suffixes {"", ":1", ":443", ":", ":x"}; certificate names are 1..3-label names, plain or with a left-most `*.`,
    // an embedded `*`, or a second `*`; lists of one or two names.
    //   - Some(n) is returned only if n is one of the names and covers the authority's host;
    //   - None is returned only if the host is empty or no name of the list covers it.
    // "covers": after removing one all-digit ":port" suffix and one trailing dot from the authority, either the name
    // has no `*` and equals the host ASCII-case-insensitively, or it is `*.` + suffix without further `*` and the host
    // is one non-empty dot-free label + "." + a string equal to suffix ASCII-case-insensitively.
    fn model_host(authority: &str) -> &str {
        let h = match authority.rfind(':') {
            Some(i) if i + 1 < authority.len() && authority[i + 1..].bytes().all(|b| b.is_ascii_digit()) => &authority[..i],
            _ => authority,
        };
        h.strip_suffix('.').unwrap_or(h)
    }
    fn model_covers(name: &str, host: &str) -> bool {
        if host.is_empty() { return false; }
        if let Some(suffix) = name.strip_prefix("*.") {
            if suffix.contains('*') { return false; }
            let Some(dot) = host.find('.') else { return false };
            let (label, rest) = (&host[..dot], &host[dot + 1..]);
            return !label.is_empty() && rest.len() == suffix.len() && rest.to_ascii_lowercase() == suffix.to_ascii_lowercase();
        }
        if name.contains('*') { return false; }
        name.len() == host.len() && name.to_ascii_lowercase() == host.to_ascii_lowercase()
    }

    #[test]
    fn enumerate() {
        let args = std::env::var("VERIF_NATIVE_ARGS").unwrap_or_default();
        let thorough = args.contains("thorough");
        let labels: Vec<&str> = if thorough { vec!["a", "b", "ab", "A", "*", "", "ba"] } else { vec!["a", "b", "ab", "A", "*", ""] };
        let mut hosts: Vec<String> = Vec::new();
        let maxl = 4;
        let mut stack: Vec<Vec<&str>> = labels.iter().map(|l| vec![*l]).collect();
        while let Some(cur) = stack.pop() {
            hosts.push(cur.join("."));
            if cur.len() < maxl { for l in &labels { let mut n = cur.clone(); n.push(l); stack.push(n); } }
        }
        hosts.sort(); hosts.dedup();
        let mut names: Vec<String> = hosts.iter().filter(|h| h.split('.').count() <= 3).cloned().collect();
        names.sort(); names.dedup();
        let ports = ["", ":1", ":443", ":", ":x"];
        let (mut n, mut matched, mut fails): (u64, u64, Vec<(String, String)>) = (0, 0, Vec::new());
        let pair_names: Vec<String> = vec!["a.b".into(), "*.a.b".into(), "*.b".into(), "A.B".into(), "*.ab".into()];
        'all: for host in &hosts {
            for dot in ["", "."] {
                for port in ports {
                    let authority = format!("{host}{dot}{port}");
                    let mh = model_host(&authority);
                    for name in &names {
                        for second in std::iter::once(None).chain(pair_names.iter().map(Some)) {
                            if second.is_some() && !thorough && !(name.starts_with("*.") || name.contains('*')) { continue; }
                            let list: Vec<String> = match second { None => vec![name.clone()], Some(s) => vec![name.clone(), s.clone()] };
                            n += 1;
                            let got = authority_matched_cert_name(&authority, &list);
                            let any = list.iter().any(|x| model_covers(x, mh));
                            match got {
                                Some(g) => {
                                    matched += 1;
                                    if !list.iter().any(|x| x == g) || !model_covers(g, mh) {
                                        fails.push((format!("authority {authority:?}, certificate names {list:?}"), format!("returned Some({g:?}), which does not cover host {mh:?} (RFC 6125 §6.4.3): a request for this authority would be routed on a connection whose certificate does not cover it")));
                                    }
                                }
                                None => if any {
                                    fails.push((format!("authority {authority:?}, certificate names {list:?}"), format!("returned None although a name of the list covers host {mh:?}")));
                                },
                            }
                            if fails.len() >= 3 { break 'all; }
                        }
                    }
                }
            }
        }
        let fl: Vec<String> = fails.iter().map(|(i, o)| format!("{{\"input\": {:?}, \"observed\": {:?}}}", i, o)).collect();
        println!("{{\"bound\": \"{} authorities-hosts of 1..4 labels over {} labels x trailing dot x 5 port suffixes x {} certificate names (plain, wildcard, embedded / double wildcard) x single and paired lists\", \"states\": {n}, \"pairs\": {n}, \"nontrivial_pairs\": {matched}, \"failures\": [{}]}}", hosts.len(), labels.len(), names.len(), fl.join(", "));
    }
