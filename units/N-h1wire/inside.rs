    // Bounded native check for C03 on the wire (unit N-h1wire): a REAL in-process worker (HTTP listener, one cluster, one
    // backend) and a raw recording backend; appended as a test module to e2e/src/tests/tests.rs in a scratch copy (the
    // e2e helpers are private to that crate). For each client byte string the backend records everything it receives on
    // its connection; then every request head the backend can see (a line `METHOD SP target SP HTTP/1.1` at the start of
    // the stream or right after a message end as a conforming backend frames it) must be one that sozu itself processed:
    // it carries sozu's own per-request header (Sozu-Id) — a request the backend sees but sozu relayed as opaque bytes was
    // never routed, authorised, edited or logged by sozu.
    use std::io::{Read, Write};
    use std::net::{TcpListener, TcpStream};
    use crate::tests::setup_test;

    /// every backend connection sozu opens for this client connection, with the bytes received on it
    fn record(front: SocketAddr, back: &TcpListener, client_bytes: &[u8]) -> Vec<Vec<u8>> {
        back.set_nonblocking(true).unwrap();
        while back.accept().is_ok() {}   // connections left over from the previous case
        let mut client = TcpStream::connect(front).expect("connect to sozu");
        client.set_read_timeout(Some(Duration::from_millis(200))).unwrap();
        client.write_all(client_bytes).expect("send");
        client.flush().unwrap();
        let mut streams: Vec<Vec<u8>> = Vec::new();
        let mut sink = [0u8; 4096];
        // sozu may answer by itself (400 ...) without connecting to the backend: wait 4 s for a first connection, and
        // 0.7 s after each one for the next (a pipelined request sozu processes itself comes on a new connection)
        let mut deadline = Instant::now() + Duration::from_millis(4000);
        loop {
            match back.accept() {
                Ok((mut conn, _)) => {
                    conn.set_nonblocking(false).unwrap();
                    conn.set_read_timeout(Some(Duration::from_millis(500))).unwrap();
                    let mut seen = Vec::new();
                    let mut buf = [0u8; 8192];
                    loop { match conn.read(&mut buf) { Ok(0) => break, Ok(n) => seen.extend_from_slice(&buf[..n]), Err(_) => break } }
                    let _ = conn.write_all(b"HTTP/1.1 200 OK\r\nContent-Length: 2\r\nConnection: close\r\n\r\nok");
                    drop(conn);
                    let _ = client.read(&mut sink);
                    streams.push(seen);
                    deadline = Instant::now() + Duration::from_millis(700);
                }
                Err(_) if Instant::now() < deadline => thread::sleep(Duration::from_millis(20)),
                Err(_) => break,
            }
        }
        drop(client);
        thread::sleep(Duration::from_millis(100));
        streams
    }

    /// request heads as a conforming backend frames the stream (Content-Length / chunked with OWS-trimmed value / no body)
    fn heads_seen_by_backend(stream: &[u8]) -> Vec<String> {
        let mut heads = Vec::new();
        let mut pos = 0;
        while pos < stream.len() {
            let Some(end) = stream[pos..].windows(4).position(|w| w == b"\r\n\r\n") else { break };
            let head = String::from_utf8_lossy(&stream[pos..pos + end]).into_owned();
            pos += end + 4;
            let lower = head.to_ascii_lowercase();
            let te_chunked = lower.lines().any(|l| l.starts_with("transfer-encoding:") && l["transfer-encoding:".len()..].trim_matches(|c| c == ' ' || c == '\t').ends_with("chunked"));
            let cl: Option<usize> = lower.lines().find(|l| l.starts_with("content-length:")).and_then(|l| l["content-length:".len()..].trim().parse().ok());
            heads.push(head);
            if te_chunked {
                loop {
                    let Some(e) = stream[pos..].windows(2).position(|w| w == b"\r\n") else { return heads };
                    let size = usize::from_str_radix(String::from_utf8_lossy(&stream[pos..pos + e]).trim(), 16).unwrap_or(0);
                    pos += e + 2;
                    if size == 0 { pos = (pos + 2).min(stream.len()); break; }
                    pos = (pos + size + 2).min(stream.len());
                }
            } else if let Some(n) = cl { pos = (pos + n).min(stream.len()); }
        }
        heads
    }

    #[test]
    fn enumerate() {
        let front_address = create_local_address();
        let (config, listeners, state) = Worker::empty_config();
        let (mut worker, backends) = setup_test("VERIF-H1WIRE", config, listeners, state, front_address, 1, false);
        let back = crate::port_registry::bind_std_listener(backends[0], "raw recording backend");
        let cases: Vec<(&str, Vec<u8>)> = vec![
            ("one GET", b"GET /a HTTP/1.1\r\nHost: localhost\r\n\r\n".to_vec()),
            ("two bodyless GETs written together", b"GET /a HTTP/1.1\r\nHost: localhost\r\n\r\nGET /b HTTP/1.1\r\nHost: localhost\r\n\r\n".to_vec()),
            ("POST with Content-Length, then a GET", b"POST /a HTTP/1.1\r\nHost: localhost\r\nContent-Length: 5\r\n\r\nhelloGET /b HTTP/1.1\r\nHost: localhost\r\n\r\n".to_vec()),
            ("chunked POST, then a GET", b"POST /a HTTP/1.1\r\nHost: localhost\r\nTransfer-Encoding: chunked\r\n\r\n5\r\nhello\r\n0\r\n\r\nGET /b HTTP/1.1\r\nHost: localhost\r\n\r\n".to_vec()),
            ("POST with `Transfer-Encoding: chunked<HTAB>`, a chunked body, then a GET", b"POST /a HTTP/1.1\r\nHost: localhost\r\nTransfer-Encoding: chunked\t\r\n\r\n5\r\nhello\r\n0\r\n\r\nGET /b HTTP/1.1\r\nHost: localhost\r\n\r\n".to_vec()),
        ];
        let (mut n, mut forwarded, mut fails): (u64, u64, Vec<(String, String)>) = (0, 0, Vec::new());
        for (name, bytes) in &cases {
            n += 1;
            let streams = record(front_address, &back, bytes);
            if !streams.is_empty() { forwarded += 1; }
            'case: for (si, seen) in streams.iter().enumerate() {
                let heads = heads_seen_by_backend(seen);
                println!("N-h1wire case {name:?}: backend connection #{si} received {} octets, {} request head(s): {:?}", seen.len(), heads.len(), heads.iter().map(|h| h.lines().next().unwrap_or("").to_string()).collect::<Vec<_>>());
                for (k, h) in heads.iter().enumerate() {
                    let first = h.lines().next().unwrap_or("");
                    if !h.to_ascii_lowercase().contains("\nsozu-id:") {
                        fails.push((format!("{name}: client bytes {:?}", String::from_utf8_lossy(bytes)), format!("the backend sees request #{k} {first:?} which sozu relayed as opaque bytes (no Sozu-Id, no X-Forwarded-For: never parsed, routed or logged); bytes received by the backend: {:?}", String::from_utf8_lossy(seen))));
                        break 'case;
                    }
                }
            }
        }
        worker.soft_stop();
        let _ = worker.wait_for_server_stop();
        // ---- HTTP/2 front, HTTP/1.1 backend: a Content-Length framed request with a trailer section, then a second request
        {
            use crate::tests::h2_utils::{h2_handshake, raw_h2_connection, H2Frame};
            use sozu_command_lib::proto::command::{AddCertificate, CertificateAndKey, RequestHttpFrontend, SocketAddress};
            fn lit(buf: &mut Vec<u8>, name: &[u8], value: &[u8]) { buf.push(0x00); buf.push(name.len() as u8); buf.extend_from_slice(name); buf.push(value.len() as u8); buf.extend_from_slice(value); }
            let front_port = crate::port_registry::provide_port();
            let front = SocketAddress::new_v4(127, 0, 0, 1, front_port);
            let (config, listeners, state) = Worker::empty_https_config(front.clone().into());
            let mut worker = Worker::start_new_worker_owned("VERIF-H1WIRE-H2", config, listeners, state);
            worker.send_proxy_request_type(RequestType::AddHttpsListener(ListenerBuilder::new_https(front.clone()).to_tls(None).unwrap()));
            worker.send_proxy_request_type(RequestType::ActivateListener(ActivateListener { address: front.clone(), proxy: ListenerType::Https.into(), from_scm: false }));
            worker.send_proxy_request_type(RequestType::AddCluster(Worker::default_cluster("cluster_0")));
            worker.send_proxy_request_type(RequestType::AddHttpsFrontend(RequestHttpFrontend { hostname: String::from("localhost"), ..Worker::default_http_frontend("cluster_0", front.clone().into()) }));
            worker.send_proxy_request_type(RequestType::AddCertificate(AddCertificate { address: front.clone(), certificate: CertificateAndKey { certificate: String::from(include_str!("../../../lib/assets/local-certificate.pem")), key: String::from(include_str!("../../../lib/assets/local-key.pem")), certificate_chain: vec![], versions: vec![], names: vec![] }, expired_at: None }));
            let back_address = create_local_address();
            worker.send_proxy_request_type(RequestType::AddBackend(Worker::default_backend("cluster_0", "cluster_0-0", back_address, None)));
            worker.read_to_last();
            let back = crate::port_registry::bind_std_listener(back_address, "raw recording backend (h2 case)");
            back.set_nonblocking(true).unwrap();
            let mut hp = Vec::new();
            lit(&mut hp, b":method", b"POST"); lit(&mut hp, b":scheme", b"https"); lit(&mut hp, b":path", b"/upload"); lit(&mut hp, b":authority", b"localhost");
            let mut hcl = hp.clone();
            lit(&mut hcl, b"content-length", b"5");
            let mut tr = Vec::new();
            lit(&mut tr, b"x-foo", b"bar");
            let mut hnext = Vec::new();
            lit(&mut hnext, b":method", b"GET"); lit(&mut hnext, b":scheme", b"https"); lit(&mut hnext, b":path", b"/next"); lit(&mut hnext, b":authority", b"localhost");
            for (name, head, chunked) in [("H2 front: HEADERS(POST /upload, content-length: 5), DATA(hello), trailer HEADERS(x-foo: bar, END_STREAM), then GET /next on stream 3", hcl.clone(), false),
                                          ("H2 front: HEADERS(POST /upload, no content-length), DATA(hello), trailer HEADERS(x-foo: bar, END_STREAM), then GET /next on stream 3", hp.clone(), true)] {
                while back.accept().is_ok() {}
                let mut tls = raw_h2_connection(std::net::SocketAddr::from(([127, 0, 0, 1], front_port)));
                h2_handshake(&mut tls);
                n += 1;
                let _ = tls.write_all(&H2Frame::headers(1, head, true, false).encode());
                let _ = tls.write_all(&H2Frame::data(1, b"hello".to_vec(), false).encode());
                let _ = tls.write_all(&H2Frame::headers(1, tr.clone(), true, true).encode());
                let _ = tls.flush();
                // record the backend connection that carries the POST, answer it, then send the second request
                let mut streams: Vec<Vec<u8>> = Vec::new();
                let mut deadline = Instant::now() + Duration::from_millis(4000);
                let mut second_sent = false;
                loop {
                    match back.accept() {
                        Ok((mut conn, _)) => {
                            conn.set_nonblocking(false).unwrap();
                            conn.set_read_timeout(Some(Duration::from_millis(500))).unwrap();
                            let mut seen = Vec::new();
                            let mut buf = [0u8; 8192];
                            loop { match conn.read(&mut buf) { Ok(0) => break, Ok(k) => seen.extend_from_slice(&buf[..k]), Err(_) => break } }
                            let _ = conn.write_all(b"HTTP/1.1 200 OK\r\nContent-Length: 2\r\n\r\nok");
                            if !second_sent {
                                second_sent = true;
                                let _ = tls.write_all(&H2Frame::headers(3, hnext.clone(), true, true).encode());
                                let _ = tls.flush();
                                // what arrives on the SAME backend connection after the first answer
                                conn.set_read_timeout(Some(Duration::from_millis(700))).unwrap();
                                loop { match conn.read(&mut buf) { Ok(0) => break, Ok(k) => seen.extend_from_slice(&buf[..k]), Err(_) => break } }
                                let _ = conn.write_all(b"HTTP/1.1 200 OK\r\nContent-Length: 2\r\n\r\nok");
                            }
                            streams.push(seen);
                            deadline = Instant::now() + Duration::from_millis(700);
                        }
                        Err(_) if Instant::now() < deadline => thread::sleep(Duration::from_millis(20)),
                        Err(_) => break,
                    }
                }
                if !streams.is_empty() { forwarded += 1; }
                'h2case: for (si, seen) in streams.iter().enumerate() {
                    println!("N-h1wire case {name:?}: backend connection #{si} received {:?}", String::from_utf8_lossy(seen));
                    let Some(p) = seen.windows(4).position(|w| w == b"\r\n\r\n") else { continue };
                    let first_head = String::from_utf8_lossy(&seen[..p]).to_ascii_lowercase();
                    if !first_head.starts_with("post /upload") { continue; }
                    let rest = &seen[p + 4..];
                    // the message body as the framing of the forwarded head requires it, then only requests sozu processed
                    let body_end = if chunked {
                        let want: &[u8] = b"5\r\nhello\r\n0\r\nx-foo: bar\r\n\r\n";
                        let want_no_trailers: &[u8] = b"5\r\nhello\r\n0\r\n\r\n";
                        if rest.starts_with(want) { want.len() } else if rest.starts_with(want_no_trailers) { want_no_trailers.len() } else {
                            fails.push((name.to_string(), format!("the chunked body sozu writes to the HTTP/1.1 backend is {:?}: not a valid chunked coding (RFC 9112 §7.1: chunks, last-chunk \"0\", trailer section, empty line)", String::from_utf8_lossy(&rest[..rest.len().min(80)]))));
                            break 'h2case;
                        }
                    } else {
                        if !rest.starts_with(b"hello") { fails.push((name.to_string(), format!("the body is {:?}", String::from_utf8_lossy(&rest[..rest.len().min(40)])))); break 'h2case; }
                        5
                    };
                    let after = &rest[body_end..];
                    if !after.is_empty() {
                        let hs = heads_seen_by_backend(after);
                        let bad = hs.first().map(|h| !h.to_ascii_lowercase().contains("\nsozu-id:")).unwrap_or(true);
                        if bad {
                            fails.push((name.to_string(), format!("on the HTTP/1.1 backend connection the octets {:?} follow the end of the message: they are not a request sozu processed, the backend reads them as the start of the next message", String::from_utf8_lossy(&after[..after.len().min(80)]))));
                            break 'h2case;
                        }
                    }
                }
            }
            worker.soft_stop();
            let _ = worker.wait_for_server_stop();
        }
        let fl: Vec<String> = fails.iter().map(|(i, o)| format!("{{\"input\": {:?}, \"observed\": {:?}}}", i, o)).collect();
        println!("{{\"bound\": \"5 HTTP/1.1 client byte strings and 2 HTTP/2 scenarios (a Content-Length framed and a length-less request with trailers, each followed by a second request) through a real worker to a recording backend\", \"states\": {n}, \"pairs\": {n}, \"nontrivial_pairs\": {forwarded}, \"failures\": [{}]}}", fl.join(", "));
    }
