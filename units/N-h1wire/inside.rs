    // Bounded native check for C03 on the wire (unit N-h1wire): a REAL in-process worker (HTTP listener, one cluster, one
    // backend) and a raw recording backend; appended as a test module to e2e/src/tests/tests.rs in a scratch copy (the
    // e2e helpers are private to that crate). For each client byte string the backend records everything it receives on
    // its connection; then every request head the backend can see (a line `METHOD SP target SP HTTP/1.1` at the start of
    // the stream or right after a message end as a conforming backend frames it) must be one that sozu itself processed:
    // it carries sozu's own per-request header (Sozu-Id) — a request the backend sees but sozu relayed as opaque bytes was
    // never routed, authorised, edited or logged by sozu.
    use std::io::{Read, Write};
    use std::net::{TcpListener, TcpStream};
    use crate::tests::setup_test;

    /// every backend connection sozu opens for this client connection, with the bytes received on it
    fn record(front: SocketAddr, back: &TcpListener, client_bytes: &[u8]) -> Vec<Vec<u8>> {
        back.set_nonblocking(true).unwrap();
        while back.accept().is_ok() {}   // connections left over from the previous case
        let mut client = TcpStream::connect(front).expect("connect to sozu");
        client.set_read_timeout(Some(Duration::from_millis(200))).unwrap();
        client.write_all(client_bytes).expect("send");
        client.flush().unwrap();
        let mut streams: Vec<Vec<u8>> = Vec::new();
        let mut sink = [0u8; 4096];
        // sozu may answer by itself (400 ...) without connecting to the backend: wait 4 s for a first connection, and
        // 0.7 s after each one for the next (a pipelined request sozu processes itself comes on a new connection)
        let mut deadline = Instant::now() + Duration::from_millis(4000);
        loop {
            match back.accept() {
                Ok((mut conn, _)) => {
                    conn.set_nonblocking(false).unwrap();
                    conn.set_read_timeout(Some(Duration::from_millis(500))).unwrap();
                    let mut seen = Vec::new();
                    let mut buf = [0u8; 8192];
                    loop { match conn.read(&mut buf) { Ok(0) => break, Ok(n) => seen.extend_from_slice(&buf[..n]), Err(_) => break } }
                    let _ = conn.write_all(b"HTTP/1.1 200 OK\r\nContent-Length: 2\r\nConnection: close\r\n\r\nok");
                    drop(conn);
                    let _ = client.read(&mut sink);
                    streams.push(seen);
                    deadline = Instant::now() + Duration::from_millis(700);
                }
                Err(_) if Instant::now() < deadline => thread::sleep(Duration::from_millis(20)),
                Err(_) => break,
            }
        }
        drop(client);
        thread::sleep(Duration::from_millis(100));
        streams
    }

    /// request heads as a conforming backend frames the stream (Content-Length / chunked with OWS-trimmed value / no body)
    fn heads_seen_by_backend(stream: &[u8]) -> Vec<String> {
        let mut heads = Vec::new();
        let mut pos = 0;
        while pos < stream.len() {
            let Some(end) = stream[pos..].windows(4).position(|w| w == b"\r\n\r\n") else { break };
            let head = String::from_utf8_lossy(&stream[pos..pos + end]).into_owned();
            pos += end + 4;
            let lower = head.to_ascii_lowercase();
            let te_chunked = lower.lines().any(|l| l.starts_with("transfer-encoding:") && l["transfer-encoding:".len()..].trim_matches(|c| c == ' ' || c == '\t').ends_with("chunked"));
            let cl: Option<usize> = lower.lines().find(|l| l.starts_with("content-length:")).and_then(|l| l["content-length:".len()..].trim().parse().ok());
            heads.push(head);
            if te_chunked {
                loop {
                    let Some(e) = stream[pos..].windows(2).position(|w| w == b"\r\n") else { return heads };
                    let size = usize::from_str_radix(String::from_utf8_lossy(&stream[pos..pos + e]).trim(), 16).unwrap_or(0);
                    pos += e + 2;
                    if size == 0 { pos = (pos + 2).min(stream.len()); break; }
                    pos = (pos + size + 2).min(stream.len());
                }
            } else if let Some(n) = cl { pos = (pos + n).min(stream.len()); }
        }
        heads
    }

    #[test]
    fn enumerate() {
        let front_address = create_local_address();
        let (config, listeners, state) = Worker::empty_config();
        let (mut worker, backends) = setup_test("VERIF-H1WIRE", config, listeners, state, front_address, 1, false);
        let back = crate::port_registry::bind_std_listener(backends[0], "raw recording backend");
        let cases: Vec<(&str, Vec<u8>)> = vec![
            ("one GET", b"GET /a HTTP/1.1\r\nHost: localhost\r\n\r\n".to_vec()),
            ("two bodyless GETs written together", b"GET /a HTTP/1.1\r\nHost: localhost\r\n\r\nGET /b HTTP/1.1\r\nHost: localhost\r\n\r\n".to_vec()),
            ("POST with Content-Length, then a GET", b"POST /a HTTP/1.1\r\nHost: localhost\r\nContent-Length: 5\r\n\r\nhelloGET /b HTTP/1.1\r\nHost: localhost\r\n\r\n".to_vec()),
            ("chunked POST, then a GET", b"POST /a HTTP/1.1\r\nHost: localhost\r\nTransfer-Encoding: chunked\r\n\r\n5\r\nhello\r\n0\r\n\r\nGET /b HTTP/1.1\r\nHost: localhost\r\n\r\n".to_vec()),
            ("POST with `Transfer-Encoding: chunked<HTAB>`, a chunked body, then a GET", b"POST /a HTTP/1.1\r\nHost: localhost\r\nTransfer-Encoding: chunked\t\r\n\r\n5\r\nhello\r\n0\r\n\r\nGET /b HTTP/1.1\r\nHost: localhost\r\n\r\n".to_vec()),
        ];
        let (mut n, mut forwarded, mut fails): (u64, u64, Vec<(String, String)>) = (0, 0, Vec::new());
        for (name, bytes) in &cases {
            n += 1;
            let streams = record(front_address, &back, bytes);
            if !streams.is_empty() { forwarded += 1; }
            'case: for (si, seen) in streams.iter().enumerate() {
                let heads = heads_seen_by_backend(seen);
                println!("N-h1wire case {name:?}: backend connection #{si} received {} octets, {} request head(s): {:?}", seen.len(), heads.len(), heads.iter().map(|h| h.lines().next().unwrap_or("").to_string()).collect::<Vec<_>>());
                for (k, h) in heads.iter().enumerate() {
                    let first = h.lines().next().unwrap_or("");
                    if !h.to_ascii_lowercase().contains("\nsozu-id:") {
                        fails.push((format!("{name}: client bytes {:?}", String::from_utf8_lossy(bytes)), format!("the backend sees request #{k} {first:?} which sozu relayed as opaque bytes (no Sozu-Id, no X-Forwarded-For: never parsed, routed or logged); bytes received by the backend: {:?}", String::from_utf8_lossy(seen))));
                        break 'case;
                    }
                }
            }
        }
        worker.soft_stop();
        let _ = worker.wait_for_server_stop();
        let fl: Vec<String> = fails.iter().map(|(i, o)| format!("{{\"input\": {:?}, \"observed\": {:?}}}", i, o)).collect();
        println!("{{\"bound\": \"5 client byte strings through a real worker to a recording backend\", \"states\": {n}, \"pairs\": {n}, \"nontrivial_pairs\": {forwarded}, \"failures\": [{}]}}", fl.join(", "));
    }
