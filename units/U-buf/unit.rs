// Unit U-buf — command/src/buffer/growable.rs `Buffer` (serves C11)
// Hand-written part: spec functions (wf, view, spare), the monomorphic min shim.
// Everything between //@fn … //@end is the real function text from /repo.
#![feature(allocator_api)]
use vstd::prelude::*;
use std::ptr;
verus! {
global size_of usize == 8;

pub open spec fn min_int(a: int, b: int) -> int { if a <= b { a } else { b } }

// R6 target for `cmp::min(` (generic Ord is outside Verus); verified, not trusted.
pub fn verif_min(a: usize, b: usize) -> (r: usize)
    ensures r as int == min_int(a as int, b as int)
{ if a <= b { a } else { b } }

// ASSUMED contract on std (documented: shrink_to_fit changes capacity only, never contents).
pub assume_specification<T, A: std::alloc::Allocator>[ std::vec::Vec::<T, A>::shrink_to_fit ](v: &mut std::vec::Vec<T, A>)
    ensures final(v)@ == old(v)@;

//@item command/src/buffer/growable.rs struct Buffer

impl Buffer {
    pub open spec fn wf(&self) -> bool {
        &&& self.position <= self.end
        &&& self.end <= self.capacity
        &&& self.capacity == self.memory@.len()
        // allocation limit of Vec<u8> (std guarantees len <= isize::MAX); stated, not proved
        &&& self.capacity <= isize::MAX as usize
    }
    pub open spec fn view(&self) -> Seq<u8> {
        self.memory@.subrange(self.position as int, self.end as int)
    }
    pub open spec fn spare(&self) -> Seq<u8> {
        self.memory@.subrange(self.end as int, self.capacity as int)
    }

    //@fn command/src/buffer/growable.rs Buffer::with_capacity
    //@  ret r
    //@  requires
    //@    capacity <= isize::MAX as usize,
    //@  ensures
    //@    r.wf(),                                   // [wf]
    //@    r.view() =~= Seq::<u8>::empty(),          // [empty]
    //@    r.capacity == capacity,                   // [capacity]
    //@end

    //@fn command/src/buffer/growable.rs Buffer::grow
    //@  ret r
    //@  requires
    //@    old(self).wf(),
    //@    new_size <= isize::MAX as usize,
    //@  ensures
    //@    final(self).wf(),                                                // [wf]
    //@    final(self).view() =~= old(self).view(),                         // [view-preserved]
    //@    r <==> old(self).capacity < new_size,                            // [grows-iff-larger]
    //@    r ==> final(self).capacity == new_size,                          // [new-capacity]
    //@    !r ==> final(self).capacity == old(self).capacity,               // [no-change]
    //@    final(self).position == old(self).position && final(self).end == old(self).end, // [offsets]
    //@end

    //@fn command/src/buffer/growable.rs Buffer::shift
    //@  external_body
    //@  requires
    //@    old(self).wf(),
    //@  ensures
    //@    final(self).wf(),                                        // [wf]
    //@    final(self).view() =~= old(self).view(),                 // [view-preserved]
    //@    final(self).capacity == old(self).capacity,              // [capacity]
    //@    final(self).position == 0,                               // [position-zero]
    //@    final(self).end == old(self).end - old(self).position,   // [end]
    //@end

    //@fn command/src/buffer/growable.rs Buffer::shrink
    //@  ret r
    //@  requires
    //@    old(self).wf(),
    //@  ensures
    //@    final(self).wf(),                                                // [wf]
    //@    final(self).view() =~= old(self).view(),                         // [view-preserved]
    //@    r <==> (target_size < old(self).capacity && old(self).view().len() <= target_size), // [shrinks-iff-fits]
    //@    r ==> final(self).capacity == target_size,                       // [new-capacity]
    //@    !r ==> final(self).capacity == old(self).capacity,               // [no-change]
    //@end

    // R7: `&mut self.memory[a..b]` — vstd has no usable spec for IndexMut<Range> on Vec, so the
    // body is not verified by Verus; the contract below is the goal of Kani unit K-bufmem.
    //@fn command/src/buffer/growable.rs Buffer::space
    //@  ret r
    //@  external_body
    //@  requires
    //@    old(self).wf(),
    //@  ensures
    //@    (*r)@ =~= old(self).spare(),                                                         // [is-spare]
    //@    final(self).wf(),                                                                    // [wf]
    //@    final(self).position == old(self).position && final(self).end == old(self).end && final(self).capacity == old(self).capacity, // [offsets]
    //@    final(self).memory@ =~= old(self).memory@.subrange(0, old(self).end as int) + (*final(r))@, // [frame]
    //@    (*final(r))@.len() == (*r)@.len(),                                                   // [len]
    //@end

    //@fn command/src/buffer/growable.rs Buffer::available_data
    //@  ret r
    //@  requires
    //@    self.wf(),
    //@  ensures
    //@    r == self.view().len(),                   // [len]
    //@end

    //@fn command/src/buffer/growable.rs Buffer::available_space
    //@  ret r
    //@  requires
    //@    self.wf(),
    //@  ensures
    //@    r == self.capacity - self.end,            // [space]
    //@end

    //@fn command/src/buffer/growable.rs Buffer::capacity
    //@  ret r
    //@  ensures
    //@    r == self.capacity,                       // [is-capacity]
    //@end

    //@fn command/src/buffer/growable.rs Buffer::empty
    //@  ret r
    //@  requires
    //@    self.wf(),
    //@  ensures
    //@    r <==> self.view().len() == 0,            // [iff-no-data]
    //@end

    //@fn command/src/buffer/growable.rs Buffer::consume
    //@  ret cnt
    //@  subst "cmp::min(" => "verif_min("
    //@  requires
    //@    old(self).wf(),
    //@  ensures
    //@    final(self).wf(),                                                                  // [wf]
    //@    cnt as int == min_int(count as int, old(self).view().len() as int),                // [count]
    //@    final(self).view() =~= old(self).view().subrange(cnt as int, old(self).view().len() as int), // [drops-front]
    //@    final(self).capacity == old(self).capacity,                                        // [capacity]
    //@end

    //@fn command/src/buffer/growable.rs Buffer::fill
    //@  ret cnt
    //@  subst "cmp::min(" => "verif_min("
    //@  requires
    //@    old(self).wf(),
    //@  ensures
    //@    final(self).wf(),                                                                  // [wf]
    //@    cnt as int == min_int(count as int, old(self).capacity - old(self).end),           // [count]
    //@    final(self).view() =~= old(self).view() + old(self).spare().subrange(0, cnt as int), // [extends-back]
    //@    final(self).capacity == old(self).capacity,                                        // [capacity]
    //@end

    //@fn command/src/buffer/growable.rs Buffer::reset
    //@  requires
    //@    old(self).wf(),
    //@  ensures
    //@    final(self).wf(),                          // [wf]
    //@    final(self).view() =~= Seq::<u8>::empty(), // [empty]
    //@    final(self).capacity == old(self).capacity, // [capacity]
    //@end

    //@fn command/src/buffer/growable.rs Buffer::data
    //@  ret r
    //@  requires
    //@    self.wf(),
    //@  ensures
    //@    r@ =~= self.view(),                       // [is-view]
    //@end
}

} // verus!
fn main() {}
