// Unit U-h2win — lib/src/protocol/mux/h2.rs: a peer's SETTINGS_INITIAL_WINDOW_SIZE change (serves C14)
// Property sentence -> contract: "sozu never sends more flow-controlled bytes on a stream ... than the peer's
// advertised windows allow ... including mid-connection changes that shrink windows below in-flight data":
// RFC 9113 §6.9.2 — when the peer changes SETTINGS_INITIAL_WINDOW_SIZE every stream's send window moves by exactly
// the difference, and MAY BECOME NEGATIVE; sozu must then not send until WINDOW_UPDATEs bring it back above zero.
//   accepted (false)  ==> every stream owned by this connection has window == old window + (new - old initial),
//                         as a mathematical integer (no clamping), other streams untouched, the setting recorded
//   refused  (true)   ==> value > 2^31-1, or the move would take some window above 2^31-1 (FLOW_CONTROL_ERROR)
// Hand-written: narrowed structs (only the fields the function touches), shims. Real text: //@fn.
use vstd::prelude::*;
use std::marker::PhantomData;
verus! {

global layout usize is size == 8;

// the constant is written `(1 << 31) - 1` in the source; Verus does not evaluate shifts in const initialisers, so the
// extracted text is normalised to the literal and the equality is proved here
//@global-subst "(1 << 31) - 1" => "0x7fff_ffff"
pub proof fn lemma_max_window_literal() ensures (1u32 << 31) - 1 == 0x7fff_ffffu32 { assert((1u32 << 31) - 1 == 0x7fff_ffffu32) by (bit_vector); }
//@item lib/src/protocol/mux/h2.rs const FLOW_CONTROL_MAX_WINDOW
//@item lib/src/protocol/mux/h2.rs struct H2Settings

// narrowed to what update_initial_window_size touches (Stream has 25 fields, ConnectionH2 60, Context 8)
// the stream's two send windows (towards the frontend's peer, towards the backend's peer) and the accessors that pick
// the one of a connection's side: REAL text of Stream::send_window / Stream::set_send_window
pub struct Stream { pub window: i32, pub back_window: i32 }
#[verifier::external_body] pub struct ClientRest { _p: () }
pub enum Position { Client(ClientRest), Server }
pub open spec fn spec_send_window(s: Stream, p: Position) -> i32 { if p is Server { s.window } else { s.back_window } }
pub open spec fn spec_other_window(s: Stream, p: Position) -> i32 { if p is Server { s.back_window } else { s.window } }
impl Stream {
    //@fn lib/src/protocol/mux/stream.rs Stream::send_window
    //@  ret r
    //@  ensures
    //@    r == spec_send_window(*self, *position),                                                   // [the-send-window-of-a-side-is-that-sides-own]
    //@end
    //@fn lib/src/protocol/mux/stream.rs Stream::set_send_window
    //@  ensures
    //@    spec_send_window(*final(self), *position) == window,                                       // [setting-a-sides-window-stores-the-value]
    //@    spec_other_window(*final(self), *position) == spec_other_window(*old(self), *position),    // [setting-one-sides-window-leaves-the-other-sides-alone]
    //@end
}
pub struct Context<L> { pub streams: Vec<Stream>, pub verif_listener: PhantomData<L> }
#[verifier::external_body] pub struct Readiness { _p: () }
impl Readiness {
    // arm_writable only touches the readiness words (proved complete in K-ready)
    #[verifier::external_body] pub fn arm_writable(&mut self) { unimplemented!() }
}
pub trait ListenerHandler {}
pub trait L7ListenerHandler {}
// HashMap<StreamId, GlobalStreamId>: the H2 stream ids of this connection -> index into context.streams
#[verifier::external_body]
pub struct StreamMap { _p: () }
impl StreamMap {
    pub uninterp spec fn spec_values(&self) -> Seq<usize>;
    // `self.streams.values()` collected: some order of the map's values (ASSUMED std)
    #[verifier::external_body]
    pub fn verif_values(&self) -> (r: Vec<usize>) ensures r@ == self.spec_values() { unimplemented!() }
}
pub struct ConnectionH2 { pub streams: StreamMap, pub peer_settings: H2Settings, pub readiness: Readiness, pub position: Position }

// `i32::try_from(i64)` (std): Ok(x as i32) iff x fits
#[verifier::external_body]
pub fn verif_i32_try_from(x: i64) -> (r: Result<i32, ()>)
    ensures match r { Ok(d) => d as int == x as int, Err(_) => x < i32::MIN as int || x > i32::MAX as int }
{ unimplemented!() }

impl ConnectionH2 {
    // each H2 stream id of a connection maps to its own global stream, all of them live in context.streams
    pub open spec fn owns_distinct(&self, n: int) -> bool {
        let v = self.streams.spec_values();
        &&& forall|i: int| 0 <= i < v.len() ==> (#[trigger] v[i]) < n
        &&& forall|i: int, j: int| 0 <= i < j < v.len() ==> v[i] != v[j]
    }

    //@fn lib/src/protocol/mux/h2.rs ConnectionH2::update_initial_window_size
    //@  ret r
    //@  subst "i32::try_from(\n            value as i64 - self.peer_settings.settings_initial_window_size as i64,\n        )" => "verif_i32_try_from(\n            value as i64 - self.peer_settings.settings_initial_window_size as i64,\n        )"
    //@  subst "for &global_stream_id in self.streams.values()" => "let verif_vals = self.streams.verif_values(); for verif_i in verif_it: 0..verif_vals.len()"
    //@  exec_before "let stream = &mut context.streams[global_stream_id];"
    //@    let global_stream_id = verif_vals[verif_i];
    //@  resubst "open_window \\|= ([a-z_.]+) <= 0 && new_window > 0;" => "open_window = open_window || (\\1 <= 0 && new_window > 0);"
    //@  requires
    //@    old(self).owns_distinct(old(context).streams@.len() as int),
    //@    old(self).peer_settings.settings_initial_window_size <= FLOW_CONTROL_MAX_WINDOW,
    //@  ensures
    //@    final(context).streams@.len() == old(context).streams@.len(),
    //@    !r ==> value <= FLOW_CONTROL_MAX_WINDOW && final(self).peer_settings.settings_initial_window_size == value, // [accepted-records-the-setting]
    //@    !r ==> forall|g: int| 0 <= g < old(context).streams@.len() ==> spec_send_window(#[trigger] final(context).streams@[g], old(self).position) as int ==
    //@        spec_send_window(old(context).streams@[g], old(self).position) as int + (if exists|k: int| 0 <= k < old(self).streams.spec_values().len() && old(self).streams.spec_values()[k] == g { value as int - old(self).peer_settings.settings_initial_window_size as int } else { 0 }), // [every-owned-stream-window-moves-by-exactly-the-difference-and-may-go-negative]
    //@    forall|g: int| 0 <= g < old(context).streams@.len() ==> spec_other_window(#[trigger] final(context).streams@[g], old(self).position) == spec_other_window(old(context).streams@[g], old(self).position), // [the-other-peers-window-of-every-stream-is-untouched]
    //@    r ==> final(self).peer_settings == old(self).peer_settings,                                 // [refused-keeps-the-old-setting]
    //@    value > FLOW_CONTROL_MAX_WINDOW ==> r,                                                      // [illegal-window-size-is-refused]
    //@  loop 0
    //@    invariant
    //@      verif_vals@ == self.streams.spec_values() && self.streams == old(self).streams && self.peer_settings == old(self).peer_settings && self.position == old(self).position,
    //@      old(self).owns_distinct(old(context).streams@.len() as int),
    //@      context.streams@.len() == old(context).streams@.len(),
    //@      delta as int == value as int - old(self).peer_settings.settings_initial_window_size as int,
    //@      forall|g: int| 0 <= g < context.streams@.len() ==> spec_send_window(#[trigger] context.streams@[g], self.position) as int ==
    //@          spec_send_window(old(context).streams@[g], self.position) as int + (if exists|k: int| 0 <= k < verif_it.index@ && verif_vals@[k] == g { delta as int } else { 0 }),
    //@      forall|g: int| 0 <= g < context.streams@.len() ==> spec_other_window(#[trigger] context.streams@[g], self.position) == spec_other_window(old(context).streams@[g], self.position),
    //@end
}

} // verus!
fn main() {}
