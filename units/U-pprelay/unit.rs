// Unit U-pprelay — lib/src/protocol/proxy_protocol/relay.rs: relaying the client's own PROXY v2 header (serves C18)
// Property sentence -> contract: "in expect/relay mode, exactly the addresses of the incoming header ... exactly one
// well-formed v2 header before any payload byte ... relays both byte streams exactly". In relay mode the header the
// client sent IS the header the backend must get, followed by the client's payload, byte for byte. With the relay
// stream  backend.sent() ++ frontend_buffer (already forwarded, then still queued):
//   readable      : the queue grows by EXACTLY the bytes the client socket delivered (nothing is consumed: the header
//                   stays queued until it has been forwarded); header_size becomes the parsed header's length
//   back_writable : the relay stream is unchanged (bytes only move from the queue to the backend socket, in order);
//                   Upgrade is answered only once at least header_size bytes have been forwarded
// Termination of the write loop is NOT verified.
use vstd::prelude::*;
verus! {

global layout usize is size == 8;

//@item lib/src/socket.rs enum SocketResult structural
//@item lib/src/lib.rs enum SessionResult structural
#[verifier::external_body] pub struct ProxyAddr { _p: () }
#[verifier::external_body] #[derive(Clone, Copy)] pub struct Ready { _p: () }
impl Ready {
    #[verifier::external_body] pub fn remove(&mut self, o: Ready) { unimplemented!() }
    #[verifier::external_body] pub fn insert(&mut self, o: Ready) { unimplemented!() }
    #[verifier::external_body] pub fn verif_readable() -> Ready { unimplemented!() }
    #[verifier::external_body] pub fn verif_writable() -> Ready { unimplemented!() }
}
//@global-subst "Ready::READABLE" => "Ready::verif_readable()"
//@global-subst "Ready::WRITABLE" => "Ready::verif_writable()"
//@item lib/src/lib.rs struct Readiness
impl Readiness {
    //@fn lib/src/lib.rs Readiness::reset
    //@  opaque_body
    //@end
}
pub struct SessionMetrics { pub bin: usize, pub backend_bout: usize }
#[verifier::external_body] pub struct IoError { _p: () }
#[verifier::external_body] pub struct TcpStream { _p: () }
impl TcpStream {
    pub uninterp spec fn sent(&self) -> Seq<u8>;
    #[verifier::external_body]
    pub fn write(&mut self, buf: &[u8]) -> (r: Result<usize, IoError>)
        ensures match r { Ok(n) => n <= buf@.len() && final(self).sent() == old(self).sent() + buf@.subrange(0, n as int), Err(_) => final(self).sent() == old(self).sent() },
    { unimplemented!() }
}
pub trait SocketHandler {
    spec fn sent(&self) -> Seq<u8>;
    spec fn received(&self) -> Seq<u8>;
    fn socket_read(&mut self, buf: &mut [u8]) -> (r: (usize, SocketResult))
        ensures
            r.0 <= old(buf)@.len(), final(buf)@.len() == old(buf)@.len(),
            final(self).received() == old(self).received() + final(buf)@.subrange(0, r.0 as int),
            final(buf)@.subrange(r.0 as int, final(buf)@.len() as int) == old(buf)@.subrange(r.0 as int, old(buf)@.len() as int),
            final(self).sent() == old(self).sent();
}
// the parser as a function of the bytes (K-ppv2 proves what it accepts); nom's result shape
pub enum Needed { Unknown }
pub struct NomError<'a> { pub input: &'a [u8] }
pub enum Err<E> { Incomplete(Needed), Error(E), Failure(E) }
pub struct HeaderV2 { pub addr: ProxyAddr }
pub enum Parsed { Complete { consumed: nat, addr: ProxyAddr }, Incomplete, Invalid }
pub uninterp spec fn spec_parse(b: Seq<u8>) -> Parsed;
#[verifier::external_body]
pub fn parse_v2_header<'a>(i: &'a [u8]) -> (r: Result<(&'a [u8], HeaderV2), Err<NomError<'a>>>)
    ensures match r {
        Ok((rest, h)) => spec_parse(i@) matches Parsed::Complete { consumed, addr } && 0 < consumed <= i@.len() && rest@ == i@.subrange(consumed as int, i@.len() as int) && h.addr == addr,
        Err(Err::Incomplete(_)) => spec_parse(i@) is Incomplete,
        Err(_) => spec_parse(i@) is Invalid,
    }
{ unimplemented!() }
// nom::Offset: `data.offset(rest)` = how far `rest` starts into `data`
#[verifier::external_body]
pub fn verif_offset(data: &[u8], rest: &[u8]) -> (r: usize) requires rest@.len() <= data@.len() ensures r == data@.len() - rest@.len() { unimplemented!() }

// pool::Checkout: view = readable window, tail = free space; contracts as proved / assumed in U-pipe
pub struct PouleCheckout { pub position: usize, pub end: usize, pub verif_bytes: Vec<u8> }
//@global-subst "poule::Checkout<BufferMetadata>" => "PouleCheckout"
//@item lib/src/pool.rs struct Checkout
impl Checkout {
    pub open spec fn wf(&self) -> bool { self.inner.position <= self.inner.end <= self.inner.verif_bytes@.len() <= isize::MAX }
    pub open spec fn view(&self) -> Seq<u8> { self.inner.verif_bytes@.subrange(self.inner.position as int, self.inner.end as int) }
    pub open spec fn tail(&self) -> Seq<u8> { self.inner.verif_bytes@.subrange(self.inner.end as int, self.inner.verif_bytes@.len() as int) }
    //@import U-pipe Checkout::available_data
    //@import U-pipe Checkout::available_space
    //@import U-pipe Checkout::data
    //@import U-pipe Checkout::space
    //@import U-pipe Checkout::consume
    //@import U-pipe Checkout::fill
}

// RelayProxyProtocol narrowed to the fields the two functions touch (the real struct also has two tokens and the request id)
pub struct RelayProxyProtocol<Front: SocketHandler> {
    pub backend_readiness: Readiness,
    pub backend: Option<TcpStream>,
    pub cursor_header: usize,
    pub frontend_buffer: Checkout,
    pub frontend_readiness: Readiness,
    pub frontend: Front,
    pub header_size: Option<usize>,
    pub addresses: Option<ProxyAddr>,
}

impl<Front: SocketHandler> RelayProxyProtocol<Front> {
    pub open spec fn back_sent(&self) -> Seq<u8> { if self.backend is Some { self.backend->0.sent() } else { Seq::empty() } }
    pub open spec fn relay_up(&self) -> Seq<u8> { self.back_sent() + self.frontend_buffer@ }

    //@fn lib/src/protocol/proxy_protocol/relay.rs RelayProxyProtocol::readable
    //@  ret r
    //@  subst "self.frontend_buffer.data().offset(rest)" => "verif_offset(self.frontend_buffer.data(), rest)"
    //@  requires
    //@    old(self).frontend_buffer.wf(), old(metrics).bin + old(self).frontend_buffer.inner.verif_bytes@.len() <= usize::MAX,
    //@  ensures
    //@    final(self).frontend_buffer.wf(),
    //@    final(self).frontend.received().len() >= old(self).frontend.received().len()
    //@      && final(self).frontend_buffer@ == old(self).frontend_buffer@ + final(self).frontend.received().subrange(old(self).frontend.received().len() as int, final(self).frontend.received().len() as int), // [everything-the-client-sent-stays-queued-for-the-backend-header-first]
    //@    final(self).back_sent() == old(self).back_sent() && final(self).frontend.sent() == old(self).frontend.sent(), // [reading-sends-nothing]
    //@    (final(self).header_size != old(self).header_size) ==> (spec_parse(final(self).frontend_buffer@) matches Parsed::Complete { consumed, addr }
    //@        && final(self).header_size == Some(consumed as usize) && final(self).addresses == Some(addr)),   // [header-size-and-addresses-are-those-of-the-parsed-header]
    //@    spec_parse(final(self).frontend_buffer@) is Invalid && final(self).frontend.received().len() > old(self).frontend.received().len() ==> r == SessionResult::Close, // [a-malformed-header-closes]
    //@end

    //@fn lib/src/protocol/proxy_protocol/relay.rs RelayProxyProtocol::back_writable
    //@  ret r
    //@  attr #[verifier::exec_allows_no_decreases_clause]
    //@  attr #[verifier::loop_isolation(false)]
    //@  requires
    //@    old(self).frontend_buffer.wf(), old(metrics).backend_bout + old(self).frontend_buffer.inner.verif_bytes@.len() <= usize::MAX,
    //@    old(self).cursor_header + old(self).frontend_buffer.inner.verif_bytes@.len() <= usize::MAX,
    //@  ensures
    //@    final(self).frontend_buffer.wf() && (final(self).backend is Some) == (old(self).backend is Some),
    //@    final(self).relay_up() == old(self).relay_up(),                                              // [bytes-only-move-from-the-queue-to-the-backend-in-order]
    //@    final(self).cursor_header - old(self).cursor_header == final(self).back_sent().len() - old(self).back_sent().len()
    //@      && final(self).cursor_header >= old(self).cursor_header,                                   // [the-cursor-counts-exactly-the-bytes-forwarded]
    //@    r == SessionResult::Upgrade ==> (final(self).header_size matches Some(h) && final(self).cursor_header >= h), // [hand-over-only-after-the-whole-header]
    //@    final(self).frontend.received() == old(self).frontend.received() && final(self).frontend.sent() == old(self).frontend.sent(),
    //@  loop 0
    //@    invariant
    //@      self.frontend_buffer.wf() && self.frontend == old(self).frontend && self.header_size == old(self).header_size,
    //@      socket.sent() + self.frontend_buffer@ == old(self).relay_up(),
    //@      self.cursor_header >= old(self).cursor_header && self.cursor_header - old(self).cursor_header == socket.sent().len() - old(self).back_sent().len(),
    //@      metrics.backend_bout - old(metrics).backend_bout == self.cursor_header - old(self).cursor_header,
    //@      self.frontend_buffer.inner.verif_bytes@.len() == old(self).frontend_buffer.inner.verif_bytes@.len(),
    //@      self.cursor_header - old(self).cursor_header + self.frontend_buffer@.len() == old(self).frontend_buffer@.len(),
    //@end
}

} // verus!
fn main() {}
