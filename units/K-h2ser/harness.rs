    // Kani harnesses for lib/src/protocol/mux/serializer.rs — appended to the REAL file in a scratch copy.
    use crate::protocol::mux::parser::{self as p, FrameHeader, FrameType, H2Error};

    fn any_frame_type() -> FrameType {
        match kani::any::<u8>() % 12 {
            0 => FrameType::Data, 1 => FrameType::Headers, 2 => FrameType::Priority, 3 => FrameType::RstStream,
            4 => FrameType::Settings, 5 => FrameType::PushPromise, 6 => FrameType::Ping, 7 => FrameType::GoAway,
            8 => FrameType::WindowUpdate, 9 => FrameType::Continuation, 10 => FrameType::PriorityUpdate,
            _ => { let t: u8 = kani::any(); kani::assume(t > 9 && t != 0x10); FrameType::Unknown(t) }
        }
    }

    #[kani::proof]
    #[kani::unwind(6)]
    fn frame_header_wire_roundtrip() {
        let h = FrameHeader { payload_len: kani::any(), frame_type: any_frame_type(), flags: kani::any(), stream_id: kani::any() };
        kani::assume(h.payload_len < (1 << 24));
        let mut buf = [0u8; 9];
        let sz = match gen_frame_header(&mut buf[..], &h) { Ok((_, sz)) => sz, Err(_) => { assert!(false); 0 } };
        kani::cover!(h.stream_id >= 0x8000_0000);
        assert!(sz == 9);
        let len24 = ((buf[0] as u32) << 16) | ((buf[1] as u32) << 8) | (buf[2] as u32);
        assert!(len24 == h.payload_len);
        assert!(buf[3] == serialize_frame_type(&h.frame_type));
        assert!(buf[4] == h.flags);
        let sid = u32::from_be_bytes([buf[5], buf[6], buf[7], buf[8]]);
        assert!(sid == h.stream_id & 0x7FFF_FFFF);
        assert!(sid < 0x8000_0000);
        // the real parser reads it back (it may refuse an illegal stream-id / type pairing, never mis-read it)
        match p::frame_header(&buf[..], u32::MAX) {
            Ok((rest, back)) => {
                assert!(rest.is_empty());
                assert!(back.payload_len == h.payload_len && back.flags == h.flags && back.stream_id == sid);
                assert!(back.frame_type == h.frame_type);
            }
            Err(_) => {
                let stream_bound = matches!(h.frame_type, FrameType::Data | FrameType::Headers | FrameType::Priority | FrameType::RstStream | FrameType::PushPromise | FrameType::Continuation);
                let conn_bound = matches!(h.frame_type, FrameType::Settings | FrameType::Ping | FrameType::GoAway | FrameType::PriorityUpdate);
                assert!((stream_bound && sid == 0) || (conn_bound && sid != 0));
            }
        }
    }

    #[kani::proof]
    #[kani::unwind(6)]
    fn control_frames_wire_format() {
        let sid: u32 = kani::any();
        let inc: u32 = kani::any();
        let last: u32 = kani::any();
        kani::cover!(inc >= 0x8000_0000);
        let mut b1 = [0u8; 13];
        match gen_rst_stream(&mut b1[..], sid, H2Error::Cancel) {
            Ok((_, n)) => {
                assert!(n == 13);
                assert!(b1[0] == 0 && b1[1] == 0 && b1[2] == 4 && b1[3] == 3 && b1[4] == 0);
                assert!(u32::from_be_bytes([b1[5], b1[6], b1[7], b1[8]]) == sid & 0x7FFF_FFFF);
                assert!(u32::from_be_bytes([b1[9], b1[10], b1[11], b1[12]]) == H2Error::Cancel as u32);
            }
            Err(_) => assert!(false),
        }
        let mut b2 = [0u8; 13];
        match gen_window_update(&mut b2[..], sid, inc) {
            Ok((_, n)) => {
                assert!(n == 13);
                assert!(b2[0] == 0 && b2[1] == 0 && b2[2] == 4 && b2[3] == 8 && b2[4] == 0);
                assert!(u32::from_be_bytes([b2[5], b2[6], b2[7], b2[8]]) == sid & 0x7FFF_FFFF);
                let w = u32::from_be_bytes([b2[9], b2[10], b2[11], b2[12]]);
                assert!(w == inc & 0x7FFF_FFFF && w < 0x8000_0000);
            }
            Err(_) => assert!(false),
        }
        let mut b3 = [0u8; 17];
        match gen_goaway(&mut b3[..], last, H2Error::NoError) {
            Ok((_, n)) => {
                assert!(n == 17);
                assert!(b3[0] == 0 && b3[1] == 0 && b3[2] == 8 && b3[3] == 7 && b3[4] == 0);
                assert!(u32::from_be_bytes([b3[5], b3[6], b3[7], b3[8]]) == 0);
                assert!(u32::from_be_bytes([b3[9], b3[10], b3[11], b3[12]]) == last & 0x7FFF_FFFF);
                assert!(u32::from_be_bytes([b3[13], b3[14], b3[15], b3[16]]) == 0);
            }
            Err(_) => assert!(false),
        }
    }
