// Unit U-h2start — lib/src/protocol/mux/h2.rs: ConnectionH2::start_stream (C14)
// Property sentences -> contract: "sozu never sends more flow-controlled bytes on a stream ... than the peer's advertised
// windows allow" and "never opens more concurrent streams than the peer allows", on the one function that opens a stream
// towards an h2c backend:
//   - a stream is opened (true) only on a connection that is not draining and that has fewer open streams than the peer's
//     SETTINGS_MAX_CONCURRENT_STREAMS;
//   - an opened stream starts with the send window THIS peer advertised (its SETTINGS_INITIAL_WINDOW_SIZE) — not with
//     whatever the frontend's peer advertised for its own side (F27) — and the frontend-side window, like every other
//     stream, is untouched;
//   - a refusal (false) changes no stream.
// The whole function is extracted; the body of the identifier-exhaustion branch (logging, backend status, kept:
// graceful_goaway + return false) is cut. Hand-written: narrowed structs, shims. new_stream_id is a callee (its
// arithmetic is proved in U-h2pure on next_stream_id).
use vstd::prelude::*;
use std::marker::PhantomData;
verus! {
global layout usize is size == 8;

pub type StreamId = u32;
pub type GlobalStreamId = usize;
//@item lib/src/protocol/mux/h2.rs struct H2Settings
pub trait ListenerHandler {}
pub trait L7ListenerHandler {}

pub struct Stream { pub window: i32, pub back_window: i32 }
pub struct Context<L> { pub streams: Vec<Stream>, pub verif_listener: PhantomData<L> }
pub struct Readiness { pub verif_armed: Ghost<nat> }
impl Readiness {
    pub fn arm_writable(&mut self) ensures final(self).verif_armed@ == old(self).verif_armed@ + 1 { proof { self.verif_armed@ = self.verif_armed@ + 1; } }
}
pub struct DrainState { pub draining: bool }
// HashMap<StreamId, GlobalStreamId> (std, ASSUMED): only its size and the insertion matter here
#[verifier::external_body] pub struct StreamMap { _p: () }
impl StreamMap {
    pub uninterp spec fn spec_map(&self) -> Map<StreamId, usize>;
    #[verifier::external_body]
    pub fn len(&self) -> (r: usize) ensures r == self.spec_map().dom().len(), self.spec_map().dom().finite() { unimplemented!() }
    #[verifier::external_body]
    pub fn insert(&mut self, k: StreamId, v: usize) -> (r: Option<usize>) ensures final(self).spec_map() == old(self).spec_map().insert(k, v) { unimplemented!() }
}
#[verifier::external_body] pub struct ActivityMap { _p: () }
#[verifier::external_body] pub struct Instant { _p: () }
impl Instant { #[verifier::external_body] pub fn now() -> Instant { unimplemented!() } }
impl ActivityMap { #[verifier::external_body] pub fn insert(&mut self, k: StreamId, v: Instant) -> Option<Instant> { unimplemented!() } }
// i32::try_from(u32) (std)
#[verifier::external_body]
pub fn verif_try_i32_u32(n: u32) -> (r: Option<i32>) ensures n <= i32::MAX ==> r == Some(n as i32), n > i32::MAX ==> r is None { unimplemented!() }

pub struct ConnectionH2 { pub streams: StreamMap, pub peer_settings: H2Settings, pub drain: DrainState, pub readiness: Readiness, pub stream_last_activity_at: ActivityMap, pub verif_rest: ConnRest }
#[verifier::external_body] pub struct ConnRest { _p: () }
impl ConnectionH2 {
    pub uninterp spec fn spec_next_id(&self) -> Option<StreamId>;
    // callee (arithmetic proved in U-h2pure on next_stream_id): touches the identifier watermark only
    #[verifier::external_body]
    pub fn new_stream_id(&mut self) -> (r: Option<StreamId>)
        ensures r == old(self).spec_next_id(), final(self).streams == old(self).streams, final(self).peer_settings == old(self).peer_settings,
                final(self).drain == old(self).drain, final(self).readiness == old(self).readiness { unimplemented!() }
    // callee: queues a GOAWAY; opens nothing
    #[verifier::external_body]
    pub fn graceful_goaway(&mut self)
        ensures final(self).streams == old(self).streams, final(self).peer_settings == old(self).peer_settings { unimplemented!() }

    //@fn lib/src/protocol/mux/h2.rs ConnectionH2::start_stream
    //@  ret r
    //@  cut "let context = log_context!(self);\n            match &mut self.position {" .. "self.graceful_goaway();\n            return false;" => ""
    //@  optresubst "i32::try_from\\(self\\.peer_settings\\.settings_initial_window_size\\)\\s*\\.unwrap_or\\(([^()]*)\\)" => "(match verif_try_i32_u32(self.peer_settings.settings_initial_window_size) { Some(verif_v) => verif_v, None => \\1 })"
    //@  requires
    //@    stream < old(context).streams@.len(),
    //@  ensures
    //@    final(context).streams@.len() == old(context).streams@.len(),
    //@    r ==> !old(self).drain.draining && old(self).streams.spec_map().dom().len() < old(self).peer_settings.settings_max_concurrent_streams, // [a-stream-is-opened-only-below-the-peers-max-concurrent-streams-and-never-on-a-draining-connection]
    //@    r ==> final(context).streams@[stream as int].back_window as int == (if old(self).peer_settings.settings_initial_window_size <= i32::MAX { old(self).peer_settings.settings_initial_window_size as int } else { i32::MAX as int }), // [an-opened-stream-starts-with-the-send-window-this-peer-advertised]
    //@    final(context).streams@[stream as int].window == old(context).streams@[stream as int].window,   // [the-frontend-side-window-of-the-stream-is-untouched]
    //@    forall|k: int| 0 <= k < old(context).streams@.len() && k != stream ==> (#[trigger] final(context).streams@[k]) == old(context).streams@[k], // [no-other-stream-is-touched]
    //@    !r ==> final(context).streams@ =~= old(context).streams@ && final(self).streams == old(self).streams, // [a-refusal-opens-nothing]
    //@    r ==> old(self).spec_next_id() is Some && final(self).streams.spec_map() == old(self).streams.spec_map().insert(old(self).spec_next_id().unwrap(), stream), // [the-stream-is-registered-under-the-fresh-identifier]
    //@end
}

} // verus!
fn main() {}
