// Unit U-udpmgr — lib/src/protocol/udp/manager.rs flow-table cap and admission (serves C19)
// Property sentence -> contract: "The number of live flows never exceeds the configured cap - excess new flows are
// shed while existing flows continue": a client datagram adds a flow only when the manager is not draining and the
// live count is strictly below the cap IN FORCE (the value last set by SetMaxFlows, not anything derived from the
// live population), and it adds at most one; a shed or dropped datagram leaves the slab and the key table exactly
// as they were; SetMaxFlows(n) makes n the cap and touches no flow.
// Hand-written: collection shims (ASSUMED std / slab contracts), opaque types. Real text: //@item, //@fn.
use vstd::prelude::*;
use std::marker::PhantomData;
verus! {

#[verifier::external_body] #[derive(Clone, Copy)] pub struct SocketAddr { _p: () }
#[verifier::external_body] #[derive(Clone, Copy)] pub struct Instant { _p: () }
#[verifier::external_body] #[derive(Clone, Copy)] pub struct Duration { _p: () }
#[verifier::external_body] pub struct UdpFlow { _p: () }
pub type ClusterId = String;
pub type FlowId = usize;
pub type BackendId = String;

#[verifier::external_body]
#[verifier::reject_recursive_types(K)]
#[verifier::reject_recursive_types(V)]
pub struct HashMap<K, V> { _p: PhantomData<(K, V)> }
impl<K, V> HashMap<K, V> {
    pub uninterp spec fn view(&self) -> Map<K, V>;
    #[verifier::external_body]
    pub fn get(&self, k: &K) -> (r: Option<&V>)
        ensures match r { Some(v) => self@.contains_key(*k) && *v == self@[*k], None => !self@.contains_key(*k) },
    { unimplemented!() }
    #[verifier::external_body]
    pub fn contains_key(&self, k: &K) -> (r: bool) ensures r == self@.contains_key(*k) { unimplemented!() }
    #[verifier::external_body]
    pub fn insert(&mut self, k: K, v: V) -> (r: Option<V>) ensures final(self)@ == old(self)@.insert(k, v) { unimplemented!() }
}
// slab::Slab: a map from occupied slot index to value; insert picks a vacant slot (slab documentation)
#[verifier::external_body]
#[verifier::reject_recursive_types(T)]
pub struct Slab<T> { _p: PhantomData<T> }
impl<T> Slab<T> {
    pub uninterp spec fn view(&self) -> Map<usize, T>;
    #[verifier::external_body]
    pub fn len(&self) -> (r: usize) ensures r == self@.len(), self@.dom().finite() { unimplemented!() }
    #[verifier::external_body]
    pub fn insert(&mut self, v: T) -> (r: usize)
        ensures !old(self)@.contains_key(r), final(self)@ == old(self)@.insert(r, v),
    { unimplemented!() }
}
#[verifier::external_body]
#[verifier::reject_recursive_types(T)]
pub struct VecDeque<T> { _p: PhantomData<T> }
impl<T> VecDeque<T> {
    pub uninterp spec fn view(&self) -> Seq<T>;
    #[verifier::external_body]
    pub fn push_back(&mut self, v: T) ensures final(self)@ == old(self)@.push(v) { unimplemented!() }
}

pub trait FlowKeyExtractor {
    fn flow_key(&self, src: SocketAddr, payload: &[u8], cfg: &ClusterConfig) -> Option<FlowKey>;
}
// the default extractor type parameter of UdpManager (its body hashes / normalises the source address: not needed here)
pub struct SourceTupleExtractor;
impl FlowKeyExtractor for SourceTupleExtractor {
    #[verifier::external_body]
    fn flow_key(&self, src: SocketAddr, payload: &[u8], cfg: &ClusterConfig) -> Option<FlowKey> { unimplemented!() }
}
#[verifier::external_body]
pub fn verif_new_flow(src: SocketAddr, cfg: &ClusterConfig, payload: &[u8], now: Instant) -> UdpFlow { unimplemented!() }
#[verifier::external_body]
pub fn verif_string_clone(s: &String) -> (r: String) ensures r == *s { unimplemented!() }
#[verifier::external_body]
pub fn verif_string_is_empty(s: &String) -> bool { unimplemented!() }
#[verifier::external_body]
pub fn verif_umax(a: usize, b: usize) -> (r: usize) ensures r == (if a >= b { a } else { b }) { unimplemented!() }
#[verifier::external_body]
pub fn verif_flowid_eq(a: Option<&FlowId>, b: &FlowId) -> (r: bool) ensures r == (a == Some(b)) { unimplemented!() }

//@global-subst "std::time::Instant" => "Instant"
//@item lib/src/protocol/udp/mod.rs struct FlowKey
//@item lib/src/protocol/udp/mod.rs struct ClusterConfig
//@item lib/src/protocol/udp/mod.rs struct Transmit
//@item lib/src/protocol/udp/mod.rs enum DropReason
//@item lib/src/protocol/udp/mod.rs enum MetricEvent
//@item lib/src/protocol/udp/mod.rs enum Output
//@item lib/src/protocol/udp/mod.rs enum ConfigEvent
//@item lib/src/protocol/udp/manager.rs struct UdpManager

impl<E: FlowKeyExtractor> UdpManager<E> {
    // everything a datagram-level operation must leave alone unless it admits or closes a flow
    pub open spec fn same_knobs(&self, o: &Self) -> bool {
        self.max_flows == o.max_flows && self.draining == o.draining && self.max_rx_datagram_size == o.max_rx_datagram_size
            && self.cluster == o.cluster && self.hash_seed == o.hash_seed
    }

    //@fn lib/src/protocol/udp/manager.rs UdpManager::on_config
    //@  subst "self.max_flows_high_water.max(n)" => "verif_umax(self.max_flows_high_water, n)"
    //@  ensures
    //@    final(self).flows@ == old(self).flows@ && final(self).table@ == old(self).table@,           // [reconfiguration-touches-no-flow]
    //@    event matches ConfigEvent::SetMaxFlows(n) ==> final(self).max_flows == n && final(self).draining == old(self).draining, // [set-max-flows-installs-exactly-the-cap-given]
    //@    event matches ConfigEvent::Drain ==> final(self).draining && final(self).max_flows == old(self).max_flows, // [drain-latches]
    //@    !(event is SetMaxFlows) ==> final(self).max_flows == old(self).max_flows,                    // [cap-changes-only-on-set-max-flows]
    //@    !(event is Drain) ==> final(self).draining == old(self).draining,                           // [draining-changes-only-on-drain]
    //@end

    //@fn lib/src/protocol/udp/manager.rs UdpManager::drop_datagram
    //@  ensures
    //@    final(self).flows@ == old(self).flows@ && final(self).table@ == old(self).table@ && final(self).same_knobs(old(self)), // [a-drop-allocates-and-frees-nothing]
    //@end

    // callees of on_client_datagram that are outside this unit: ASSUMED frame contracts (R7)
    //@fn lib/src/protocol/udp/manager.rs UdpManager::forward_on_existing_flow
    //@  opaque_body
    //@  ensures
    //@    final(self).same_knobs(old(self)),
    //@    final(self).flows@.len() <= old(self).flows@.len(),
    //@    final(self).flows@.dom().subset_of(old(self).flows@.dom()),
    //@end
    //@fn lib/src/protocol/udp/manager.rs UdpManager::reschedule
    //@  opaque_body
    //@  ensures
    //@    final(self).same_knobs(old(self)) && final(self).flows@ == old(self).flows@ && final(self).table@ == old(self).table@,
    //@end
    //@fn lib/src/protocol/udp/manager.rs UdpManager::affinity_hash
    //@  opaque_body
    //@end

    //@fn lib/src/protocol/udp/manager.rs UdpManager::on_client_datagram
    //@  subst "self.cluster.cluster.is_empty()" => "verif_string_is_empty(&self.cluster.cluster)"
    //@  subst "let Some(&flow_id) = self.table.get(&key)" => "let Some(flow_id) = verif_copied(self.table.get(&key))"
    //@  cut "let mut flow = UdpFlow::new(src, self.cluster.clone(), now);" .. "let key_hash" => "let flow = verif_new_flow(src, &self.cluster, payload, now);\n        "
    //@  subst "self.table.get(&key),\n            Some(&flow_id)," => "verif_flowid_eq(self.table.get(&key), &flow_id), true,"
    //@  subst "cluster: self.cluster.cluster.clone()," => "cluster: verif_string_clone(&self.cluster.cluster),"
    //@  ensures
    //@    final(self).same_knobs(old(self)),                                                          // [a-datagram-never-moves-the-cap]
    //@    final(self).flows@.len() <= old(self).flows@.len() + 1,                                     // [at-most-one-flow-per-datagram]
    //@    final(self).flows@.len() > old(self).flows@.len() ==> !old(self).draining && old(self).flows@.len() < old(self).max_flows, // [admits-only-below-the-cap-in-force]
    //@    final(self).flows@.len() > old(self).flows@.len() ==> final(self).flows@.len() <= old(self).max_flows, // [live-flows-stay-within-the-cap-after-admission]
    //@    forall|id: usize| old(self).flows@.contains_key(id) || !final(self).flows@.contains_key(id) || final(self).flows@.len() > old(self).flows@.len(), // [no-flow-appears-without-admission]
    //@end
}

#[verifier::external_body]
pub fn verif_copied(x: Option<&FlowId>) -> (r: Option<FlowId>)
    ensures match x { Some(v) => r == Some(*v), None => r is None }
{ unimplemented!() }

} // verus!
fn main() {}
