// Unit U-udpmgr — lib/src/protocol/udp/manager.rs flow-table cap and admission (serves C19)
// Property sentence -> contract: "The number of live flows never exceeds the configured cap - excess new flows are
// shed while existing flows continue": a client datagram adds a flow only when the manager is not draining and the
// live count is strictly below the cap IN FORCE (the value last set by SetMaxFlows, not anything derived from the
// live population), and it adds at most one; a shed or dropped datagram leaves the slab and the key table exactly
// as they were; SetMaxFlows(n) makes n the cap and touches no flow.
// Hand-written: collection shims (ASSUMED std / slab contracts), opaque types. Real text: //@item, //@fn.
use vstd::prelude::*;
use std::marker::PhantomData;
verus! {

#[verifier::external_body] #[derive(Clone, Copy)] pub struct SocketAddr { _p: () }
#[verifier::external_body] #[derive(Clone, Copy)] pub struct Instant { _p: () }
#[verifier::external_body] #[derive(Clone, Copy)] pub struct Duration { _p: () }
pub type ClusterId = String;
pub type FlowId = usize;
pub type BackendId = String;

#[verifier::external_body]
#[verifier::reject_recursive_types(K)]
#[verifier::reject_recursive_types(V)]
pub struct HashMap<K, V> { _p: PhantomData<(K, V)> }
impl<K, V> HashMap<K, V> {
    pub uninterp spec fn view(&self) -> Map<K, V>;
    #[verifier::external_body]
    pub fn get(&self, k: &K) -> (r: Option<&V>)
        ensures match r { Some(v) => self@.contains_key(*k) && *v == self@[*k], None => !self@.contains_key(*k) },
    { unimplemented!() }
    #[verifier::external_body]
    pub fn contains_key(&self, k: &K) -> (r: bool) ensures r == self@.contains_key(*k) { unimplemented!() }
    #[verifier::external_body]
    pub fn insert(&mut self, k: K, v: V) -> (r: Option<V>) ensures final(self)@ == old(self)@.insert(k, v) { unimplemented!() }
    #[verifier::external_body]
    pub fn remove(&mut self, k: &K) -> (r: Option<V>) ensures final(self)@ == old(self)@.remove(*k) { unimplemented!() }
}
// slab::Slab: a map from occupied slot index to value; insert picks a vacant slot (slab documentation)
#[verifier::external_body]
#[verifier::reject_recursive_types(T)]
pub struct Slab<T> { _p: PhantomData<T> }
impl<T> Slab<T> {
    pub uninterp spec fn view(&self) -> Map<usize, T>;
    #[verifier::external_body]
    pub fn len(&self) -> (r: usize) ensures r == self@.len(), self@.dom().finite() { unimplemented!() }
    #[verifier::external_body]
    pub fn insert(&mut self, v: T) -> (r: usize)
        ensures !old(self)@.contains_key(r), final(self)@ == old(self)@.insert(r, v),
    { unimplemented!() }
    // Slab::remove panics on a vacant key
    #[verifier::external_body]
    pub fn remove(&mut self, k: usize) -> (r: T)
        requires old(self)@.contains_key(k),
        ensures final(self)@ == old(self)@.remove(k), r == old(self)@[k],
    { unimplemented!() }
    #[verifier::external_body]
    pub fn contains(&self, k: usize) -> (r: bool) ensures r == self@.contains_key(k) { unimplemented!() }
    // a slab holds finitely many entries
    #[verifier::external_body]
    pub proof fn axiom_finite(&self) ensures self@.dom().finite() {}
    #[verifier::external_body]
    pub fn get_mut(&mut self, k: usize) -> (r: Option<&mut T>)
        ensures
            match r {
                Some(v) => old(self)@.contains_key(k) && *v == old(self)@[k] && final(self)@ == old(self)@.insert(k, *final(v)),
                None => !old(self)@.contains_key(k) && final(self)@ == old(self)@,
            },
    { unimplemented!() }
}
#[verifier::external_body]
#[verifier::reject_recursive_types(T)]
pub struct VecDeque<T> { _p: PhantomData<T> }
impl<T> VecDeque<T> {
    pub uninterp spec fn view(&self) -> Seq<T>;
    #[verifier::external_body]
    pub fn push_back(&mut self, v: T) ensures final(self)@ == old(self)@.push(v) { unimplemented!() }
}

pub trait FlowKeyExtractor {
    fn flow_key(&self, src: SocketAddr, payload: &[u8], cfg: &ClusterConfig) -> Option<FlowKey>;
}
// the default extractor type parameter of UdpManager (its body hashes / normalises the source address: not needed here)
pub struct SourceTupleExtractor;
impl FlowKeyExtractor for SourceTupleExtractor {
    #[verifier::external_body]
    fn flow_key(&self, src: SocketAddr, payload: &[u8], cfg: &ClusterConfig) -> Option<FlowKey> { unimplemented!() }
}
#[verifier::external_body]
pub fn verif_new_flow(src: SocketAddr, cfg: &ClusterConfig, payload: &[u8], now: Instant) -> (r: UdpFlow)
    ensures r.client == src && r.phase == FlowPhase::AwaitingBackend && r.config == *cfg && r.backend_addr is None,
{ unimplemented!() }
#[verifier::external_body]
pub fn verif_string_clone(s: &String) -> (r: String) ensures r == *s { unimplemented!() }
#[verifier::external_body]
pub fn verif_string_is_empty(s: &String) -> bool { unimplemented!() }
#[verifier::external_body]
// PROXY v2 DGRAM prefix (proxy_protocol.rs prepend_dgram_header: Vec splice, outside this unit): ASSUMED to put a
// header that depends only on the two addresses in front of the payload and to keep the payload bytes
pub uninterp spec fn spec_pp_header(client: SocketAddr, backend: SocketAddr) -> Seq<u8>;
#[verifier::external_body]
pub fn prepend_dgram_header(payload: &mut Vec<u8>, client: SocketAddr, backend: SocketAddr) -> (r: usize)
    ensures final(payload)@ == spec_pp_header(client, backend) + old(payload)@,
{ unimplemented!() }
// `self.flows.get_mut(id).map(|f| f.touch(timeout, now))` (closure with a &mut parameter): touches the flow if present
#[verifier::external_body]
pub fn verif_touch_if_present(flows: &mut Slab<UdpFlow>, id: usize, timeout: Duration, now: Instant) -> (r: Option<u64>)
    ensures
        final(flows)@.dom() =~= old(flows)@.dom(),
        forall|k: usize| #[trigger] final(flows)@.contains_key(k) ==> final(flows)@[k].same_peers(&old(flows)@[k]) && final(flows)@[k].phase == old(flows)@[k].phase,
{ unimplemented!() }
impl FlowKey {
    // FlowKey::from_src (mod.rs): normalises the port away for 2-tuple affinity; a pure function
    #[verifier::external_body]
    pub fn from_src(src: SocketAddr, with_port: bool) -> FlowKey { unimplemented!() }
}
#[verifier::external_body]
pub fn verif_vec_len(v: &Vec<u8>) -> (r: usize) ensures r == v@.len() { unimplemented!() }
// `<[u8]>::to_vec` (ASSUMED std: an equal copy)
#[verifier::external_body]
pub fn verif_to_vec(p: &[u8]) -> (r: Vec<u8>) ensures r@ == p@ { unimplemented!() }
#[verifier::external_body]
pub fn verif_umax(a: usize, b: usize) -> (r: usize) ensures r == (if a >= b { a } else { b }) { unimplemented!() }
#[verifier::external_body]
pub fn verif_flowid_eq(a: Option<&FlowId>, b: &FlowId) -> (r: bool) ensures r == (a == Some(b)) { unimplemented!() }

//@global-subst "std::time::Instant" => "Instant"
//@item lib/src/protocol/udp/flow.rs enum CloseReason structural
//@item lib/src/protocol/udp/flow.rs enum FlowPhase structural
//@item lib/src/protocol/udp/mod.rs struct FlowKey
//@item lib/src/protocol/udp/mod.rs struct ClusterConfig
//@item lib/src/protocol/udp/mod.rs struct Transmit
//@item lib/src/protocol/udp/mod.rs enum DropReason
//@item lib/src/protocol/udp/mod.rs enum MetricEvent
//@item lib/src/protocol/udp/mod.rs enum Output
//@item lib/src/protocol/udp/mod.rs enum ConfigEvent
//@item lib/src/protocol/udp/mod.rs enum ManagerInput
//@global-subst "std::time::Duration" => "Duration"
//@item lib/src/protocol/udp/flow.rs struct UdpFlow
//@item lib/src/protocol/udp/manager.rs struct UdpManager

pub open spec fn legal_edge(from: FlowPhase, to: FlowPhase) -> bool {
    ||| (from == FlowPhase::AwaitingBackend && to == FlowPhase::Established)
    ||| (from == FlowPhase::AwaitingBackend && to == FlowPhase::Closing)
    ||| (from == FlowPhase::Established && to == FlowPhase::Closing)
}
pub open spec fn sat_inc(x: u32) -> u32 { if x == u32::MAX { x } else { (x + 1) as u32 } }

// the per-flow state machine: contracts proved in U-udpflow, imported here (modular chain)
impl UdpFlow {
    pub open spec fn same_peers(&self, o: &UdpFlow) -> bool {
        self.client == o.client && self.backend_addr == o.backend_addr && self.backend_id == o.backend_id && self.config == o.config
            && self.pending_payload == o.pending_payload
    }
    pub open spec fn spec_requests_exhausted(&self) -> bool { self.config.requests != 0 && self.requests_seen >= self.config.requests }
    pub open spec fn spec_responses_exhausted(&self) -> bool { self.config.responses != 0 && self.responses_seen >= self.config.responses }
    //@import U-udpflow UdpFlow::touch
    //@import U-udpflow UdpFlow::set_phase
    //@import U-udpflow UdpFlow::on_client_datagram
    //@import U-udpflow UdpFlow::on_backend_datagram
    //@import U-udpflow UdpFlow::teardown_reason
    //@import U-udpflow UdpFlow::take_proxy_protocol
}
pub uninterp spec fn spec_instant_add(a: Instant, d: Duration) -> Instant;

impl<E: FlowKeyExtractor> UdpManager<E> {
    // everything a datagram-level operation must leave alone unless it admits or closes a flow
    pub open spec fn same_knobs(&self, o: &Self) -> bool {
        self.max_flows == o.max_flows && self.draining == o.draining && self.max_rx_datagram_size == o.max_rx_datagram_size
            && self.cluster == o.cluster && self.hash_seed == o.hash_seed
    }

    // outputs are only ever appended; `quiet_from(n)`: nothing from position n on is a transmission
    pub open spec fn only_appends(&self, o: &Self) -> bool {
        o.outputs@.len() <= self.outputs@.len() && forall|i: int| 0 <= i < o.outputs@.len() ==> #[trigger] self.outputs@[i] == o.outputs@[i]
    }
    // an established flow knows its backend (set by on_backend_resolved before the phase moves)
    pub open spec fn flows_wf(&self) -> bool {
        forall|k: usize| #[trigger] self.flows@.contains_key(k) && self.flows@[k].phase == FlowPhase::Established ==> self.flows@[k].backend_addr is Some
    }
    // what may be sent upstream for a client datagram `p` of flow `f`: the datagram itself, optionally behind the PROXY prefix
    pub open spec fn upstream_bytes_ok(sent: Seq<u8>, p: Seq<u8>, client: SocketAddr, backend: SocketAddr) -> bool {
        sent == p || sent == spec_pp_header(client, backend) + p
    }
    pub open spec fn quiet_from(&self, n: int) -> bool {
        forall|i: int| n <= i < self.outputs@.len() ==> !(#[trigger] self.outputs@[i] is SendToClient) && !(self.outputs@[i] is SendToBackend)
    }

    //@fn lib/src/protocol/udp/manager.rs UdpManager::on_config
    //@  subst "self.max_flows_high_water.max(n)" => "verif_umax(self.max_flows_high_water, n)"
    //@  ensures
    //@    final(self).flows@ == old(self).flows@ && final(self).table@ == old(self).table@ && final(self).outputs@ == old(self).outputs@, // [reconfiguration-touches-no-flow]
    //@    event matches ConfigEvent::SetMaxFlows(n) ==> final(self).max_flows == n && final(self).draining == old(self).draining, // [set-max-flows-installs-exactly-the-cap-given]
    //@    event matches ConfigEvent::Drain ==> final(self).draining && final(self).max_flows == old(self).max_flows, // [drain-latches]
    //@    !(event is SetMaxFlows) ==> final(self).max_flows == old(self).max_flows,                    // [cap-changes-only-on-set-max-flows]
    //@    !(event is Drain) ==> final(self).draining == old(self).draining,                           // [draining-changes-only-on-drain]
    //@end

    //@fn lib/src/protocol/udp/manager.rs UdpManager::drop_datagram
    //@  ensures
    //@    final(self).flows@ == old(self).flows@ && final(self).table@ == old(self).table@ && final(self).same_knobs(old(self)), // [a-drop-allocates-and-frees-nothing]
    //@    final(self).only_appends(old(self)) && final(self).quiet_from(old(self).outputs@.len() as int),     // [a-drop-transmits-nothing]
    //@end

    // callees of on_client_datagram that are outside this unit: ASSUMED frame contracts (R7)
    //@fn lib/src/protocol/udp/manager.rs UdpManager::forward_on_existing_flow
    //@  substall "payload.to_vec()" => "verif_to_vec(payload)"
    //@  subst ".expect(\"Established flow always has a backend address\")" => ".unwrap()"
    //@  before "@end"
    //@    proof { old(self).flows.axiom_finite(); vstd::set_lib::lemma_len_subset(self.flows@.dom(), old(self).flows@.dom()); }
    //@  requires
    //@    old(self).flows_wf(),
    //@  ensures
    //@    final(self).same_knobs(old(self)) && final(self).only_appends(old(self)),
    //@    final(self).flows@.dom().subset_of(old(self).flows@.dom()) && final(self).flows@.len() <= old(self).flows@.len(), // [forwarding-admits-no-flow]
    //@    final(self).flows_wf(),                                                                     // [established-flows-know-their-backend]
    //@    forall|k: usize| k != flow_id && #[trigger] final(self).flows@.contains_key(k) ==> final(self).flows@[k] == old(self).flows@[k], // [other-flows-untouched]
    //@    ({
    //@        let est = old(self).flows@.contains_key(flow_id) && old(self).flows@[flow_id].phase == FlowPhase::Established;
    //@        let n = old(self).outputs@.len() as int;
    //@        &&& !est ==> final(self).quiet_from(n)
    //@        &&& est ==> final(self).outputs@.len() >= n + 2
    //@            && (final(self).outputs@[n + 1] matches Output::SendToBackend(t) && Some(t.dst) == old(self).flows@[flow_id].backend_addr && t.segment_size is None
    //@                && Self::upstream_bytes_ok(t.payload@, payload@, old(self).flows@[flow_id].client, old(self).flows@[flow_id].backend_addr->0))
    //@            && !(final(self).outputs@[n] is SendToClient) && !(final(self).outputs@[n] is SendToBackend)
    //@            && final(self).quiet_from(n + 2)
    //@    }),                                                                                         // [a-datagram-of-a-live-flow-goes-once-intact-to-the-flows-own-backend-only]
    //@end
    //@fn lib/src/protocol/udp/manager.rs UdpManager::reschedule
    //@  opaque_body
    //@  ensures
    //@    final(self).same_knobs(old(self)) && final(self).flows@ == old(self).flows@ && final(self).table@ == old(self).table@,
    //@    final(self).only_appends(old(self)) && final(self).quiet_from(old(self).outputs@.len() as int),
    //@    forall|i: int| old(self).outputs@.len() <= i < final(self).outputs@.len() ==> #[trigger] final(self).outputs@[i] is ArmTimer,
    //@end
    //@fn lib/src/protocol/udp/manager.rs UdpManager::close_flow
    //@  subst "self.table.get(&key) == Some(&flow_id)" => "verif_flowid_eq(self.table.get(&key), &flow_id)"
    //@  subst "self.table.get(&own_key) == Some(&flow_id)" => "verif_flowid_eq(self.table.get(&own_key), &flow_id)"
    //@  drop_dassert 1 iterator adaptor values().all(..) over the key table; not part of the teardown-once clause
    //@  before "@end"
    //@    proof { old(self).flows.axiom_finite(); vstd::set_lib::lemma_len_subset(self.flows@.dom(), old(self).flows@.dom()); }
    //@  ensures
    //@    final(self).same_knobs(old(self)),
    //@    final(self).flows@.dom().subset_of(old(self).flows@.dom()),
    //@    old(self).flows_wf() ==> final(self).flows_wf(),
    //@    final(self).flows@.len() <= old(self).flows@.len(),
    //@    forall|k: usize| #[trigger] final(self).flows@.contains_key(k) ==> final(self).flows@[k] == old(self).flows@[k],
    //@    final(self).only_appends(old(self)) && final(self).quiet_from(old(self).outputs@.len() as int),
    //@    ({
    //@        let live = old(self).flows@.contains_key(flow_id) && old(self).flows@[flow_id].phase != FlowPhase::Closing;
    //@        let n = old(self).outputs@.len() as int;
    //@        &&& live ==> final(self).flows@.dom() =~= old(self).flows@.dom().remove(flow_id)
    //@            && final(self).outputs@.len() >= n + 2 && final(self).outputs@[n + 1] == Output::CloseFlow(flow_id)
    //@            && (forall|i: int| n <= i < final(self).outputs@.len() && i != n + 1 ==> !(#[trigger] final(self).outputs@[i] is CloseFlow))
    //@        &&& !live ==> final(self).flows@ == old(self).flows@ && final(self).table@ == old(self).table@ && final(self).outputs@ == old(self).outputs@
    //@    }),                                                                                         // [a-live-flow-is-torn-down-once-and-a-second-teardown-is-a-no-op]
    //@end
    //@fn lib/src/protocol/udp/manager.rs UdpManager::affinity_hash
    //@  opaque_body
    //@end

    //@fn lib/src/protocol/udp/manager.rs UdpManager::on_backend_resolved
    //@  subst "let _gen = self\n            .flows\n            .get_mut(flow_id)\n            .map(|f| f.touch(self.cluster.front_timeout, now));" => "let _gen = verif_touch_if_present(&mut self.flows, flow_id, self.cluster.front_timeout, now);"
    //@  subst "let payload_len = payload.len();" => "let payload_len = verif_vec_len(&payload);"
    //@  before "@end"
    //@    proof { old(self).flows.axiom_finite(); vstd::set_lib::lemma_len_subset(self.flows@.dom(), old(self).flows@.dom()); }
    //@  requires
    //@    old(self).flows_wf(),
    //@  ensures
    //@    final(self).same_knobs(old(self)) && final(self).only_appends(old(self)) && final(self).flows_wf(), // [established-flows-know-their-backend]
    //@    final(self).flows@.dom().subset_of(old(self).flows@.dom()) && final(self).flows@.len() <= old(self).flows@.len(), // [a-resolution-admits-no-flow]
    //@    ({
    //@        let awaiting = old(self).flows@.contains_key(flow_id) && old(self).flows@[flow_id].phase == FlowPhase::AwaitingBackend;
    //@        let n = old(self).outputs@.len() as int;
    //@        &&& !awaiting ==> final(self).quiet_from(n) && (forall|k: usize| #[trigger] final(self).flows@.contains_key(k) ==> final(self).flows@[k].backend_addr == old(self).flows@[k].backend_addr)
    //@        &&& awaiting ==> forall|i: int| n <= i < final(self).outputs@.len() ==> !(#[trigger] final(self).outputs@[i] is SendToClient)
    //@            && (final(self).outputs@[i] matches Output::SendToBackend(t) ==> t.dst == addr && old(self).flows@[flow_id].pending_payload is Some
    //@                && Self::upstream_bytes_ok(t.payload@, old(self).flows@[flow_id].pending_payload->0@, old(self).flows@[flow_id].client, addr))
    //@    }),                                                                                         // [a-late-or-duplicate-resolution-rebinds-nothing-and-the-buffered-datagram-goes-to-the-resolved-backend]
    //@    forall|k: usize| k != flow_id && #[trigger] final(self).flows@.contains_key(k) ==> final(self).flows@[k].backend_addr == old(self).flows@[k].backend_addr, // [other-flows-keep-their-backend]
    //@end

    //@fn lib/src/protocol/udp/manager.rs UdpManager::on_backend_datagram
    //@  substall "payload.to_vec()" => "verif_to_vec(payload)"
    //@  before "@end"
    //@    proof { old(self).flows.axiom_finite(); vstd::set_lib::lemma_len_subset(self.flows@.dom(), old(self).flows@.dom()); }
    //@  ensures
    //@    final(self).same_knobs(old(self)) && final(self).only_appends(old(self)),                   // [outputs-only-appended]
    //@    (old(self).flows_wf() ==> final(self).flows_wf()) && final(self).flows@.dom().subset_of(old(self).flows@.dom()) && final(self).flows@.len() <= old(self).flows@.len(), // [a-reply-admits-no-flow]
    //@    ({
    //@        let deliverable = old(self).flows@.contains_key(flow_id) && old(self).flows@[flow_id].phase == FlowPhase::Established
    //@            && payload@.len() <= old(self).max_rx_datagram_size;
    //@        let n = old(self).outputs@.len() as int;
    //@        &&& !deliverable ==> final(self).quiet_from(n)
    //@        &&& deliverable ==> final(self).outputs@.len() >= n + 2
    //@            && (final(self).outputs@[n + 1] matches Output::SendToClient(t) && t.dst == old(self).flows@[flow_id].client && t.payload@ == payload@ && t.segment_size is None)
    //@            && !(final(self).outputs@[n] is SendToClient) && !(final(self).outputs@[n] is SendToBackend)
    //@            && final(self).quiet_from(n + 2)
    //@    }),                                                                                         // [a-reply-goes-once-intact-to-the-flows-own-client-only]
    //@end

    //@fn lib/src/protocol/udp/manager.rs UdpManager::on_client_datagram
    //@  subst "self.cluster.cluster.is_empty()" => "verif_string_is_empty(&self.cluster.cluster)"
    //@  subst "let Some(&flow_id) = self.table.get(&key)" => "let Some(flow_id) = verif_copied(self.table.get(&key))"
    //@  cut "let mut flow = UdpFlow::new(src, self.cluster.clone(), now);" .. "let key_hash" => "let flow = verif_new_flow(src, &self.cluster, payload, now);\n        "
    //@  subst "self.table.get(&key),\n            Some(&flow_id)," => "verif_flowid_eq(self.table.get(&key), &flow_id), true,"
    //@  subst "cluster: self.cluster.cluster.clone()," => "cluster: verif_string_clone(&self.cluster.cluster),"
    //@  requires
    //@    old(self).flows_wf(),
    //@  ensures
    //@    final(self).same_knobs(old(self)) && final(self).flows_wf() && final(self).only_appends(old(self)), // [a-datagram-never-moves-the-cap]
    //@    final(self).flows@.len() <= old(self).flows@.len() + 1,                                     // [at-most-one-flow-per-datagram]
    //@    final(self).flows@.len() > old(self).flows@.len() ==> !old(self).draining && old(self).flows@.len() < old(self).max_flows, // [admits-only-below-the-cap-in-force]
    //@    final(self).flows@.len() > old(self).flows@.len() ==> final(self).flows@.len() <= old(self).max_flows, // [live-flows-stay-within-the-cap-after-admission]
    //@    forall|id: usize| old(self).flows@.contains_key(id) || !final(self).flows@.contains_key(id) || final(self).flows@.len() > old(self).flows@.len(), // [no-flow-appears-without-admission]
    //@end

    // the debug-only invariant sweep (check_invariants: iterators over the three collections, outside Verus): takes
    // `&self`, so it cannot change the manager
    //@fn lib/src/protocol/udp/manager.rs UdpManager::debug_assert_invariants
    //@  opaque_body
    //@end

    //@fn lib/src/protocol/udp/manager.rs UdpManager::abort_flow
    //@  ensures
    //@    final(self).same_knobs(old(self)) && final(self).only_appends(old(self)) && final(self).quiet_from(old(self).outputs@.len() as int),
    //@    old(self).flows_wf() ==> final(self).flows_wf(),
    //@    ({
    //@        let live = old(self).flows@.contains_key(flow) && old(self).flows@[flow].phase != FlowPhase::Closing;
    //@        let n = old(self).outputs@.len() as int;
    //@        &&& live ==> final(self).flows@.dom() =~= old(self).flows@.dom().remove(flow)
    //@            && final(self).outputs@.len() >= n + 2 && final(self).outputs@[n + 1] == Output::CloseFlow(flow)
    //@            && (forall|i: int| n <= i < final(self).outputs@.len() && i != n + 1 ==> !(#[trigger] final(self).outputs@[i] is CloseFlow))
    //@        &&& !live ==> final(self).flows@ == old(self).flows@ && final(self).outputs@ == old(self).outputs@
    //@    }),                                                                                         // [abort-tears-down-once-and-is-idempotent]
    //@end

    //@fn lib/src/protocol/udp/manager.rs UdpManager::handle_input
    //@  requires
    //@    old(self).flows_wf(),
    //@  ensures
    //@    final(self).flows_wf() && final(self).only_appends(old(self)),                              // [every-input-keeps-the-manager-well-formed]
    //@    !(input is Config) ==> final(self).same_knobs(old(self)),                                   // [only-reconfiguration-moves-a-knob]
    //@    final(self).flows@.len() <= old(self).flows@.len() + 1,                                     // [at-most-one-flow-per-input]
    //@    final(self).flows@.len() > old(self).flows@.len() ==> input is ClientDatagram && !old(self).draining && old(self).flows@.len() < old(self).max_flows, // [only-a-client-datagram-below-the-cap-in-force-admits]
    //@    input is Config ==> final(self).flows@ == old(self).flows@ && final(self).outputs@ == old(self).outputs@, // [reconfiguration-touches-no-flow-and-transmits-nothing]
    //@end
}

#[verifier::external_body]
pub fn verif_copied(x: Option<&FlowId>) -> (r: Option<FlowId>)
    ensures match x { Some(v) => r == Some(*v), None => r is None }
{ unimplemented!() }

} // verus!
fn main() {}
