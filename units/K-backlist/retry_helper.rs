    // Helper for the K-backlist harnesses in backends.rs — appended to the REAL lib/src/retry.rs in a scratch copy.
    // The policy's fields are private to this file; this constructor puts it into any type-valid state without
    // calling fail() (whose jitter uses rand::rng(), which crashes kani-compiler).
    pub(crate) fn policy_in_state(max_tries: usize, current_tries: usize, wait_s: u64, last_try: time::Instant) -> RetryPolicyWrapper {
        RetryPolicyWrapper::ExponentialBackoff(ExponentialBackoffPolicy {
            max_tries,
            current_tries,
            last_try,
            wait: time::Duration::from_secs(wait_s),
        })
    }
