    // Kani harness for lib/src/backends.rs — appended to the REAL file in a scratch copy.
    // Clock: Instant::now() is clock_gettime (foreign, outside Kani). stub_now() hands out distinct Instants
    // (base + k seconds, k = number of now() calls so far); stub_elapsed() answers from a symbolic table indexed
    // by that k, so the answer for one Instant is the same at every call (the clock is frozen within a harness)
    // and independent across Instants. Every backend therefore is, independently, inside or outside its back-off.
    use std::time::{Duration, Instant};
    const N: usize = 2;
    // Clock: Instant::now() is clock_gettime (foreign, outside Kani) -> stub returns a fixed Instant. Backend i's retry
    // policy is given last_try = base + i seconds, and the stubbed elapsed() answers ELAPSED_S[i] for that Instant:
    // one symbolic value per backend, the same at every call (the clock is frozen within a harness).
    static mut ELAPSED_S: [u8; 8] = [0; 8];
    fn base() -> Instant { unsafe { std::mem::zeroed() } }
    fn stub_now() -> Instant { base() + Duration::from_secs(7) }
    fn stub_elapsed(i: &Instant) -> Duration {
        let k = i.duration_since(base()).as_secs() as usize;
        Duration::from_secs(unsafe { ELAPSED_S[k % 8] } as u64)
    }
    // Backend's Drop pushes a RemovedBackendHasNoConnections event on the worker's thread-local command queue
    // (server::push_event); that reaches rand / the whole command channel and crashes kani-compiler (ICE at
    // intrinsics.rs:243). Events are not part of what these harnesses decide.
    fn stub_push_event(_e: Event) {}

    // what the harness knows about backend i by construction (NOT by calling can_open / is_available)
    #[derive(Clone, Copy)]
    struct Facts { normal: bool, healthy: bool, backing_off: bool, backup: bool }
    impl Facts {
        // C12: "not being removed, not marked unhealthy, not inside its failure back-off"
        fn eligible(&self) -> bool { self.normal && self.healthy && !self.backing_off }
        // documented fail-open set: "normal, non-backing-off backends"
        fn fail_open(&self) -> bool { self.normal && !self.backing_off }
    }

    fn mk(i: usize) -> (Backend, Facts) {
        let ids = ["b0", "b1", "b2"];
        let sticky = ["s0", "s1", "s2"];
        let addr = SocketAddr::new(std::net::IpAddr::V4(std::net::Ipv4Addr::new(10, 0, 0, 1 + i as u8)), 8080);
        let mut b = Backend::new(ids[i], addr, Some(sticky[i].to_owned()), None, Some(kani::any()));
        let status: u8 = kani::any();
        b.status = match status % 3 { 0 => BackendStatus::Normal, 1 => BackendStatus::Closing, _ => BackendStatus::Closed };
        let unhealthy: bool = kani::any();
        if unhealthy { b.health.status = HealthStatus::Unhealthy; }
        // any state of the retry policy: budget 6, 0..=6 failures so far, a back-off window of wait_s seconds that
        // started ELAPSED_S[i] seconds ago
        let tries: usize = kani::any();
        kani::assume(tries <= 6);
        let wait_s: u8 = kani::any();
        b.retry_policy = crate::retry::verif_kani_k_backlist::policy_in_state(6, tries, wait_s as u64, base() + Duration::from_secs(i as u64));
        let backing_off = unsafe { ELAPSED_S[i] } < wait_s;
        let f = Facts { normal: matches!(b.status, BackendStatus::Normal), healthy: !unhealthy, backing_off, backup: b.backup };
        (b, f)
    }

    // BackendList::new() installs the Random policy, whose rand::rng() crashes kani-compiler: the list is built
    // field by field with a deterministic policy instead (a changed field set is a compile error -> TOOL-ERROR).
    fn setup(lb: Box<dyn LoadBalancingAlgorithm>) -> (BackendList, [Facts; N]) {
        unsafe { ELAPSED_S = kani::any(); }
        let mut l = BackendList { backends: Vec::new(), next_id: 0, load_balancing: lb, fail_open_warned: kani::any(),
                                  availability: Cell::new(ClusterAvailability::Available) };
        let mut facts = [Facts { normal: false, healthy: false, backing_off: false, backup: false }; N];
        let mut i = 0;
        while i < N {
            let (b, f) = mk(i);
            facts[i] = f;
            l.backends.push(Rc::new(RefCell::new(b)));
            i += 1;
        }
        (l, facts)
    }

    fn index_of(l: &BackendList, r: &Rc<RefCell<Backend>>) -> usize {
        let mut i = 0;
        while i < N { if Rc::ptr_eq(&l.backends[i], r) { return i; } i += 1; }
        N
    }

    #[kani::proof]
    #[kani::unwind(5)]
    #[kani::stub(std::time::Instant::elapsed, stub_elapsed)]
    #[kani::stub(std::time::Instant::now, stub_now)]
    #[kani::stub(crate::server::push_event, stub_push_event)]
    fn sticky_wins_iff_its_backend_is_eligible() {
        let (mut l, facts) = setup(Box::new(RoundRobin::new()));
        let w: u8 = kani::any();
        let (want, widx) = match w % 3 { 0 => ("s0", Some(0usize)), 1 => ("s1", Some(1usize)), _ => ("zz", None) };
        let r = l.find_sticky(want).map(|b| b.clone());
        match widx {
            None => assert!(r.is_none()),
            Some(i) => {
                if facts[i].eligible() {
                    assert!(r.is_some());
                    assert!(index_of(&l, r.as_ref().unwrap()) == i);
                } else {
                    assert!(r.is_none());
                }
            }
        }
        kani::cover!(r.is_some());
        kani::cover!(r.is_none() && widx.is_some());
    }
