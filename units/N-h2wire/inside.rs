    // Bounded native scenario for C01 on the wire (unit N-h2wire): a REAL in-process worker (HTTPS listener, HTTP/2 client
    // side raw over TLS, one HTTP/1.1 backend serving a 12 MB body of the octet '0'), appended as a test module to
    // e2e/src/tests/tests.rs in a scratch copy. "However the peers or the kernel pace reads and writes": the client asks for
    // the body with wide flow-control windows, does NOT read for a while (so that sozu's socket writes stall part-way through
    // a frame), sends PING frames meanwhile, then reads everything. The frames sozu wrote must parse back to back, every
    // DATA payload octet of stream 1 must be '0' (nothing interleaved inside a frame), the body must be complete and end
    // with END_STREAM, and every PING must be acknowledged with its own payload.
    use std::io::{Read, Write};
    use crate::tests::h2_utils::{h2_handshake_with_initial_window, raw_h2_connection, H2Frame};

    #[test]
    fn enumerate() {
        const BODY: usize = 12 * 1024 * 1024;
        // the worker (as setup_h2_test does), with our own backend: a blocking writer that never gives up
        use sozu_command_lib::{config::ListenerBuilder, proto::command::{request::RequestType, ActivateListener, AddCertificate, CertificateAndKey, ListenerType, RequestHttpFrontend, SocketAddress}};
        let front_port = crate::port_registry::provide_port();
        let front = SocketAddress::new_v4(127, 0, 0, 1, front_port);
        let (config, listeners, state) = Worker::empty_https_config(front.clone().into());
        let mut worker = Worker::start_new_worker_owned("VERIF-H2WIRE", config, listeners, state);
        worker.send_proxy_request_type(RequestType::AddHttpsListener(ListenerBuilder::new_https(front.clone()).to_tls(None).unwrap()));
        worker.send_proxy_request_type(RequestType::ActivateListener(ActivateListener { address: front.clone(), proxy: ListenerType::Https.into(), from_scm: false }));
        worker.send_proxy_request_type(RequestType::AddCluster(Worker::default_cluster("cluster_0")));
        worker.send_proxy_request_type(RequestType::AddHttpsFrontend(RequestHttpFrontend { hostname: String::from("localhost"), ..Worker::default_http_frontend("cluster_0", front.clone().into()) }));
        worker.send_proxy_request_type(RequestType::AddCertificate(AddCertificate { address: front.clone(), certificate: CertificateAndKey { certificate: String::from(include_str!("../../../lib/assets/local-certificate.pem")), key: String::from(include_str!("../../../lib/assets/local-key.pem")), certificate_chain: vec![], versions: vec![], names: vec![] }, expired_at: None }));
        let back_address = create_local_address();
        worker.send_proxy_request_type(RequestType::AddBackend(Worker::default_backend("cluster_0", "cluster_0-0", back_address, None)));
        worker.read_to_last();
        let back = crate::port_registry::bind_std_listener(back_address, "blocking big-body backend");
        back.set_nonblocking(false).unwrap();
        let backend = thread::spawn(move || {
            if let Ok((mut conn, _)) = back.accept() {
                conn.set_nonblocking(false).unwrap();
                let mut buf = [0u8; 8192];
                let _ = conn.read(&mut buf);
                let _ = conn.write_all(format!("HTTP/1.1 200 OK\r\nContent-Length: {BODY}\r\n\r\n").as_bytes());
                let chunk = vec![b'0'; 1 << 16];
                let mut left = BODY;
                while left > 0 { let k = left.min(chunk.len()); if conn.write_all(&chunk[..k]).is_err() { break; } left -= k; }
                let _ = conn.read(&mut buf);
            }
        });
        let mut tls = raw_h2_connection(std::net::SocketAddr::from(([127, 0, 0, 1], front_port)));
        h2_handshake_with_initial_window(&mut tls, 0x7fff_0000);
        let _ = tls.write_all(&H2Frame::window_update(0, 0x7fff_0000 - 65_535).encode());
        fn lit(buf: &mut Vec<u8>, name: &[u8], value: &[u8]) { buf.push(0x00); buf.push(name.len() as u8); buf.extend_from_slice(name); buf.push(value.len() as u8); buf.extend_from_slice(value); }
        let mut h = Vec::new();
        lit(&mut h, b":method", b"GET"); lit(&mut h, b":scheme", b"https"); lit(&mut h, b":path", b"/big"); lit(&mut h, b":authority", b"localhost");
        let _ = tls.write_all(&H2Frame::headers(1, h, true, true).encode());
        let _ = tls.flush();
        // let sozu fill every buffer between it and us, then ping it three times while its write is stalled
        thread::sleep(Duration::from_millis(1500));
        for k in 0..3u8 {
            let _ = tls.write_all(&H2Frame::ping([0xA0 + k, 1, 2, 3, 4, 5, 6, 7]).encode());
            let _ = tls.flush();
            thread::sleep(Duration::from_millis(300));
        }
        // now read everything
        tls.sock.set_read_timeout(Some(Duration::from_millis(500))).unwrap();
        let mut carry: Vec<u8> = Vec::new();
        let mut buf = vec![0u8; 1 << 16];
        let (mut data_octets, mut bad_octet, mut frames, mut end_stream) = (0usize, None::<(usize, u8)>, 0u64, false);
        let mut ping_acks: Vec<u8> = Vec::new();
        let mut problem: Option<String> = None;
        let deadline = Instant::now() + Duration::from_secs(300);
        let mut idle = 0;
        'read: while Instant::now() < deadline && !end_stream {
            match tls.read(&mut buf) {
                Ok(0) => break,
                Ok(n) => { idle = 0; carry.extend_from_slice(&buf[..n]); }
                Err(_) => { idle += 1; if idle > 80 { break; } continue; }
            }
            loop {
                if carry.len() < 9 { break; }
                let len = ((carry[0] as usize) << 16) | ((carry[1] as usize) << 8) | carry[2] as usize;
                let (ty, flags) = (carry[3], carry[4]);
                let sid = u32::from_be_bytes([carry[5], carry[6], carry[7], carry[8]]) & 0x7fff_ffff;
                if len > 16384 { problem = Some(format!("frame #{frames}: declared length {len} > 16384 (type {ty}, stream {sid}): the frame stream is out of step after {data_octets} body octets")); break 'read; }
                if ty > 9 && ty != 0x10 { problem = Some(format!("frame #{frames}: unknown frame type {ty} (stream {sid}, length {len}): the frame stream is out of step after {data_octets} body octets")); break 'read; }
                if carry.len() < 9 + len { break; }
                let payload: Vec<u8> = carry[9..9 + len].to_vec();
                carry.drain(..9 + len);
                frames += 1;
                match ty {
                    0 => {
                        if sid != 1 { problem = Some(format!("DATA on stream {sid}")); break 'read; }
                        if bad_octet.is_none() { if let Some(p) = payload.iter().position(|b| *b != b'0') { bad_octet = Some((data_octets + p, payload[p])); } }
                        data_octets += payload.len();
                        if flags & 0x1 != 0 { end_stream = true; }
                    }
                    6 => { if flags & 0x1 != 0 && payload.len() == 8 { ping_acks.push(payload[0]); } }
                    7 => { problem = Some(format!("sozu sent GOAWAY (error code {}) after {data_octets} body octets", u32::from_be_bytes([payload[4], payload[5], payload[6], payload[7]]))); break 'read; }
                    3 => { problem = Some(format!("sozu reset stream {sid} after {data_octets} body octets")); break 'read; }
                    _ => {}
                }
            }
        }
        let mut fails: Vec<String> = Vec::new();
        if let Some(p) = problem { fails.push(p); }
        if let Some((off, b)) = bad_octet { fails.push(format!("body octet #{off} is 0x{b:02x}, the backend only sent '0' (0x30): foreign octets inside a DATA frame")); }
        // an incomplete transfer WITHOUT any sign of corruption cannot be told from a slow machine: no verdict (the engine's
        // vacuity guard turns a run without a completed transfer into a tool error, never into an alarm)
        let inconclusive = fails.is_empty() && (data_octets != BODY || !end_stream);
        if inconclusive { println!("N-h2wire: inconclusive: {data_octets} of {BODY} body octets, END_STREAM seen: {end_stream}"); }
        if fails.is_empty() && !inconclusive && ping_acks != vec![0xA0, 0xA1, 0xA2] { fails.push(format!("PING acknowledgements received (first payload octet): {ping_acks:x?}, expected [a0, a1, a2]")); }
        println!("N-h2wire: {frames} frames, {data_octets} body octets, ping acks {ping_acks:x?}");
        drop(tls);
        worker.soft_stop();
        let _ = worker.wait_for_server_stop();
        let _ = backend.join();
        let fl: Vec<String> = fails.iter().take(1).map(|o| format!("{{\"input\": {:?}, \"observed\": {:?}}}", "HTTP/2 GET of a 12 MB body over TLS, client does not read for 1.5 s, sends 3 PING frames 0.3 s apart, then reads everything", o)).collect();
        println!("{{\"bound\": \"one scripted scenario on a real worker: PING frames while a large response is stalled on the socket\", \"states\": 1, \"pairs\": 1, \"nontrivial_pairs\": {}, \"failures\": [{}]}}", if inconclusive { 0 } else { 1 }, fl.join(", "));
    }
