    // Bounded native scenarios for C02 on the wire (unit N-trunc): a REAL in-process worker and an HTTP/1.1 backend that
    // closes its connection in the middle of a response body; appended as a test module to e2e/src/tests/tests.rs in a
    // scratch copy. "once a response has started - an explicit abort (connection close or RST_STREAM), never a truncated
    // body presented as complete".
    use std::io::{Read, Write};
    use std::net::{TcpListener, TcpStream};
    use crate::tests::setup_test;

    /// the backend: answers the first request of every connection with `partial` and closes
    fn start_backend(address: SocketAddr, partial: &'static [u8]) -> (std::sync::Arc<std::sync::atomic::AtomicBool>, thread::JoinHandle<()>) {
        let back = crate::port_registry::bind_std_listener(address, "truncating backend");
        let stop = std::sync::Arc::new(std::sync::atomic::AtomicBool::new(false));
        let s = stop.clone();
        let handle = thread::spawn(move || { back.set_nonblocking(true).unwrap();
            while !s.load(std::sync::atomic::Ordering::SeqCst) { match back.accept() {
                Ok((mut conn, _)) => { conn.set_nonblocking(false).unwrap(); conn.set_read_timeout(Some(Duration::from_secs(5))).unwrap();
                    let mut buf = [0u8; 8192]; let _ = conn.read(&mut buf);
                    let _ = conn.write_all(partial); let _ = conn.flush();
                    thread::sleep(Duration::from_millis(300));
                    let _ = conn.shutdown(std::net::Shutdown::Both); }
                Err(_) => thread::sleep(Duration::from_millis(10)) } } });
        (stop, handle)
    }

    const CL_PARTIAL: &[u8] = b"HTTP/1.1 200 OK\r\nContent-Length: 100\r\n\r\n0123456789012345678901234567890123456789";
    const CHUNKED_PARTIAL: &[u8] = b"HTTP/1.1 200 OK\r\nTransfer-Encoding: chunked\r\n\r\n5\r\nhello\r\n14\r\n0123456789";

    #[test]
    fn enumerate() {
        // quick: wait 8 s for the abort; thorough: 75 s, beyond the default front (60 s) and back (30 s) timeouts
        let thorough = std::env::var("VERIF_NATIVE_ARGS").map(|a| a.contains("thorough")).unwrap_or(false);
        let wait = Duration::from_secs(if thorough { 75 } else { 8 });
        let (mut n, mut decided, mut fails): (u64, u64, Vec<(String, String)>) = (0, 0, Vec::new());
        // ---- HTTP/1.1 front
        for (what, partial) in [("a Content-Length: 100 response cut after 40 body octets", CL_PARTIAL), ("a chunked response cut inside its second chunk", CHUNKED_PARTIAL)] {
            n += 1;
            let front_address = create_local_address();
            let (config, listeners, state) = Worker::empty_config();
            let (mut worker, backends) = setup_test("VERIF-TRUNC", config, listeners, state, front_address, 1, false);
            let (stop, acceptor) = start_backend(backends[0], partial);
            let name = format!("HTTP/1.1 client, GET; the backend sends {what} and closes its connection");
            let mut client = TcpStream::connect(front_address).expect("connect to sozu");
            client.set_read_timeout(Some(Duration::from_millis(300))).unwrap();
            let _ = client.write_all(b"GET /t HTTP/1.1\r\nHost: localhost\r\n\r\n");
            let (mut seen, mut eof) = (Vec::new(), false);
            let mut buf = [0u8; 8192];
            let deadline = Instant::now() + wait;
            while Instant::now() < deadline && !eof { match client.read(&mut buf) { Ok(0) => eof = true, Ok(k) => seen.extend_from_slice(&buf[..k]), Err(e) if e.kind() == std::io::ErrorKind::ConnectionReset => eof = true, Err(_) => {} } }
            let text = String::from_utf8_lossy(&seen).into_owned();
            println!("N-trunc {name:?}: {} octets, closed {eof}: {:?}", seen.len(), &text[..text.len().min(200)]);
            let head_end = seen.windows(4).position(|w| w == b"\r\n\r\n");
            let lower = text.to_ascii_lowercase();
            let complete_looking = match head_end {
                Some(p) if lower[..p].contains("content-length:") => { let cl: usize = lower[..p].lines().find(|l| l.starts_with("content-length:")).and_then(|l| l["content-length:".len()..].trim().parse().ok()).unwrap_or(usize::MAX); lower.starts_with("http/1.1 200") && seen.len() - (p + 4) >= cl }
                Some(p) if lower[..p].contains("transfer-encoding: chunked") => lower.starts_with("http/1.1 200") && seen[p + 4..].windows(5).any(|w| w == b"0\r\n\r\n") ,
                _ => false,
            };
            if complete_looking { fails.push((name.clone(), format!("the client receives a message that is complete by its own framing although the backend's response was cut: {:?}", &text[..text.len().min(300)]))); decided += 1; }
            else if lower.starts_with("http/1.1 200") && !eof { println!("N-trunc: a started 200 answer is neither completed nor aborted within {wait:?}"); if thorough { fails.push((name.clone(), format!("the started answer is neither completed nor aborted within {wait:?}, beyond the configured timeouts: the request stays unanswered"))); decided += 1; } }
            else { decided += 1; }
            drop(client);
            stop.store(true, std::sync::atomic::Ordering::SeqCst);
            let _ = acceptor.join();
            worker.soft_stop();
            let _ = worker.wait_for_server_stop();
        }
        // ---- HTTP/2 front
        for (what, partial) in [("a Content-Length: 100 response cut after 40 body octets", CL_PARTIAL), ("a chunked response cut inside its second chunk", CHUNKED_PARTIAL)] {
            use crate::tests::h2_utils::{h2_handshake, raw_h2_connection, setup_h2_listener_only, parse_h2_frames, H2Frame};
            fn lit(buf: &mut Vec<u8>, name: &[u8], value: &[u8]) { buf.push(0x00); buf.push(name.len() as u8); buf.extend_from_slice(name); buf.push(value.len() as u8); buf.extend_from_slice(value); }
            n += 1;
            let (mut worker, front_port, _front) = setup_h2_listener_only("VERIF-TRUNC-H2");
            let back_address = create_local_address();
            worker.send_proxy_request_type(RequestType::AddBackend(Worker::default_backend("cluster_0", "cluster_0-0", back_address, None)));
            worker.read_to_last();
            let (stop, acceptor) = start_backend(back_address, partial);
            let name = format!("HTTP/2 client, GET on stream 1; the HTTP/1.1 backend sends {what} and closes its connection");
            let mut tls = raw_h2_connection(std::net::SocketAddr::from(([127, 0, 0, 1], front_port)));
            h2_handshake(&mut tls);
            let mut h = Vec::new();
            lit(&mut h, b":method", b"GET"); lit(&mut h, b":scheme", b"https"); lit(&mut h, b":path", b"/t"); lit(&mut h, b":authority", b"localhost");
            let _ = tls.write_all(&H2Frame::headers(1, h, true, true).encode());
            let _ = tls.flush();
            let mut seen = Vec::new();
            let deadline = Instant::now() + wait;
            let (mut status_200, mut data, mut end_stream, mut aborted) = (false, 0usize, false, false);
            while Instant::now() < deadline && !end_stream && !aborted {
                let got = crate::tests::h2_utils::read_all_available(&mut tls, Duration::from_millis(300));
                if got.is_empty() && !seen.is_empty() && tls.sock.peek(&mut [0u8; 1]).map(|k| k == 0).unwrap_or(false) { aborted = true; }
                seen.extend_from_slice(&got);
                data = 0;
                for (t, fl, s, p) in parse_h2_frames(&seen) {
                    if s == 1 && t == 0x1 { status_200 = p.first() == Some(&0x88) || p.windows(3).any(|w| w == b"200"); if fl & 0x1 != 0 { end_stream = true; } }
                    if s == 1 && t == 0x0 { data += p.len(); if fl & 0x1 != 0 { end_stream = true; } }
                    if (s == 1 && t == 0x3) || t == 0x7 { aborted = true; }
                }
            }
            println!("N-trunc {name:?}: status-200 {status_200}, {data} body octets, END_STREAM {end_stream}, aborted {aborted}");
            if status_200 && end_stream { fails.push((name.clone(), format!("the client receives :status 200, {data} body octets and END_STREAM: a complete message, although the backend's response was cut"))); decided += 1; }
            else if status_200 && !aborted { println!("N-trunc: a started 200 answer is neither completed nor aborted within {wait:?}"); if thorough { fails.push((name.clone(), format!("the started answer is neither completed nor aborted within {wait:?}, beyond the configured timeouts: the request stays unanswered"))); decided += 1; } }
            else { decided += 1; }
            drop(tls);
            stop.store(true, std::sync::atomic::Ordering::SeqCst);
            let _ = acceptor.join();
            worker.soft_stop();
            let _ = worker.wait_for_server_stop();
        }
        let fl: Vec<String> = fails.iter().map(|(i, o)| format!("{{\"input\": {:?}, \"observed\": {:?}}}", i, o)).collect();
        println!("{{\"bound\": \"4 scenarios on a real worker: HTTP/1.1 and HTTP/2 clients, an HTTP/1.1 backend that closes in the middle of a Content-Length framed / a chunked response body\", \"states\": {n}, \"pairs\": {n}, \"nontrivial_pairs\": {decided}, \"failures\": [{}]}}", fl.join(", "));
    }
