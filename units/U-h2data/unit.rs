// Unit U-h2data — lib/src/protocol/mux/h2.rs: two regions of ConnectionH2::handle_data_frame (C15, C01)
// (1) the CVE-2019-9518 gate at its head
// Property sentence -> contract: "no HTTP/2 input can ... over-commit a worker": a DATA frame that carries no data
// octets and does not end the stream (however much padding it has on the wire) counts towards the empty-DATA flood
// counter, exactly once, before anything else is done with it; a violation reported by the detector ends the handling
// of the frame there.
// (2) the block emission for a linked stream (C01: "bodies complete, unmodified, in order ... for every protocol pair"): the
// DATA payload is always pushed as ONE Chunk block carrying exactly the payload slice; chunk framing (size line before,
// end-of-chunk flags after) is added iff the message is chunked AND the frame carries data octets — a frame that
// carries none (e.g. padding only) must not emit a zero-size chunk, which is the chunked terminator.
// Everything else in handle_data_frame (flow control, Content-Length reconciliation, end of stream, endpoints) is cut
// and NOT part of this unit.
use vstd::prelude::*;
verus! {

// kawa::repr::Slice narrowed to what is asked of it
pub struct Slice { pub start: u32, pub len: u32 }
impl Slice {
    pub fn is_empty(&self) -> (r: bool) ensures r == (self.len == 0) { self.len == 0 }
}
//@item lib/src/protocol/mux/parser.rs struct Data
#[verifier::external_body] pub struct H2FloodViolation { _p: () }
#[verifier::external_body] pub struct MuxResultRest { _p: () }
pub enum MuxResult { Continue, Other(MuxResultRest) }
// the detector (proved in U-h2pure / K-h2flood): only its empty-DATA counter matters here; check_flood may decay
// the windowed counters (that is its job) — the contract below speaks about the value handed to it
pub struct H2FloodDetector { pub empty_data_count: u32, pub verif_rest: DetectorRest }
#[verifier::external_body] pub struct DetectorRest { _p: () }
impl DetectorRest { pub uninterp spec fn spec_seen(&self) -> Seq<u32>; }
impl H2FloodDetector {
    // (a function of the rest of the detector, so that bumping the counter does not disturb it)
    pub open spec fn spec_seen_empty(&self) -> Seq<u32> { self.verif_rest.spec_seen() }
    // ghost log of the empty-DATA counter values check_flood was shown
    #[verifier::external_body]
    pub fn check_flood(&mut self) -> (r: Option<H2FloodViolation>)
        ensures final(self).spec_seen_empty() == old(self).spec_seen_empty().push(old(self).empty_data_count)
    { unimplemented!() }
}
pub struct ConnectionH2 { pub flood_detector: H2FloodDetector }
impl ConnectionH2 {
    #[verifier::external_body]
    pub fn handle_flood_violation(&mut self, v: H2FloodViolation) -> (r: MuxResult)
        ensures final(self).flood_detector == old(self).flood_detector
    { unimplemented!() }

    //@fn lib/src/protocol/mux/h2.rs ConnectionH2::handle_data_frame
    //@  rename handle_data_frame_flood_gate
    //@  ret r
    //@  sig "<E, L>" => ""
    //@  sig "data: parser::Data," => "data: Data,"
    //@  sig "context: &mut Context<L>,\n        mut endpoint: E," => ""
    //@  sig "where\n        E: Endpoint,\n        L: ListenerHandler + L7ListenerHandler," => ""
    //@  subst "check_flood_or_return!(self);" => "if let Some(violation) = self.flood_detector.check_flood() { return self.handle_flood_violation(violation); }"
    //@  cut "let Some(global_stream_id) = self.streams.get(&data.stream_id).copied() else {" .. "MuxResult::Continue\n    }" => ""
    //@  requires
    //@    old(self).flood_detector.empty_data_count < u32::MAX,
    //@  ensures
    //@    (data.payload.len == 0 && !data.end_stream) ==> final(self).flood_detector.spec_seen_empty()
    //@        == old(self).flood_detector.spec_seen_empty().push((old(self).flood_detector.empty_data_count + 1) as u32), // [an-empty-data-frame-is-counted-once-whatever-its-padding-before-the-flood-check]
    //@    !(data.payload.len == 0 && !data.end_stream) ==> final(self).flood_detector == old(self).flood_detector, // [a-frame-with-data-or-end-stream-is-not-counted]
    //@end
}

// kawa as seen by the emission region (external crate): the message's body framing, the storage head cursor and the
// block list as a ghost sequence
#[derive(PartialEq, Eq, Structural, Clone, Copy)]
pub enum KawaBodySize { Empty, Chunked, Length(usize) }
pub mod kawa {
    use super::*;
    pub use super::KawaBodySize as BodySize;
    pub enum Store { Slice(Slice), Vec(Vec<u8>) }
    impl Store { pub fn from_vec(v: Vec<u8>) -> (r: Store) ensures r == Store::Vec(v) { Store::Vec(v) } }
    pub struct ChunkHeader { pub length: Store }
    pub struct Chunk { pub data: Store }
    pub struct Flags { pub end_body: bool, pub end_chunk: bool, pub end_header: bool, pub end_stream: bool }
    pub enum Block { ChunkHeader(ChunkHeader), Chunk(Chunk), Flags(Flags) }
    pub struct Storage { pub head: usize }
    pub struct Kawa { pub body_size: BodySize, pub storage: Storage, pub blocks: Ghost<Seq<Block>> }
    impl Kawa {
        pub fn push_block(&mut self, b: Block)
            ensures final(self).blocks@ == old(self).blocks@.push(b), final(self).body_size == old(self).body_size, final(self).storage == old(self).storage,
        { proof { self.blocks@ = self.blocks@.push(b); } }
    }
}
pub uninterp spec fn spec_hex(n: usize) -> Seq<u8>;
// `{ let mut buf = Vec::with_capacity(16); let _ = write!(buf, "{content_len:x}"); buf }` (std formatting): the lower-case hex digits
#[verifier::external_body]
pub fn verif_hex(n: usize) -> (r: Vec<u8>) ensures r@ == spec_hex(n) { unimplemented!() }
pub open spec fn spec_sat_add(a: u32, b: u32) -> u32 { if a + b > u32::MAX { u32::MAX } else { (a + b) as u32 } }
// u32::saturating_add (std)
#[verifier::external_body]
pub fn verif_u32_saturating_add(a: u32, b: u32) -> (r: u32) ensures r == spec_sat_add(a, b) { unimplemented!() }

pub struct ConnectionH2Emit { pub verif_unit: () }
impl ConnectionH2Emit {
    //@fn lib/src/protocol/mux/h2.rs ConnectionH2::handle_data_frame
    //@  rename handle_data_frame_emit_blocks
    //@  sig "<E, L>" => ""
    //@  sig "data: parser::Data,\n        wire_payload_len: u32,\n        context: &mut Context<L>,\n        mut endpoint: E," => "kawa: &mut kawa::Kawa, mut slice: Slice, content_len: usize, wire_len: usize,"
    //@  sig "-> MuxResult\n    where\n        E: Endpoint,\n        L: ListenerHandler + L7ListenerHandler," => "-> MuxResult"
    //@  cut "@start" .. "slice.start = slice.start.saturating_add(kawa.storage.head as u32);" => "\n        if true {\n            "
    //@  subst "slice.start.saturating_add(kawa.storage.head as u32)" => "verif_u32_saturating_add(slice.start, kawa.storage.head as u32)"
    //@  resubst "\\{\\s*let mut buf = Vec::with_capacity\\(16\\);\\s*let _ = write!\\(buf, \"\\{content_len:x\\}\"\\);\\s*buf\\s*\\}" => "verif_hex(content_len)"
    //@  cut "if data.end_stream {\n                // RFC 9113 §8.1.1: on end_stream" .. "MuxResult::Continue\n    }" => "}\n"
    //@  requires
    //@    old(kawa).storage.head + wire_len <= usize::MAX,
    //@  ensures
    //@    final(kawa).storage.head == old(kawa).storage.head + wire_len && final(kawa).body_size == old(kawa).body_size, // [the-storage-cursor-skips-the-whole-wire-payload]
    //@    ({
    //@        let shifted = Slice { start: spec_sat_add(slice.start, old(kawa).storage.head as u32), len: slice.len };
    //@        let data_block = kawa::Block::Chunk(kawa::Chunk { data: kawa::Store::Slice(shifted) });
    //@        let framed = old(kawa).body_size == kawa::BodySize::Chunked && content_len > 0;
    //@        &&& framed ==> final(kawa).blocks@.len() == old(kawa).blocks@.len() + 3
    //@              && final(kawa).blocks@.subrange(0, old(kawa).blocks@.len() as int) =~= old(kawa).blocks@
    //@              && (final(kawa).blocks@[old(kawa).blocks@.len() as int] matches kawa::Block::ChunkHeader(h) && (h.length matches kawa::Store::Vec(v) && v@ == spec_hex(content_len)))
    //@              && final(kawa).blocks@[old(kawa).blocks@.len() as int + 1] == data_block
    //@              && (final(kawa).blocks@[old(kawa).blocks@.len() as int + 2] matches kawa::Block::Flags(f) && f.end_chunk && !f.end_body && !f.end_stream && !f.end_header)
    //@        &&& !framed ==> final(kawa).blocks@ == old(kawa).blocks@.push(data_block)
    //@    }),                                                                                         // [one-data-chunk-exactly-the-payload-framed-iff-chunked-and-non-empty]
    //@end
}


// (3) the stream-level receive-window credit (C14 "keeps transfers moving"): every flow-controlled octet of a DATA frame — the
// WIRE payload, pad-length octet and padding included (RFC 9113 §6.9.1) — is given back to the peer's stream window unless
// the frame ends the stream; crediting by the unpadded length, or skipping frames without data octets, starves an upload.
pub struct ConnectionH2Credit { pub verif_credits: Ghost<Seq<(u32, u32)>> }
impl ConnectionH2Credit {
    // ghost log of the (stream id, increment) pairs handed to queue_window_update (coalescing / arming is its business)
    pub fn queue_window_update(&mut self, stream_id: u32, increment: u32)
        ensures final(self).verif_credits@ == old(self).verif_credits@.push((stream_id, increment))
    { proof { self.verif_credits@ = self.verif_credits@.push((stream_id, increment)); } }

    //@fn lib/src/protocol/mux/h2.rs ConnectionH2::handle_data_frame
    //@  rename handle_data_frame_stream_credit
    //@  sig "<E, L>" => ""
    //@  sig "data: parser::Data,\n        wire_payload_len: u32,\n        context: &mut Context<L>,\n        mut endpoint: E," => "data: Data, wire_payload_len: u32, content_len: usize,"
    //@  sig "-> MuxResult\n    where\n        E: Endpoint,\n        L: ListenerHandler + L7ListenerHandler," => "-> MuxResult"
    //@  cut "@start" .. "if !data.end_stream" => "\n        "
    //@  cut "if !self.flow_control.pending_window_updates.is_empty() {\n            self.readiness.arm_writable();\n        }" .. "MuxResult::Continue\n    }" => ""
    //@  ensures
    //@    !data.end_stream ==> final(self).verif_credits@ == old(self).verif_credits@.push((data.stream_id, wire_payload_len)), // [every-wire-octet-of-a-data-frame-is-credited-back-to-the-stream-window]
    //@    data.end_stream ==> final(self).verif_credits@ == old(self).verif_credits@,                 // [a-frame-that-ends-the-stream-needs-no-stream-credit]
    //@end
}

} // verus!
fn main() {}
