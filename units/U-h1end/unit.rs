// Unit U-h1end — lib/src/protocol/mux/h1.rs: the `Position::Client(.., BackendStatus::Connected)` arm of
// ConnectionH1::end_stream (C02)
// Property sentence -> contract: "every request gets exactly one answer" and never another request's: when a stream ends on
// an HTTP/1.1 backend connection, that connection may be parked for reuse (KeepAlive) ONLY if the response it was carrying
// has been parsed to its end; a connection with an answer still owed / half received must be dropped, otherwise the next
// request sent on it is answered with the abandoned request's response.
// The arm is cut out of the real function as a function of the stream and of the status word (the `match &mut
// self.position` head, the other arms and the prologue are dropped). Hand-written: narrowed structs, shims.
use vstd::prelude::*;
verus! {

pub type GlobalStreamId = usize;
#[derive(PartialEq, Eq, Structural, Clone, Copy)]
pub enum StreamState { Idle, Link, Linked, Unlinked, Recycle }
pub enum BackendStatus { Connecting, Connected, KeepAlive, Disconnecting }
pub struct HttpContext { pub keep_alive_backend: bool }
// kawa::Kawa: the two predicates the decision may consult (independent facts about the response buffer)
#[verifier::external_body] pub struct Kawa { _p: () }
impl Kawa {
    pub uninterp spec fn spec_terminated(&self) -> bool;   // parsed to the end of the message
    pub uninterp spec fn spec_completed(&self) -> bool;    // nothing left in blocks / out (says nothing about the message end)
    #[verifier::external_body] pub fn is_terminated(&self) -> (r: bool) ensures r == self.spec_terminated() { unimplemented!() }
    #[verifier::external_body] pub fn is_completed(&self) -> (r: bool) ensures r == self.spec_completed() { unimplemented!() }
    // the other phase predicates of kawa: none of them says that the message was parsed to its end
    #[verifier::external_body] pub fn is_main_phase(&self) -> bool { unimplemented!() }
    #[verifier::external_body] pub fn is_initial(&self) -> bool { unimplemented!() }
    #[verifier::external_body] pub fn is_error(&self) -> bool { unimplemented!() }
}
pub struct Stream { pub state: StreamState, pub context: HttpContext, pub back: Kawa }
pub struct Ready { pub bits: u16 }
impl Ready {
    pub const ALL: Ready = Ready { bits: 0xffff };
    pub fn remove(&mut self, other: Ready) ensures final(self).bits == old(self).bits & !other.bits { self.bits = self.bits & !other.bits; }
}
pub struct Readiness { pub interest: Ready }
pub struct ConnectionH1 { pub stream: Option<GlobalStreamId>, pub readiness: Readiness, pub verif_disconnected: Ghost<bool> }
impl ConnectionH1 {
    // closes the backend socket for good (outside this unit)
    pub fn force_disconnect(&mut self)
        ensures final(self).verif_disconnected@, final(self).stream == old(self).stream, final(self).readiness == old(self).readiness
    { proof { self.verif_disconnected@ = true; } }

    //@fn lib/src/protocol/mux/h1.rs ConnectionH1::end_stream
    //@  rename end_stream_connected_backend_arm
    //@  sig "end_stream<L>(&mut self, stream: GlobalStreamId, context: &mut Context<L>)" => "end_stream(&mut self, stream: &mut Stream, status: &mut BackendStatus)"
    //@  sig "where\n        L: ListenerHandler + L7ListenerHandler," => ""
    //@  cut "@start" .. "self.stream = None;\n                if stream.state != StreamState::Recycle {\n                    stream.state = StreamState::Unlinked;\n                }\n                debug_assert!(\n                    self.stream.is_none(),\n                    \"client end_stream must detach the stream\"\n                );\n                debug_assert!(\n                    !matches!(stream.state, StreamState::Linked(_)),\n                    \"detached stream must not remain Linked\"\n                );\n                self.readiness.interest.remove(Ready::ALL);\n                // keep alive" => "\n        let stream_context = &stream.context;\n        if true {\n                "
    //@  cut "Position::Client(_, _, BackendStatus::KeepAlive)\n            | Position::Client(_, _, BackendStatus::Disconnecting) => {" .. "\n    }" => ""
    //@  optsubst "StreamState::Linked(_)" => "StreamState::Linked"
    //@  requires
    //@    !old(self).verif_disconnected@,
    //@    *old(status) matches BackendStatus::Connected,      // the arm's own pattern
    //@  ensures
    //@    (*final(status) matches BackendStatus::KeepAlive) ==> old(stream).context.keep_alive_backend && old(stream).back.spec_terminated(), // [a-backend-connection-is-parked-for-reuse-only-after-a-response-parsed-to-its-end]
    //@    !((*final(status) matches BackendStatus::KeepAlive)) ==> final(self).verif_disconnected@,                               // [otherwise-the-backend-connection-is-dropped]
    //@    final(self).stream is None && final(stream).state != StreamState::Linked,                         // [the-stream-is-detached]
    //@end
}

} // verus!
fn main() {}
