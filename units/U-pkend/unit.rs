// Unit U-pkend — lib/src/protocol/mux/pkawa.rs: the end of handle_header_of, where the framing and the parsing phase of a
// message received on an HTTP/2 HEADERS frame are decided (C02, C03)
// Property sentences -> contract:
//   C02 "every request ... is answered exactly once": a message whose HEADERS frame carries END_STREAM is COMPLETE: it is
//       left Terminated whatever length it declares (F30: 204 / 304 / 1xx answers stayed "in their body" for ever), an
//       interim response (1xx, the final one follows on the same stream) is a header section and nothing else (F31), and
//       an answer to HEAD may declare a length without being refused (F29);
//   C03 "Content-Length disagreeing with DATA ... is rejected": END_STREAM on HEADERS with a non-zero Content-Length is
//       refused unless the message is one that has no content by definition (1xx, 204, 304, answer to HEAD);
//       a message whose body follows always has a framing an HTTP/1.1 peer can read (a length, or chunked).
// The region is cut out of the real function: from the END_STREAM block to the end (header decoding and validation
// before it are dropped). Hand-written: kawa narrowed to the four fields the region touches; the three push_block
// calls are replaced by shims that log which block was pushed (printed R6 substitutions).
use vstd::prelude::*;
verus! {

#[derive(PartialEq, Eq, Structural, Clone, Copy)] pub enum Kind { Request, Response }
#[derive(PartialEq, Eq, Structural, Clone, Copy)] pub enum BodySize { Empty, Chunked, Length(usize) }
#[derive(PartialEq, Eq, Structural, Clone, Copy)] pub enum ParsingPhase { Headers, Body, Chunks { first: bool }, Terminated }
pub enum StatusLine { Unknown, Request, Response { code: u16 } }
pub enum H2Error { ProtocolError }
pub struct Detached { pub status_line: StatusLine }
pub enum Pushed { ContentLengthZero, TransferEncodingChunked, Flags { end_body: bool, end_header: bool, end_stream: bool } }
pub struct Kawa { pub kind: Kind, pub body_size: BodySize, pub parsing_phase: ParsingPhase, pub detached: Detached, pub verif_pushed: Ghost<Seq<Pushed>> }
impl Kawa {
    pub fn verif_push_content_length_zero(&mut self)
        ensures final(self).verif_pushed@ == old(self).verif_pushed@.push(Pushed::ContentLengthZero), final(self).kind == old(self).kind, final(self).body_size == old(self).body_size, final(self).parsing_phase == old(self).parsing_phase, final(self).detached == old(self).detached
    { proof { self.verif_pushed@ = self.verif_pushed@.push(Pushed::ContentLengthZero); } }
    pub fn verif_push_transfer_encoding_chunked(&mut self)
        ensures final(self).verif_pushed@ == old(self).verif_pushed@.push(Pushed::TransferEncodingChunked), final(self).kind == old(self).kind, final(self).body_size == old(self).body_size, final(self).parsing_phase == old(self).parsing_phase, final(self).detached == old(self).detached
    { proof { self.verif_pushed@ = self.verif_pushed@.push(Pushed::TransferEncodingChunked); } }
    pub fn verif_push_flags(&mut self, end_body: bool, end_header: bool, end_stream: bool)
        ensures final(self).verif_pushed@ == old(self).verif_pushed@.push(Pushed::Flags { end_body, end_header, end_stream }), final(self).kind == old(self).kind, final(self).body_size == old(self).body_size, final(self).parsing_phase == old(self).parsing_phase, final(self).detached == old(self).detached
    { proof { self.verif_pushed@ = self.verif_pushed@.push(Pushed::Flags { end_body, end_header, end_stream }); } }
}
// an interim response (1xx): a header section and nothing else, the final response follows on the same stream
pub open spec fn spec_interim(k: Kawa) -> bool {
    k.kind == Kind::Response && (k.detached.status_line matches StatusLine::Response { code } && 100 <= code && code < 200)
}
// a message that has no content by definition
pub open spec fn spec_no_content(k: Kawa, head_response: bool) -> bool {
    k.kind == Kind::Response && (head_response || (k.detached.status_line matches StatusLine::Response { code } && ((100 <= code && code < 200) || code == 204 || code == 304)))
}

//@fn lib/src/protocol/mux/pkawa.rs handle_header_of
//@  rename handle_header_of_end_region
//@  ret r
//@  sig "<C>" => ""
//@  sig "decoder: &mut loona_hpack::Decoder<'static>,\n    prioriser: &mut Prioriser,\n    stream_id: StreamId,\n    kawa: &mut GenericHttpStream,\n    input: &[u8],\n    end_stream: bool,\n    callbacks: &mut C,\n    max_header_list_size: u32,\n    max_header_fields: u32,\n    elide_x_real_ip: bool,\n    head_response: bool," => "kawa: &mut Kawa,\n    end_stream: bool,\n    head_response: bool,"
//@  sig "where\n    C: ParserCallbacks<Checkout>," => ""
//@  cut "@start" .. "if end_stream {\n        // RFC 9113 §8.1.1: when END_STREAM is set on HEADERS" => "\n    "
//@  substall "StatusLine::Response { code, .. } if (100..200).contains(&code) || code == 204 || code == 304" => "StatusLine::Response { code } if (100 <= code && code < 200) || code == 204 || code == 304"
//@  optsubst "StatusLine::Response { code, .. } if (100..200).contains(&code)\n" => "StatusLine::Response { code } if (100 <= code && code < 200)\n"
//@  resubst "kawa\\.push_block\\(Block::Header\\(Pair \\{\\s*key: Store::Static\\(b\"Content-Length\"\\),\\s*val: Store::Static\\(b\"0\"\\),\\s*\\}\\)\\);" => "kawa.verif_push_content_length_zero();"
//@  resubst "kawa\\.push_block\\(Block::Header\\(Pair \\{\\s*key: Store::Static\\(b\"Transfer-Encoding\"\\),\\s*val: Store::Static\\(b\"chunked\"\\),\\s*\\}\\)\\);" => "kawa.verif_push_transfer_encoding_chunked();"
//@  resubst "kawa\\.push_block\\(Block::Flags\\(Flags \\{\\s*end_body: end_stream,\\s*end_chunk: false,\\s*end_header: true,\\s*end_stream,\\s*\\}\\)\\);" => "kawa.verif_push_flags(end_stream, true, end_stream);"
//@  requires
//@    old(kawa).parsing_phase == ParsingPhase::Headers,       // the header block has just been decoded
//@  ensures
//@    (r is Ok && end_stream) ==> final(kawa).parsing_phase == ParsingPhase::Terminated,              // [a-message-that-ends-on-its-headers-frame-is-terminated-whatever-length-it-declares]
//@    (end_stream && (old(kawa).body_size matches BodySize::Length(n) && n > 0) && !spec_no_content(*old(kawa), head_response)) ==> r is Err, // [end-stream-with-a-non-zero-content-length-is-refused-unless-the-message-has-no-content-by-definition]
//@    (end_stream && spec_no_content(*old(kawa), head_response)) ==> r is Ok,                          // [an-answer-without-content-by-definition-is-accepted-whatever-length-it-declares]
//@    (r is Ok && !end_stream && !spec_interim(*old(kawa))) ==> final(kawa).body_size != BodySize::Empty, // [a-message-whose-body-follows-has-a-length-or-is-chunked]
//@    (!end_stream && spec_interim(*old(kawa))) ==> r is Ok && final(kawa).parsing_phase == ParsingPhase::Terminated && final(kawa).body_size == old(kawa).body_size
//@        && final(kawa).verif_pushed@ =~= old(kawa).verif_pushed@.push(Pushed::Flags { end_body: false, end_header: true, end_stream: false }), // [an-interim-response-is-a-header-section-and-nothing-else-complete-at-once-with-no-framing-header]
//@    (r is Ok && !end_stream && !spec_interim(*old(kawa))) ==> (final(kawa).parsing_phase == (match final(kawa).body_size { BodySize::Chunked => ParsingPhase::Chunks { first: true }, BodySize::Length(n) => if n == 0 { ParsingPhase::Terminated } else { ParsingPhase::Body }, BodySize::Empty => ParsingPhase::Chunks { first: true } })), // [the-parsing-phase-of-a-continuing-message-follows-its-framing]
//@    r is Ok ==> final(kawa).verif_pushed@.len() > 0 && final(kawa).verif_pushed@.last() == (Pushed::Flags { end_body: end_stream, end_header: true, end_stream }), // [the-header-section-is-closed-by-a-flags-block-that-carries-end-stream]
//@    (old(kawa).body_size matches BodySize::Length(_)) ==> final(kawa).body_size == old(kawa).body_size, // [a-declared-length-is-never-rewritten]
//@end

} // verus!
fn main() {}
