#!/bin/sh
# setup: nothing to build for the Verus engine (python3 stdlib + verus on PATH). Creates scratch/cache dirs.
set -e
mkdir -p /var/tmp/sozu-verif /verif/evidence /verif/out /verif/replay
command -v verus >/dev/null || { echo "verus not on PATH"; exit 1; }
echo setup ok
