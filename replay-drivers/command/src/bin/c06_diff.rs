//! Bounded stand-in for C06 (unit N-diff): native enumeration on the REAL ConfigState.
//! Builds every state reachable by <= DEPTH dispatched requests over a small universe, then for every ordered
//! pair (A, B) of distinct reachable states checks   apply(diff(A, B), A) == B   (every request of the diff must be
//! accepted; empty buckets are normalised away; request_counts ignored) and diff(A, A) == [].
//! usage: c06_diff <quick|thorough> [seed]
//! prints one JSON object {"bound":…, "states":…, "pairs":…, "failures":[{input, observed}], "distinct_failure_shapes":…}
use std::collections::{BTreeMap, HashSet};

use sozu_command_lib::{
    proto::command::{
        request::RequestType, AddBackend, Cluster, HttpListenerConfig, ListenerType, PathRule, RemoveBackend,
        RemoveListener, Request, RequestHttpFrontend, RulePosition, SocketAddress, TcpListenerConfig,
        ActivateListener,
    },
    state::ConfigState,
};

fn universe(thorough: bool) -> Vec<Request> {
    let mut u: Vec<Request> = vec![];
    let l_http = SocketAddress::new_v4(127, 0, 0, 1, 8080);
    let l_tcp = SocketAddress::new_v4(127, 0, 0, 1, 5000);
    u.push(RequestType::AddHttpListener(HttpListenerConfig { address: l_http, sticky_name: "S".into(), front_timeout: 60, back_timeout: 30, connect_timeout: 3, request_timeout: 10, ..Default::default() }).into());
    u.push(RequestType::AddTcpListener(TcpListenerConfig { address: l_tcp, front_timeout: 60, back_timeout: 30, connect_timeout: 3, ..Default::default() }).into());
    u.push(RequestType::ActivateListener(ActivateListener { address: l_http, proxy: ListenerType::Http.into(), from_scm: false }).into());
    u.push(RequestType::RemoveListener(RemoveListener { address: l_tcp, proxy: ListenerType::Tcp.into() }).into());
    for c in ["c1", "c2"] {
        u.push(RequestType::AddCluster(Cluster { cluster_id: c.into(), ..Default::default() }).into());
        u.push(RequestType::AddCluster(Cluster { cluster_id: c.into(), sticky_session: true, ..Default::default() }).into());
        u.push(RequestType::RemoveCluster(c.into()).into());
    }
    let addrs: Vec<SocketAddress> = if thorough { vec![SocketAddress::new_v4(10, 0, 0, 1, 1001), SocketAddress::new_v4(10, 0, 0, 1, 1002), SocketAddress::new_v4(10, 0, 0, 2, 1001)] }
                                    else { vec![SocketAddress::new_v4(10, 0, 0, 1, 1001), SocketAddress::new_v4(10, 0, 0, 1, 1002)] };
    for c in ["c1", "c2"] {
        for b in ["b1", "b2"] {
            for a in &addrs {
                u.push(RequestType::AddBackend(AddBackend { cluster_id: c.into(), backend_id: b.into(), address: *a, ..Default::default() }).into());
                if c == "c1" { u.push(RequestType::RemoveBackend(RemoveBackend { cluster_id: c.into(), backend_id: b.into(), address: *a }).into()); }
            }
        }
    }
    for (c, host, path) in [("c1", "a.example", "/"), ("c2", "a.example", "/api"), ("c1", "b.example", "/")] {
        let f = RequestHttpFrontend { cluster_id: Some(c.into()), address: l_http, hostname: host.into(), path: PathRule::prefix(path.to_string()), position: RulePosition::Tree.into(), ..Default::default() };
        u.push(RequestType::AddHttpFrontend(f.clone()).into());
        u.push(RequestType::RemoveHttpFrontend(f).into());
    }
    u
}

// second universe: frontends that share a route key (listener, host, path) and differ only in non-key fields
// (cluster, tags), on an HTTP and an HTTPS listener
fn universe_fronts() -> Vec<Request> {
    let mut u: Vec<Request> = vec![];
    let l_http = SocketAddress::new_v4(127, 0, 0, 1, 8080);
    let l_https = SocketAddress::new_v4(127, 0, 0, 1, 8443);
    u.push(RequestType::AddHttpListener(HttpListenerConfig { address: l_http, sticky_name: "S".into(), front_timeout: 60, back_timeout: 30, connect_timeout: 3, request_timeout: 10, ..Default::default() }).into());
    if let Ok(cfg) = sozu_command_lib::config::ListenerBuilder::new_https(l_https).to_tls(None) {
        u.push(RequestType::AddHttpsListener(cfg).into());
    }
    for c in ["c1", "c2"] {
        u.push(RequestType::AddCluster(Cluster { cluster_id: c.into(), ..Default::default() }).into());
    }
    let mut tags = BTreeMap::new();
    tags.insert("owner".to_string(), "team-a".to_string());
    for (c, host, path, tagged) in [("c1", "a.example", "/", false), ("c2", "a.example", "/", false), ("c1", "a.example", "/", true), ("c1", "b.example", "/", false)] {
        let f = RequestHttpFrontend { cluster_id: Some(c.into()), address: l_http, hostname: host.into(), path: PathRule::prefix(path.to_string()), position: RulePosition::Tree.into(),
                                      tags: if tagged { tags.clone() } else { BTreeMap::new() }, ..Default::default() };
        u.push(RequestType::AddHttpFrontend(f.clone()).into());
        u.push(RequestType::RemoveHttpFrontend(f.clone()).into());
        if !tagged || c == "c1" {
            let g = RequestHttpFrontend { address: l_https, ..f };
            u.push(RequestType::AddHttpsFrontend(g.clone()).into());
            u.push(RequestType::RemoveHttpsFrontend(g).into());
        }
    }
    u
}

fn normalise(mut s: ConfigState) -> ConfigState {
    // request_counts is a census of received requests, not configuration
    s.request_counts.clear();
    s
}

fn describe(s: &ConfigState) -> String {
    let b: BTreeMap<_, Vec<String>> = s.backends.iter().map(|(c, v)| (c.clone(), v.iter().map(|b| format!("{}@{}", b.backend_id, b.address)).collect())).collect();
    format!("clusters={:?} backends={:?} http_listeners={} tcp_listeners={} http_fronts={:?}", s.clusters.keys().collect::<Vec<_>>(), b,
            s.http_listeners.values().map(|l| format!("{}(active={})", l.address, l.active)).collect::<Vec<_>>().join(","), s.tcp_listeners.len(),
            s.http_fronts.iter().map(|(k, f)| format!("{k}->{:?}{}", f.cluster_id, if f.tags.is_some() { "+tags" } else { "" })).chain(s.https_fronts.iter().map(|(k, f)| format!("tls:{k}->{:?}", f.cluster_id))).collect::<Vec<_>>())
}

fn explore(u: &[Request], depth: usize, cap: usize, states_total: &mut usize, pairs: &mut u64, nontrivial: &mut u64, failures: &mut Vec<(String, String)>, shapes: &mut HashSet<String>) {
    // breadth-first reachable states (distinct after normalisation)
    let mut states: Vec<ConfigState> = vec![ConfigState::new()];
    let mut seen: HashSet<String> = HashSet::new();
    seen.insert(format!("{:?}", normalise(ConfigState::new())));
    let mut frontier = vec![0usize];
    for _ in 0..depth {
        let mut next = vec![];
        for &i in &frontier {
            for r in u {
                if states.len() >= cap { break; }
                let mut s = states[i].clone();
                if s.dispatch(r).is_ok() {
                    let key = format!("{:?}", normalise(s.clone()));
                    if seen.insert(key) { states.push(s); next.push(states.len() - 1); }
                }
            }
        }
        frontier = next;
    }
    *states_total += states.len();
    for (i, sa) in states.iter().enumerate() {
        if !sa.diff(sa).is_empty() && shapes.insert("diff(A,A) not empty".into()) {
            failures.push((format!("A = {}", describe(sa)), format!("diff(A, A) has {} requests", sa.diff(sa).len())));
        }
        for (j, sb) in states.iter().enumerate() {
            if i == j { continue; }
            *pairs += 1;
            let d = sa.diff(sb);
            if d.len() >= 2 { *nontrivial += 1; }
            let mut s = sa.clone();
            let mut rejected = None;
            for r in &d {
                if let Err(e) = s.dispatch(r) { rejected = Some(format!("{e}")); break; }
            }
            let ok = rejected.is_none() && normalise(s.clone()) == normalise(sb.clone());
            if !ok {
                // shape = which maps differ (keeps the report small; distinct shapes are reported once)
                let n = normalise(s.clone()); let t = normalise(sb.clone());
                let shape = format!("rejected={} clusters={} backends={} listeners={} fronts={}", rejected.is_some(), n.clusters != t.clusters, n.backends != t.backends,
                                    n.http_listeners != t.http_listeners || n.tcp_listeners != t.tcp_listeners || n.https_listeners != t.https_listeners,
                                    n.http_fronts != t.http_fronts || n.https_fronts != t.https_fronts);
                if shapes.insert(shape.clone()) {
                    failures.push((format!("A = [{}]  B = [{}]  diff = {} requests", describe(sa), describe(sb), d.len()),
                                   format!("{shape}; replay of diff(A,B) on A gives [{}]{}", describe(&s), rejected.map(|e| format!("; a diff request was rejected: {e}")).unwrap_or_default())));
                }
            }
        }
    }
}

// third universe: the fields of ONE cluster (an AddCluster is an upsert: the diff relies on it replacing every field),
// health checks set inline and by SetHealthCheck / RemoveHealthCheck, a backend whose ranking fields change
fn universe_cluster_fields() -> Vec<Request> {
    use sozu_command_lib::proto::command::{HealthCheckConfig, SetHealthCheck};
    let hc = |uri: &str| HealthCheckConfig { uri: uri.into(), interval: 10, timeout: 5, healthy_threshold: 2, unhealthy_threshold: 3, expected_status: 200 };
    let a0 = SocketAddress::new_v4(10, 0, 0, 1, 1001);
    let a1 = SocketAddress::new_v4(10, 0, 0, 1, 1002);
    vec![
        RequestType::AddCluster(Cluster { cluster_id: "c1".into(), ..Default::default() }).into(),
        RequestType::AddCluster(Cluster { cluster_id: "c1".into(), sticky_session: true, ..Default::default() }).into(),
        RequestType::AddCluster(Cluster { cluster_id: "c1".into(), health_check: Some(hc("/health")), ..Default::default() }).into(),
        RequestType::AddCluster(Cluster { cluster_id: "c1".into(), health_check: Some(hc("/ready")), https_redirect: true, ..Default::default() }).into(),
        RequestType::SetHealthCheck(SetHealthCheck { cluster_id: "c1".into(), config: hc("/set") }).into(),
        RequestType::RemoveHealthCheck("c1".into()).into(),
        RequestType::RemoveCluster("c1".into()).into(),
        RequestType::AddBackend(AddBackend { cluster_id: "c1".into(), backend_id: "b1".into(), address: a0, sticky_id: Some("a".into()), ..Default::default() }).into(),
        RequestType::AddBackend(AddBackend { cluster_id: "c1".into(), backend_id: "b1".into(), address: a1, sticky_id: Some("m".into()), ..Default::default() }).into(),
        RequestType::AddBackend(AddBackend { cluster_id: "c1".into(), backend_id: "b1".into(), address: a0, sticky_id: Some("z".into()), ..Default::default() }).into(),
    ]
}

fn main() {
    let a: Vec<String> = std::env::args().collect();
    let thorough = a.get(1).map(|s| s == "thorough").unwrap_or(false);
    let depth = if thorough { 4 } else { 3 };
    let cap = if thorough { 1500 } else { 400 };
    let u = universe(thorough);
    let u2 = universe_fronts();
    let (mut states, mut pairs, mut nontrivial) = (0usize, 0u64, 0u64);
    let mut failures: Vec<(String, String)> = vec![];
    let mut shapes: HashSet<String> = HashSet::new();
    explore(&u, depth, cap, &mut states, &mut pairs, &mut nontrivial, &mut failures, &mut shapes);
    explore(&u2, depth + 2, cap, &mut states, &mut pairs, &mut nontrivial, &mut failures, &mut shapes);
    explore(&universe_cluster_fields(), 3, cap, &mut states, &mut pairs, &mut nontrivial, &mut failures, &mut shapes);
    let fjson: Vec<String> = failures.iter().map(|(i, o)| format!("{{\"input\": {i:?}, \"observed\": {o:?}}}")).collect();
    println!("{{\"bound\": \"three universes (the third: the fields of one cluster, health checks, backend upserts; <= 3 requests), each explored breadth-first and capped at {cap} distinct states: (1) states reachable by <= {depth} dispatched requests over {} request templates (2 clusters, 2 backend ids x {} addresses, 3 http frontends, 2 listeners); (2) states reachable by <= {} requests over {} templates (HTTP + HTTPS listener, 2 clusters, frontends sharing a route key and differing only in cluster or tags)\", \"states\": {states}, \"pairs\": {pairs}, \"nontrivial_pairs\": {nontrivial}, \"failures\": [{}]}}",
             u.len(), if thorough { 3 } else { 2 }, depth + 2, u2.len(), fjson.join(", "));
}
