//! Replay driver for C20 (unit U-cfgmsg): the REAL Config::generate_config_messages on a configuration
//! with N listeners; required: one message per declared object, ids pairwise distinct (they key the
//! main process's in-flight map). usage: c20_cfgmsg many-listeners
use std::collections::HashSet;

use sozu_command_lib::{
    config::Config,
    proto::command::{SocketAddress, TcpListenerConfig},
};

fn main() {
    for n in [10usize, 255, 256, 257, 300, 1000] {
        let mut config = Config::default();
        config.activate_listeners = false;
        for i in 0..n {
            config.tcp_listeners.push(TcpListenerConfig {
                address: SocketAddress::new_v4(127, 0, (i / 250) as u8, (i % 250) as u8 + 1, 9000),
                ..Default::default()
            });
        }
        let r = std::panic::catch_unwind(|| config.generate_config_messages());
        let input = format!("Config with {n} TCP listeners, activate_listeners = false");
        match r {
            Err(_) => {
                println!("{{\"found\": true, \"scenario\": \"many-listeners\", \"input\": {input:?}, \"observed\": \"generate_config_messages panicked (arithmetic overflow)\", \"required\": \"a command list for any number of entries\"}}");
                return;
            }
            Ok(Err(e)) => {
                println!("{{\"found\": true, \"scenario\": \"many-listeners\", \"input\": {input:?}, \"observed\": \"error: {e}\", \"required\": \"a command list for any number of entries\"}}");
                return;
            }
            Ok(Ok(v)) => {
                let ids: HashSet<&str> = v.iter().map(|m| m.id.as_str()).collect();
                if v.len() != n || ids.len() != v.len() {
                    let observed = format!("{} messages, {} distinct ids (message #256 has id {})", v.len(), ids.len(), v.get(256).map(|m| m.id.clone()).unwrap_or_default());
                    let required = format!("{n} messages with pairwise distinct ids");
                    println!("{{\"found\": true, \"scenario\": \"many-listeners\", \"input\": {input:?}, \"observed\": {observed:?}, \"required\": {required:?}}}");
                    return;
                }
            }
        }
    }
    println!("{{\"found\": false, \"scenario\": \"many-listeners\", \"input\": \"\", \"observed\": \"\", \"required\": \"\"}}");
}
