//! Bounded native enumeration for C20 (unit N-toml): the REAL TOML -> FileConfig -> Config (ConfigBuilder) ->
//! generate_config_messages -> ConfigState::dispatch chain. usage: c20_toml [quick|thorough]
//! Generates a family of small configuration files: 0..=2 declared listeners (http / https / tcp) x clusters (1..=3)
//! of protocol http or tcp x 1..=3 frontends per cluster, each on a declared or an UNDECLARED address, possibly the
//! same address as another frontend of the same or of another cluster x 1..=2 backends. For every file that loads:
//!   - no two listeners of the built Config share an address ("means exactly what it declares": one listener per address);
//!   - every generated command is accepted by an empty ConfigState, in order;
//!   - the resulting state holds exactly the declared clusters, one frontend per declared frontend, one backend per
//!     declared backend, and a listener for every address a frontend uses.
//! Constraint-violating neighbours (a listener with an unknown protocol; buffer_size 8192 with certificate-bearing frontends,
//! i.e. HTTPS listeners advertising h2, declared or implicit) must be refused at load time.
use std::collections::{BTreeSet, HashSet};

use sozu_command_lib::{config::Config, state::ConfigState};

#[derive(Clone, Debug)]
struct Front { addr: &'static str, host: &'static str, path: &'static str }
#[derive(Clone, Debug)]
struct Cluster { name: String, tcp: bool, fronts: Vec<Front>, backends: usize }

fn toml(listeners: &[(&str, &str)], clusters: &[Cluster], buffer_size: usize, tls: bool) -> String {
    let mut s = format!("command_socket = \"/tmp/verif-c20.sock\"\nworker_count = 1\nmax_connections = 100\nbuffer_size = {buffer_size}\ncommand_buffer_size = 16384\nmax_command_buffer_size = 163840\nlog_level = \"error\"\nlog_target = \"stdout\"\n\n");
    for (addr, proto) in listeners { s += &format!("[[listeners]]\naddress = \"{addr}\"\nprotocol = \"{proto}\"\n\n"); }
    s += "[clusters]\n";
    for c in clusters {
        s += &format!("[clusters.{}]\nprotocol = \"{}\"\nfrontends = [\n", c.name, if c.tcp { "tcp" } else { "http" });
        for f in &c.fronts {
            if c.tcp { s += &format!("  {{ address = \"{}\" }},\n", f.addr); }
            else if tls { s += &format!("  {{ address = \"{}\", hostname = \"{}\", path = \"{}\", certificate = \"/repo/lib/assets/certificate.pem\", key = \"/repo/lib/assets/key.pem\", certificate_chain = \"/repo/lib/assets/certificate_chain.pem\" }},\n", f.addr, f.host, f.path); }
            else { s += &format!("  {{ address = \"{}\", hostname = \"{}\", path = \"{}\" }},\n", f.addr, f.host, f.path); }
        }
        s += "]\nbackends = [\n";
        for b in 0..c.backends { s += &format!("  {{ address = \"127.0.0.1:{}\" }},\n", 9000 + b); }
        s += "]\n\n";
    }
    s
}

fn check(listeners: &[(&str, &str)], clusters: &[Cluster], buffer_size: usize, tls: bool) -> Result<bool, (String, String)> {
    let text = toml(listeners, clusters, buffer_size, tls);
    let path = std::env::temp_dir().join(format!("verif-c20-{}.toml", std::process::id()));
    std::fs::write(&path, &text).map_err(|e| (text.clone(), format!("cannot write temp file: {e}")))?;
    let loaded = Config::load_from_path(path.to_str().unwrap());
    let _ = std::fs::remove_file(&path);
    let config = match loaded { Ok(c) => c, Err(_) => return Ok(false) };   // a refused file produces nothing
    // documented constraints: a file that violates one must have been refused
    if listeners.iter().any(|l| !["http", "https", "tcp", "udp"].contains(&l.1)) { return Err((text, "a listener with an unknown protocol was accepted".to_string())); }
    let h2: Vec<String> = config.https_listeners.iter().filter(|l| l.alpn_protocols.iter().any(|p| p == "h2")).map(|l| format!("{:?}", l.address)).collect();
    if !h2.is_empty() && (config.buffer_size as usize) < 16393 { return Err((text, format!("the loader accepted the file: buffer_size = {} with HTTP/2 advertised on listeners {h2:?} (documented minimum 16393: the H2 mux cannot hold a full frame)", config.buffer_size))); }
    // one listener per address
    let mut seen = HashSet::new();
    let all: Vec<String> = config.http_listeners.iter().map(|l| format!("{:?}", l.address)).chain(config.https_listeners.iter().map(|l| format!("{:?}", l.address)))
        .chain(config.tcp_listeners.iter().map(|l| format!("{:?}", l.address))).collect();
    for a in &all { if !seen.insert(a.clone()) { return Err((text, format!("the loaded Config has two listeners on {a} ({} listeners in all)", all.len()))); } }
    let msgs = config.generate_config_messages().map_err(|e| (text.clone(), format!("generate_config_messages failed: {e}")))?;
    let mut st = ConfigState::new();
    for m in &msgs { if let Err(e) = st.dispatch(&m.content) { return Err((text, format!("command {} of the generated configuration is rejected by an empty state: {e}", m.id))); } }
    let want_clusters: BTreeSet<String> = clusters.iter().map(|c| c.name.clone()).collect();
    let got_clusters: BTreeSet<String> = st.clusters.keys().cloned().collect();
    if want_clusters != got_clusters { return Err((text, format!("declared clusters {want_clusters:?}, loaded {got_clusters:?}"))); }
    let want_fronts: usize = clusters.iter().map(|c| c.fronts.len()).sum();
    let got_fronts = st.http_fronts.len() + st.https_fronts.len() + st.tcp_fronts.values().map(|v| v.len()).sum::<usize>();
    if want_fronts != got_fronts { return Err((text, format!("{want_fronts} frontends declared, {got_fronts} loaded"))); }
    let want_backends: usize = clusters.iter().map(|c| c.backends).sum();
    let got_backends: usize = st.backends.values().map(|v| v.len()).sum();
    if want_backends != got_backends { return Err((text, format!("{want_backends} backends declared, {got_backends} loaded"))); }
    let used: BTreeSet<&str> = clusters.iter().flat_map(|c| c.fronts.iter().map(|f| f.addr)).collect();
    let n_listeners = st.http_listeners.len() + st.https_listeners.len() + st.tcp_listeners.len();
    let declared: BTreeSet<&str> = listeners.iter().map(|l| l.0).collect();
    let want_listeners = used.union(&declared).count();
    if n_listeners != want_listeners { return Err((text, format!("{want_listeners} distinct listener addresses declared or used, {n_listeners} listeners loaded"))); }
    Ok(true)
}

fn main() {
    let thorough = std::env::args().nth(1).map(|s| s == "thorough").unwrap_or(false);
    let addrs = ["127.0.0.1:8080", "127.0.0.1:8081", "127.0.0.1:8082"];
    let hosts = ["a.example", "b.example"];
    let listener_sets: Vec<Vec<(&str, &str)>> = vec![vec![], vec![("127.0.0.1:8080", "http")], vec![("127.0.0.1:8080", "http"), ("127.0.0.1:8082", "tcp")], vec![("127.0.0.1:8443", "https")], vec![("127.0.0.1:8083", "bogus")]];
    // frontends of one cluster: every non-empty list of up to `maxf` (addr, host) pairs, paths distinguish same host
    let maxf = if thorough { 3 } else { 2 };
    let mut front_lists: Vec<Vec<Front>> = vec![];
    let singles: Vec<Front> = addrs.iter().flat_map(|a| hosts.iter().map(move |h| Front { addr: a, host: h, path: "/" })).collect();
    for f in &singles { front_lists.push(vec![f.clone()]); }
    for f in &singles { for g in &singles { let mut g2 = g.clone(); if g2.addr == f.addr && g2.host == f.host { g2.path = "/b"; } front_lists.push(vec![f.clone(), g2]); } }
    if maxf >= 3 { for f in &singles { for g in &singles { let mut g2 = g.clone(); g2.path = "/b"; let mut h2 = f.clone(); h2.path = "/c"; front_lists.push(vec![f.clone(), g2, h2]); } } }
    let (mut files, mut loaded) = (0u64, 0u64);
    let mut failures: Vec<(String, String)> = vec![];
    let mut shapes: HashSet<String> = HashSet::new();
    'outer: for ls in &listener_sets {
        for tcp1 in [false, true] {
            for fl1 in &front_lists {
                // one cluster, and two clusters sharing / not sharing addresses
                // a TCP frontend is identified by its address alone: the same address twice in one TCP cluster is the same
                // frontend declared twice, which is not a configuration this check is about
                if tcp1 && fl1.len() > fl1.iter().map(|f| f.addr).collect::<BTreeSet<_>>().len() { continue; }
                let c1 = Cluster { name: "c1".into(), tcp: tcp1, fronts: fl1.clone(), backends: 1 + (fl1.len() % 2) };
                let mut variants: Vec<Vec<Cluster>> = vec![vec![c1.clone()]];
                for fl2 in front_lists.iter().step_by(if thorough { 3 } else { 7 }) {
                    let mut fl2 = fl2.clone();
                    let paths = ["/p0", "/p1", "/p2"];
                    for (k, f) in fl2.iter_mut().enumerate() { f.host = "z.example"; f.path = paths[k]; }
                    if tcp1 && (fl2.len() > fl2.iter().map(|f| f.addr).collect::<BTreeSet<_>>().len() || fl2.iter().any(|f| fl1.iter().any(|g| g.addr == f.addr))) { continue; }
                    variants.push(vec![c1.clone(), Cluster { name: "c2".into(), tcp: tcp1, fronts: fl2, backends: 1 }]);
                }
                for cs in variants {
                    files += 1;
                    for (buffer_size, tls) in [(16393usize, false), (16393, true), (8192, true), (8192, false)] {
                    if (buffer_size != 16393 || tls) && (cs.len() > 1 || tcp1) { continue; }
                    match check(ls, &cs, buffer_size, tls) {
                        Ok(true) => loaded += 1,
                        Ok(false) => {}
                        Err((text, obs)) => {
                            let shape = obs.split(|c: char| c.is_ascii_digit()).next().unwrap_or("").to_string();
                            if shapes.insert(shape) { failures.push((text, obs)); }
                            if failures.len() >= 3 { break 'outer; }
                        }
                    }
                    }
                }
            }
        }
    }
    let fjson: Vec<String> = failures.iter().map(|(i, o)| format!("{{\"input\": {i:?}, \"observed\": {o:?}}}")).collect();
    println!("{{\"bound\": \"a generated family of configuration files: 5 declared-listener sets (incl. an https one and one with an unknown protocol) x plain / certificate-bearing frontends x buffer_size 16393 / 8192 x http/tcp x frontend lists of up to {maxf} frontends over 3 addresses and 2 hostnames (declared and undeclared addresses, shared within and across clusters) x 1 or 2 clusters\", \"states\": {files}, \"pairs\": {files}, \"nontrivial_pairs\": {loaded}, \"failures\": [{}]}}", fjson.join(", "));
}
