//! Replay driver for C10 (unit U-scmcap): the REAL ScmSocket::send_listeners / receive_listeners over a real
//! unix socket pair, with n <= MAX_FDS_OUT listeners. Required: the successor receives every (address, fd) pair.
//! usage: c10_scm capacity
use std::{
    net::SocketAddr,
    os::fd::{AsRawFd, IntoRawFd},
    os::unix::net::UnixStream,
};

use sozu_command_lib::scm_socket::{Listeners, ScmSocket, MAX_FDS_OUT};

extern "C" { #[link_name = "close"] fn libc_close(fd: i32) -> i32; }

fn roundtrip(n: usize, v6: bool) -> Result<bool, String> {
    let (a, b) = UnixStream::pair().map_err(|e| e.to_string())?;
    let tx = ScmSocket::new(a.into_raw_fd()).map_err(|e| e.to_string())?;
    let rx = ScmSocket::new(b.into_raw_fd()).map_err(|e| e.to_string())?;
    let devnull = std::fs::File::open("/dev/null").map_err(|e| e.to_string())?;
    let mut l = Listeners::default();
    for i in 0..n {
        let addr: SocketAddr = if v6 {
            format!("[2001:db8:aaaa:bbbb:cccc:dddd:eeee:{:x}]:{}", 0x1000 + i, 50000 + i).parse().unwrap()
        } else {
            format!("192.168.{}.{}:{}", 100 + i / 100, 100 + i % 100, 50000 + i).parse().unwrap()
        };
        let fd = devnull.as_raw_fd();
        match i % 4 { 0 => l.http.push((addr, fd)), 1 => l.tls.push((addr, fd)), 2 => l.tcp.push((addr, fd)), _ => l.udp.push((addr, fd)) }
    }
    tx.send_listeners(&l).map_err(|e| format!("send_listeners: {e}"))?;
    let got = rx.receive_listeners().map_err(|e| format!("receive_listeners: {e}"))?;
    // close what we received so that the driver itself does not run out of descriptors
    for t in [&got.http, &got.tls, &got.tcp, &got.udp] { for (_, fd) in t.iter() { unsafe { libc_close(*fd); } } }
    let same_addrs = |x: &Vec<(SocketAddr, i32)>, y: &Vec<(SocketAddr, i32)>| x.len() == y.len() && x.iter().zip(y).all(|(p, q)| p.0 == q.0);
    Ok(same_addrs(&got.http, &l.http) && same_addrs(&got.tls, &l.tls) && same_addrs(&got.tcp, &l.tcp) && same_addrs(&got.udp, &l.udp))
}

fn main() {
    for v6 in [false, true] {
        for n in 1..=MAX_FDS_OUT {
            let r = roundtrip(n, v6);
            if !matches!(r, Ok(true)) {
                let input = format!("{n} listeners (<= MAX_FDS_OUT = {MAX_FDS_OUT}), {} addresses, spread over http/tls/tcp/udp", if v6 { "IPv6" } else { "IPv4" });
                let observed = match r { Ok(_) => "received listener tables differ from the sent ones".to_string(), Err(e) => e };
                println!("{{\"found\": true, \"scenario\": \"capacity\", \"input\": {input:?}, \"observed\": {observed:?}, \"required\": \"every listener set up to MAX_FDS_OUT round-trips through send_listeners / receive_listeners\"}}");
                return;
            }
        }
    }
    println!("{{\"found\": false, \"scenario\": \"capacity\", \"input\": \"\", \"observed\": \"\", \"required\": \"\"}}");
}
