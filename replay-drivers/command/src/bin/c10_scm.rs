//! Bounded native enumeration for C10 (unit N-scm): the fd-passing leg of a worker hand-over with REAL sockets through
//! the REAL sozu_command_lib::scm_socket::ScmSocket. usage: c10_scm quick | thorough
//! For every listener set with h http, s https, t tcp and u udp listeners (each 0..=N, bound on loopback ephemeral
//! ports, IPv4 and IPv6 alternating when available), send_listeners on one end of a socketpair and receive_listeners on
//! the other; then
//!   - the received tables have the same lengths and the same addresses, in the same protocol tables;
//!   - for EVERY received (address, fd): getsockname(fd) == address and the socket has the table's type (stream for
//!     http / https / tcp, datagram for udp) — the successor looks the fd up by address and starts accepting on it;
//!   - Listeners::get_http / get_https / get_tcp / get_udp hand out, for an address, the fd bound to that address.
use std::{
    net::{SocketAddr, TcpListener, UdpSocket},
    os::unix::{io::{AsRawFd, FromRawFd, IntoRawFd, RawFd}, net::UnixStream},
};

use sozu_command_lib::scm_socket::{Listeners, ScmSocket};

fn local_addr_of(fd: RawFd, udp: bool) -> Result<SocketAddr, String> {
    // borrow the fd: std's wrappers are the portable getsockname; into_raw_fd gives it back without closing
    if udp {
        let s = unsafe { UdpSocket::from_raw_fd(fd) };
        let r = s.local_addr().map_err(|e| e.to_string());
        let _ = s.into_raw_fd();
        r
    } else {
        let s = unsafe { TcpListener::from_raw_fd(fd) };
        let r = s.local_addr().map_err(|e| e.to_string());
        let _ = s.into_raw_fd();
        r
    }
}
fn is_dgram(fd: RawFd) -> bool {
    // a datagram socket cannot accept(): TcpListener::accept on it fails with EOPNOTSUPP, while set_nonblocking + accept
    // on a stream listener gives WouldBlock
    let s = unsafe { TcpListener::from_raw_fd(fd) };
    let _ = s.set_nonblocking(true);
    let r = s.accept();
    let _ = s.into_raw_fd();
    match r { Ok(_) => false, Err(e) => e.kind() != std::io::ErrorKind::WouldBlock }
}

fn bind_tcp(i: usize) -> TcpListener {
    if i % 2 == 1 { if let Ok(l) = TcpListener::bind("[::1]:0") { return l; } }
    TcpListener::bind("127.0.0.1:0").expect("bind tcp")
}
fn bind_udp(i: usize) -> UdpSocket {
    if i % 2 == 1 { if let Ok(l) = UdpSocket::bind("[::1]:0") { return l; } }
    UdpSocket::bind("127.0.0.1:0").expect("bind udp")
}

fn run(h: usize, s: usize, t: usize, u: usize) -> Result<(), String> {
    let (a, b) = UnixStream::pair().map_err(|e| e.to_string())?;
    let tx = ScmSocket::new(a.into_raw_fd()).map_err(|e| format!("driver: {e}"))?;
    let rx = ScmSocket::new(b.into_raw_fd()).map_err(|e| format!("driver: {e}"))?;
    let http: Vec<TcpListener> = (0..h).map(bind_tcp).collect();
    let tls: Vec<TcpListener> = (0..s).map(|i| bind_tcp(i + 1)).collect();
    let tcp: Vec<TcpListener> = (0..t).map(bind_tcp).collect();
    let udp: Vec<UdpSocket> = (0..u).map(bind_udp).collect();
    let sent = Listeners {
        http: http.iter().map(|l| (l.local_addr().unwrap(), l.as_raw_fd())).collect(),
        tls: tls.iter().map(|l| (l.local_addr().unwrap(), l.as_raw_fd())).collect(),
        tcp: tcp.iter().map(|l| (l.local_addr().unwrap(), l.as_raw_fd())).collect(),
        udp: udp.iter().map(|l| (l.local_addr().unwrap(), l.as_raw_fd())).collect(),
    };
    tx.send_listeners(&sent).map_err(|e| format!("send_listeners failed: {e}"))?;
    let mut got = rx.receive_listeners().map_err(|e| format!("receive_listeners failed: {e}"))?;
    let res = (|| {
        for (name, st, gt, dgram) in [("http", &sent.http, &got.http, false), ("https", &sent.tls, &got.tls, false), ("tcp", &sent.tcp, &got.tcp, false), ("udp", &sent.udp, &got.udp, true)] {
            let sa: Vec<SocketAddr> = st.iter().map(|x| x.0).collect();
            let ga: Vec<SocketAddr> = gt.iter().map(|x| x.0).collect();
            if sa != ga { return Err(format!("{name} table: sent addresses {sa:?}, received {ga:?}")); }
            for (addr, fd) in gt.iter() {
                let real = local_addr_of(*fd, dgram)?;
                if real != *addr { return Err(format!("{name} listener {addr} was handed the socket bound to {real}")); }
                if is_dgram(*fd) != dgram { return Err(format!("{name} listener {addr} was handed a {} socket", if dgram { "stream" } else { "datagram" })); }
            }
        }
        Ok(())
    })();
    // the lookup the successor does
    let res = res.and_then(|_| {
        for (addr, _) in sent.http.iter() { match got.get_http(addr) { Some(fd) => { let r = local_addr_of(fd, false)?; if r != *addr { return Err(format!("get_http({addr}) hands out the socket bound to {r}")); } unsafe { drop(TcpListener::from_raw_fd(fd)); } } None => return Err(format!("get_http({addr}) is None")) } }
        for (addr, _) in sent.tls.iter() { match got.get_https(addr) { Some(fd) => { let r = local_addr_of(fd, false)?; if r != *addr { return Err(format!("get_https({addr}) hands out the socket bound to {r}")); } unsafe { drop(TcpListener::from_raw_fd(fd)); } } None => return Err(format!("get_https({addr}) is None")) } }
        for (addr, _) in sent.tcp.iter() { match got.get_tcp(addr) { Some(fd) => { let r = local_addr_of(fd, false)?; if r != *addr { return Err(format!("get_tcp({addr}) hands out the socket bound to {r}")); } unsafe { drop(TcpListener::from_raw_fd(fd)); } } None => return Err(format!("get_tcp({addr}) is None")) } }
        for (addr, _) in sent.udp.iter() { match got.get_udp(addr) { Some(fd) => { let r = local_addr_of(fd, true)?; if r != *addr { return Err(format!("get_udp({addr}) hands out the socket bound to {r}")); } unsafe { drop(UdpSocket::from_raw_fd(fd)); } } None => return Err(format!("get_udp({addr}) is None")) } }
        Ok(())
    });
    got.close();
    unsafe { drop(UnixStream::from_raw_fd(tx.raw_fd())); drop(UnixStream::from_raw_fd(rx.raw_fd())); }
    res
}

fn main() {
    let tier = std::env::args().nth(1).unwrap_or_else(|| "quick".into());
    let top: usize = if tier == "thorough" { 4 } else { 2 };
    let (mut n, mut nontrivial, mut fails): (u64, u64, Vec<(String, String)>) = (0, 0, Vec::new());
    'all: for h in 0..=top { for s in 0..=top { for t in 0..=top { for u in 0..=top {
        n += 1;
        if (h > 0) as u8 + (s > 0) as u8 + (t > 0) as u8 + (u > 0) as u8 >= 2 { nontrivial += 1; }
        if let Err(obs) = run(h, s, t, u) { fails.push((format!("{h} http, {s} https, {t} tcp, {u} udp listeners"), obs)); if fails.len() >= 3 { break 'all; } }
    } } } }
    let fl: Vec<String> = fails.iter().map(|(i, o)| format!("{{\"input\": {:?}, \"observed\": {:?}}}", i, o)).collect();
    println!("{{\"bound\": \"every listener set with 0..={top} http x https x tcp x udp listeners on real loopback sockets\", \"states\": {n}, \"pairs\": {n}, \"nontrivial_pairs\": {nontrivial}, \"failures\": [{}]}}", fl.join(", "));
}
