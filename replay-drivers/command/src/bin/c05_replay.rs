//! Bounded native enumeration for C05 (unit N-replay): the REAL ConfigState save / replay paths.
//! usage: c05_replay [quick|thorough]
//! For every state S reachable in two small universes of dispatched requests (the ones of c06_diff, plus health
//! checks and a certificate), turn S back into commands and replay them on an EMPTY ConfigState through three of the
//! encodings in use, and require the replay to be accepted command by command and to rebuild exactly S:
//!   memory   : S.produce_initial_state().requests, dispatched as they are
//!   protobuf : the same InitialState through prost encode_to_vec / decode (the worker bootstrap blob)
//!   file     : S.write_requests_to_file() into a temporary file, read back with parse_several_requests (the saved state)
//! (The JSON upgrade payload of the bin crate is not covered.) Bounded stand-in, never counted as proved.
use std::collections::{BTreeMap, HashSet};

use sozu_command_lib::{
    proto::command::{
        request::RequestType, AddBackend, Cluster, HttpListenerConfig, ListenerType, PathRule, RemoveBackend,
        RemoveListener, Request, RequestHttpFrontend, RulePosition, SocketAddress, TcpListenerConfig,
        ActivateListener, WorkerRequest,
    },
    state::ConfigState,
};

fn universe(thorough: bool) -> Vec<Request> {
    let mut u: Vec<Request> = vec![];
    let l_http = SocketAddress::new_v4(127, 0, 0, 1, 8080);
    let l_tcp = SocketAddress::new_v4(127, 0, 0, 1, 5000);
    u.push(RequestType::AddHttpListener(HttpListenerConfig { address: l_http, sticky_name: "S".into(), front_timeout: 60, back_timeout: 30, connect_timeout: 3, request_timeout: 10, ..Default::default() }).into());
    u.push(RequestType::AddTcpListener(TcpListenerConfig { address: l_tcp, front_timeout: 60, back_timeout: 30, connect_timeout: 3, ..Default::default() }).into());
    u.push(RequestType::ActivateListener(ActivateListener { address: l_http, proxy: ListenerType::Http.into(), from_scm: false }).into());
    u.push(RequestType::RemoveListener(RemoveListener { address: l_tcp, proxy: ListenerType::Tcp.into() }).into());
    for c in ["c1", "c2"] {
        u.push(RequestType::AddCluster(Cluster { cluster_id: c.into(), ..Default::default() }).into());
        u.push(RequestType::AddCluster(Cluster { cluster_id: c.into(), sticky_session: true, ..Default::default() }).into());
        u.push(RequestType::RemoveCluster(c.into()).into());
    }
    let addrs: Vec<SocketAddress> = if thorough { vec![SocketAddress::new_v4(10, 0, 0, 1, 1001), SocketAddress::new_v4(10, 0, 0, 1, 1002), SocketAddress::new_v4(10, 0, 0, 2, 1001)] }
                                    else { vec![SocketAddress::new_v4(10, 0, 0, 1, 1001), SocketAddress::new_v4(10, 0, 0, 1, 1002)] };
    for c in ["c1", "c2"] {
        for b in ["b1", "b2"] {
            for a in &addrs {
                u.push(RequestType::AddBackend(AddBackend { cluster_id: c.into(), backend_id: b.into(), address: *a, ..Default::default() }).into());
                if c == "c1" { u.push(RequestType::RemoveBackend(RemoveBackend { cluster_id: c.into(), backend_id: b.into(), address: *a }).into()); }
            }
        }
    }
    for (c, host, path) in [("c1", "a.example", "/"), ("c2", "a.example", "/api"), ("c1", "b.example", "/")] {
        let f = RequestHttpFrontend { cluster_id: Some(c.into()), address: l_http, hostname: host.into(), path: PathRule::prefix(path.to_string()), position: RulePosition::Tree.into(), ..Default::default() };
        u.push(RequestType::AddHttpFrontend(f.clone()).into());
        u.push(RequestType::RemoveHttpFrontend(f).into());
    }
    u
}

// third universe: backends of one cluster only — the same (backend id, address) added again with other ranking fields
// (sticky_id / backup rank before the address in Backend's order), siblings sharing a backend id, removals
fn universe_backends() -> Vec<Request> {
    let a0 = SocketAddress::new_v4(10, 0, 0, 1, 1001);
    let a1 = SocketAddress::new_v4(10, 0, 0, 1, 1002);
    let mut u: Vec<Request> = vec![];
    for (id, a, sticky, backup) in [("b1", a0, Some("a"), None), ("b1", a1, Some("m"), None), ("b1", a0, Some("z"), None), ("b1", a0, None, Some(true)), ("b2", a0, Some("k"), None), ("b1", a1, None, None)] {
        u.push(RequestType::AddBackend(AddBackend { cluster_id: "c1".into(), backend_id: id.into(), address: a, sticky_id: sticky.map(|s: &str| s.to_string()), backup, ..Default::default() }).into());
    }
    u.push(RequestType::RemoveBackend(RemoveBackend { cluster_id: "c1".into(), backend_id: "b1".into(), address: a1 }).into());
    u
}

// second universe: frontends that share a route key (listener, host, path) and differ only in non-key fields
// (cluster, tags), on an HTTP and an HTTPS listener
fn universe_fronts() -> Vec<Request> {
    let mut u: Vec<Request> = vec![];
    let l_http = SocketAddress::new_v4(127, 0, 0, 1, 8080);
    let l_https = SocketAddress::new_v4(127, 0, 0, 1, 8443);
    u.push(RequestType::AddHttpListener(HttpListenerConfig { address: l_http, sticky_name: "S".into(), front_timeout: 60, back_timeout: 30, connect_timeout: 3, request_timeout: 10, ..Default::default() }).into());
    if let Ok(cfg) = sozu_command_lib::config::ListenerBuilder::new_https(l_https).to_tls(None) {
        u.push(RequestType::AddHttpsListener(cfg).into());
    }
    for c in ["c1", "c2"] {
        u.push(RequestType::AddCluster(Cluster { cluster_id: c.into(), ..Default::default() }).into());
    }
    let mut tags = BTreeMap::new();
    tags.insert("owner".to_string(), "team-a".to_string());
    for (c, host, path, tagged) in [("c1", "a.example", "/", false), ("c2", "a.example", "/", false), ("c1", "a.example", "/", true), ("c1", "b.example", "/", false)] {
        let f = RequestHttpFrontend { cluster_id: Some(c.into()), address: l_http, hostname: host.into(), path: PathRule::prefix(path.to_string()), position: RulePosition::Tree.into(),
                                      tags: if tagged { tags.clone() } else { BTreeMap::new() }, ..Default::default() };
        u.push(RequestType::AddHttpFrontend(f.clone()).into());
        u.push(RequestType::RemoveHttpFrontend(f.clone()).into());
        if !tagged || c == "c1" {
            let g = RequestHttpFrontend { address: l_https, ..f };
            u.push(RequestType::AddHttpsFrontend(g.clone()).into());
            u.push(RequestType::RemoveHttpsFrontend(g).into());
        }
    }
    u
}

fn normalise(mut s: ConfigState) -> ConfigState {
    // request_counts is a census of received requests, not configuration
    s.request_counts.clear();
    s
}

fn describe(s: &ConfigState) -> String {
    let b: BTreeMap<_, Vec<String>> = s.backends.iter().map(|(c, v)| (c.clone(), v.iter().map(|b| format!("{}@{}", b.backend_id, b.address)).collect())).collect();
    format!("clusters={:?} backends={:?} http_listeners={} tcp_listeners={} http_fronts={:?}", s.clusters.keys().collect::<Vec<_>>(), b,
            s.http_listeners.values().map(|l| format!("{}(active={})", l.address, l.active)).collect::<Vec<_>>().join(","), s.tcp_listeners.len(),
            s.http_fronts.iter().map(|(k, f)| format!("{k}->{:?}{}", f.cluster_id, if f.tags.is_some() { "+tags" } else { "" })).chain(s.https_fronts.iter().map(|(k, f)| format!("tls:{k}->{:?}", f.cluster_id))).collect::<Vec<_>>())
}


fn replay(reqs: &[WorkerRequest]) -> Result<ConfigState, String> {
    let mut t = ConfigState::new();
    for (k, wr) in reqs.iter().enumerate() {
        if let Err(e) = t.dispatch(&wr.content) { return Err(format!("command #{k} ({}) of the replay was rejected: {e}", wr.id)); }
    }
    Ok(t)
}

fn explore_states(u: &[Request], depth: usize, cap: usize) -> Vec<ConfigState> {
    let mut states: Vec<ConfigState> = vec![ConfigState::new()];
    let mut seen: HashSet<String> = HashSet::new();
    seen.insert(format!("{:?}", normalise(ConfigState::new())));
    let mut frontier = vec![0usize];
    for _ in 0..depth {
        let mut next = vec![];
        for &i in &frontier {
            for r in u {
                if states.len() >= cap { break; }
                let mut s = states[i].clone();
                if s.dispatch(r).is_ok() {
                    let key = format!("{:?}", normalise(s.clone()));
                    if seen.insert(key) { states.push(s); next.push(states.len() - 1); }
                }
            }
        }
        frontier = next;
    }
    states
}

fn build_universes(thorough: bool) -> (Vec<Request>, Vec<Request>) {
    let mut u = universe(thorough);
    // health checks and a certificate on top of universe 1
    u.push(RequestType::SetHealthCheck(sozu_command_lib::proto::command::SetHealthCheck { cluster_id: "c1".into(), config: sozu_command_lib::proto::command::HealthCheckConfig { uri: "/health".into(), interval: 10, timeout: 5, healthy_threshold: 2, unhealthy_threshold: 3, expected_status: 200 } }).into());
    u.push(RequestType::RemoveHealthCheck("c1".into()).into());
    let mut u2: Vec<Request> = vec![];
    // a certificate on the HTTPS listener, TCP frontends with tags, a backend with sticky id and weight
    {
        use sozu_command_lib::proto::command::{AddCertificate, CertificateAndKey, RequestTcpFrontend, LoadBalancingParams};
        let l_https = SocketAddress::new_v4(127, 0, 0, 1, 8443);
        let l_tcp = SocketAddress::new_v4(127, 0, 0, 1, 5000);
        if let (Ok(cert), Ok(key)) = (std::fs::read_to_string("/repo/lib/assets/certificate.pem"), std::fs::read_to_string("/repo/lib/assets/key.pem")) {
            u2.push(RequestType::AddCertificate(AddCertificate { address: l_https, certificate: CertificateAndKey { certificate: cert, key, certificate_chain: vec![], versions: vec![], names: vec!["a.example".into()] }, expired_at: None }).into());
        }
        // certificates WITHOUT explicit names (the names come from the certificate itself), removal and replacement
        if let (Ok(cert), Ok(key), Ok(cert2), Ok(key2)) = (std::fs::read_to_string("/repo/lib/assets/certificate.pem"), std::fs::read_to_string("/repo/lib/assets/key.pem"),
                                                           std::fs::read_to_string("/repo/lib/assets/local-certificate.pem"), std::fs::read_to_string("/repo/lib/assets/local-key.pem")) {
            use sozu_command_lib::proto::command::{RemoveCertificate, ReplaceCertificate};
            let ck = |c: &str, k: &str| CertificateAndKey { certificate: c.to_string(), key: k.to_string(), certificate_chain: vec![], versions: vec![], names: vec![] };
            u2.push(RequestType::AddCertificate(AddCertificate { address: l_https, certificate: ck(&cert2, &key2), expired_at: None }).into());
            if let Ok(fp) = sozu_command_lib::certificate::calculate_fingerprint(cert2.as_bytes()) {
                let hexfp: String = fp.iter().map(|b| format!("{b:02x}")).collect();
                u2.push(RequestType::RemoveCertificate(RemoveCertificate { address: l_https, fingerprint: hexfp.clone() }).into());
                u2.push(RequestType::ReplaceCertificate(ReplaceCertificate { address: l_https, new_certificate: ck(&cert, &key), old_fingerprint: hexfp, new_expired_at: None }).into());
            }
        }
        u2.push(RequestType::AddTcpListener(TcpListenerConfig { address: l_tcp, front_timeout: 60, back_timeout: 30, connect_timeout: 3, ..Default::default() }).into());
        let mut tags = BTreeMap::new();
        tags.insert("owner".to_string(), "team-b".to_string());
        let l_tcp2 = SocketAddress::new_v4(127, 0, 0, 1, 5001);
        u2.push(RequestType::AddTcpListener(TcpListenerConfig { address: l_tcp2, front_timeout: 60, back_timeout: 30, connect_timeout: 3, ..Default::default() }).into());
        for (c, t, l) in [("c1", false, l_tcp), ("c1", true, l_tcp2), ("c2", true, l_tcp)] {
            let f = RequestTcpFrontend { cluster_id: c.into(), address: l, tags: if t { tags.clone() } else { BTreeMap::new() } };
            u2.push(RequestType::AddTcpFrontend(f.clone()).into());
            u2.push(RequestType::RemoveTcpFrontend(f).into());
        }
        // path rules with an empty pattern of every kind (an EQUALS / REGEX rule with an empty pattern is not the default PREFIX "")
        for (pr, host) in [(PathRule::equals(String::new()), "eq.example"), (PathRule::regex(String::new()), "re.example"), (PathRule::prefix(String::new()), "pre.example")] {
            let f = RequestHttpFrontend { cluster_id: Some("c1".into()), address: SocketAddress::new_v4(127, 0, 0, 1, 8080), hostname: host.into(), path: pr, position: RulePosition::Tree.into(), ..Default::default() };
            u2.push(RequestType::AddHttpFrontend(f).into());
        }
        // frontends with EVERY optional field present: once with "falsy" values that are not the same thing as an absent
        // field (an explicit HSTS disable, required_auth = false, the default enum values spelt out, port 0, empty strings),
        // once with non-default values; on the HTTP and on the HTTPS listener
        {
            use sozu_command_lib::proto::command::{Header, HeaderPosition, HstsConfig, RedirectPolicy, RedirectScheme};
            let falsy = RequestHttpFrontend { cluster_id: Some("c1".into()), address: SocketAddress::new_v4(127, 0, 0, 1, 8080), hostname: "falsy.example".into(), path: PathRule::prefix("/f".to_string()),
                method: Some("GET".into()), position: RulePosition::Tree.into(), tags: BTreeMap::new(), redirect: Some(RedirectPolicy::Forward as i32), required_auth: Some(false),
                redirect_scheme: Some(RedirectScheme::UseSame as i32), redirect_template: None, rewrite_host: None, rewrite_path: None, rewrite_port: None, headers: vec![],
                hsts: Some(HstsConfig { enabled: Some(false), ..Default::default() }) };
            let truthy = RequestHttpFrontend { cluster_id: Some("c1".into()), address: SocketAddress::new_v4(127, 0, 0, 1, 8080), hostname: "truthy.example".into(), path: PathRule::prefix("/t".to_string()),
                method: Some("POST".into()), position: RulePosition::Pre.into(), tags: tags.clone(), redirect: Some(RedirectPolicy::Permanent as i32), required_auth: Some(true),
                redirect_scheme: Some(RedirectScheme::UseHttps as i32), redirect_template: None, rewrite_host: Some("x.example".into()), rewrite_path: Some("/p".into()), rewrite_port: Some(8081),
                headers: vec![Header { position: HeaderPosition::Request as i32, key: "X-Added".into(), val: "1".into() }, Header { position: HeaderPosition::Both as i32, key: "X-Gone".into(), val: String::new() }],
                hsts: Some(HstsConfig { enabled: Some(true), max_age: Some(100), include_subdomains: Some(true), ..Default::default() }) };
            for f in [falsy, truthy] {
                u2.push(RequestType::AddHttpFrontend(f.clone()).into());
                u2.push(RequestType::AddHttpsFrontend(RequestHttpFrontend { address: SocketAddress::new_v4(127, 0, 0, 1, 8443), ..f }).into());
            }
        }
        u2.push(RequestType::AddBackend(AddBackend { cluster_id: "c1".into(), backend_id: "b9".into(), address: SocketAddress::new_v4(10, 0, 0, 9, 9000), sticky_id: Some("sticky-9".into()),
                                                    load_balancing_parameters: Some(LoadBalancingParams { weight: 7 }), backup: Some(true) }).into());
    }
    // listeners and clusters first (the new templates need them), then the additions above, then the rest of universe 2
    {
        let base = universe_fronts();
        let mut ordered: Vec<Request> = base.iter().take(4).cloned().collect();
        ordered.extend(u2.drain(..));
        ordered.extend(base.into_iter().skip(4));
        u2 = ordered;
    }
    (u, u2)
}

// C07 mode (unit N-reject): for every explored state S and every command r of the universes plus their "near misses"
// (a removal whose address / id / path matches nothing, a frontend for an unknown listener, a duplicate add ...):
// if S.dispatch(r) is refused, S must be exactly what it was — a rejected command leaves no trace.
fn reject_mode(thorough: bool) {
    use sozu_command_lib::proto::command::{RemoveCertificate, RequestTcpFrontend};
    let depth = if thorough { 4 } else { 3 };
    let cap = if thorough { 1500 } else { 400 };
    let (u, u2) = build_universes(thorough);
    let mut probes: Vec<Request> = u.iter().cloned().chain(u2.iter().cloned()).collect();
    // near misses
    let nowhere = SocketAddress::new_v4(127, 0, 0, 1, 9);
    for c in ["c1", "c2", "ghost"] {
        probes.push(RequestType::RemoveTcpFrontend(RequestTcpFrontend { cluster_id: c.into(), address: nowhere, tags: BTreeMap::new() }).into());
        probes.push(RequestType::AddTcpFrontend(RequestTcpFrontend { cluster_id: c.into(), address: nowhere, tags: BTreeMap::new() }).into());
        probes.push(RequestType::RemoveBackend(RemoveBackend { cluster_id: c.into(), backend_id: "b1".into(), address: nowhere }).into());
        probes.push(RequestType::RemoveBackend(RemoveBackend { cluster_id: c.into(), backend_id: "nope".into(), address: SocketAddress::new_v4(10, 0, 0, 1, 1001) }).into());
        probes.push(RequestType::RemoveCluster(c.into()).into());
        probes.push(RequestType::RemoveHealthCheck(c.into()).into());
        for (l, host, path) in [(SocketAddress::new_v4(127, 0, 0, 1, 8080), "a.example", "/nope"), (SocketAddress::new_v4(127, 0, 0, 1, 8080), "nope.example", "/"), (nowhere, "a.example", "/"), (SocketAddress::new_v4(127, 0, 0, 1, 8443), "a.example", "/nope")] {
            let f = RequestHttpFrontend { cluster_id: Some(c.into()), address: l, hostname: host.into(), path: PathRule::prefix(path.to_string()), position: RulePosition::Tree.into(), ..Default::default() };
            probes.push(RequestType::RemoveHttpFrontend(f.clone()).into());
            probes.push(RequestType::RemoveHttpsFrontend(f.clone()).into());
            probes.push(RequestType::AddHttpFrontend(f.clone()).into());
            probes.push(RequestType::AddHttpsFrontend(f).into());
        }
    }
    for (l, t) in [(nowhere, ListenerType::Http), (nowhere, ListenerType::Tcp), (nowhere, ListenerType::Https), (SocketAddress::new_v4(127, 0, 0, 1, 8080), ListenerType::Tcp), (SocketAddress::new_v4(127, 0, 0, 1, 5000), ListenerType::Http)] {
        probes.push(RequestType::RemoveListener(RemoveListener { address: l, proxy: t.into() }).into());
        probes.push(RequestType::ActivateListener(ActivateListener { address: l, proxy: t.into(), from_scm: false }).into());
        probes.push(RequestType::DeactivateListener(sozu_command_lib::proto::command::DeactivateListener { address: l, proxy: t.into(), to_scm: false }).into());
    }
    probes.push(RequestType::RemoveCertificate(RemoveCertificate { address: SocketAddress::new_v4(127, 0, 0, 1, 8443), fingerprint: "00".repeat(32) }).into());
    probes.push(RequestType::RemoveCertificate(RemoveCertificate { address: nowhere, fingerprint: "00".repeat(32) }).into());
    probes.push(RequestType::RemoveCertificate(RemoveCertificate { address: SocketAddress::new_v4(127, 0, 0, 1, 8443), fingerprint: "zz".into() }).into());
    let mut all: Vec<ConfigState> = explore_states(&u, depth, cap);
    all.extend(explore_states(&u2, depth + 2, cap));
    let (mut n, mut rejected) = (0u64, 0u64);
    let mut failures: Vec<(String, String)> = vec![];
    let mut shapes: HashSet<String> = HashSet::new();
    for s in &all {
        let want = normalise(s.clone());
        for r in &probes {
            n += 1;
            let mut t = s.clone();
            if let Err(e) = t.dispatch(r) {
                rejected += 1;
                if normalise(t.clone()) != want {
                    let kind = format!("{:?}", r.request_type).split('(').next().unwrap_or("").to_string();
                    if shapes.insert(kind.clone()) && failures.len() < 3 {
                        failures.push((format!("S = [{}]; command {:?}", describe(s), r.request_type).chars().take(1200).collect(), format!("the command was rejected ({e}) but the state changed: afterwards [{}]", describe(&t))));
                    }
                }
            }
        }
    }
    let fjson: Vec<String> = failures.iter().map(|(i, o)| format!("{{\"input\": {i:?}, \"observed\": {o:?}}}")).collect();
    println!("{{\"bound\": \"every state of two universes explored breadth-first (<= {depth} / {} dispatched requests, capped at {cap} distinct states each) x {} commands (the universes' own plus near misses: removals that match nothing, unknown listeners / clusters, duplicates, bad fingerprints)\", \"states\": {}, \"pairs\": {n}, \"nontrivial_pairs\": {rejected}, \"failures\": [{}]}}", depth + 2, probes.len(), all.len(), fjson.join(", "));
}

fn main() {
    use prost::Message;
    use std::io::{Read, Seek, SeekFrom};
    let a: Vec<String> = std::env::args().collect();
    let thorough = a.iter().any(|s| s == "thorough");
    if a.get(1).map(|s| s == "reject").unwrap_or(false) { reject_mode(thorough); return; }
    let depth = if thorough { 4 } else { 3 };
    let cap = if thorough { 1500 } else { 400 };
    let (u, u2) = build_universes(thorough);
    let mut all: Vec<ConfigState> = explore_states(&u, depth, cap);
    all.extend(explore_states(&u2, depth + 2, cap));
    all.extend(explore_states(&universe_backends(), 4, 1500));
    let (mut n, mut nontrivial) = (0u64, 0u64);
    let mut failures: Vec<(String, String)> = vec![];
    let mut shapes: HashSet<String> = HashSet::new();
    for s in &all {
        n += 1;
        let init = s.produce_initial_state();
        if init.requests.len() >= 2 { nontrivial += 1; }
        let want = normalise(s.clone());
        let mut check = |path: &str, reqs: Result<Vec<WorkerRequest>, String>| {
            let outcome = reqs.and_then(|r| replay(&r)).map(|t| normalise(t) == want);
            let bad = match &outcome { Ok(true) => None, Ok(false) => Some("the replayed state differs from the original".to_string()), Err(e) => Some(e.clone()) };
            if let Some(why) = bad {
                if shapes.insert(format!("{path}:{}", why.split(':').next().unwrap_or(""))) {
                    failures.push((format!("S = [{}] ({} commands), path = {path}", describe(s), init.requests.len()), why));
                }
            }
        };
        check("memory", Ok(init.requests.clone()));
        check("protobuf", sozu_command_lib::proto::command::InitialState::decode(&init.encode_to_vec()[..]).map(|i| i.requests).map_err(|e| format!("protobuf decode failed: {e}")));
        let file_reqs = (|| -> Result<Vec<WorkerRequest>, String> {
            let mut f = tempfile().map_err(|e| format!("temp file: {e}"))?;
            s.write_requests_to_file(&mut f).map_err(|e| format!("write_requests_to_file failed: {e}"))?;
            f.seek(SeekFrom::Start(0)).map_err(|e| e.to_string())?;
            let mut buf = Vec::new();
            f.read_to_end(&mut buf).map_err(|e| e.to_string())?;
            match sozu_command_lib::parser::parse_several_requests::<WorkerRequest>(&buf) {
                Ok((rest, v)) if rest.iter().all(|b| *b == b'\n') => Ok(v),
                Ok((rest, v)) => Err(format!("state file: {} commands parsed, {} bytes left unparsed", v.len(), rest.len())),
                Err(e) => Err(format!("state file does not parse: {e:?}")),
            }
        })();
        check("file", file_reqs);
        // the state as it travels in the main-process upgrade payload (UpgradeData.state: serde_json of the ConfigState itself)
        let json_state = serde_json::to_string(s).map_err(|e| format!("serde_json::to_string(ConfigState) failed: {e}"))
            .and_then(|t| serde_json::from_str::<ConfigState>(&t).map_err(|e| format!("the JSON of the state does not parse back: {e}")));
        let bad = match json_state { Ok(t) if normalise(t.clone()) == want => None, Ok(t) => Some(format!("the state read back from its JSON differs from the original: [{}]", describe(&t))), Err(e) => Some(e) };
        if let Some(why) = bad {
            if shapes.insert(format!("json-state:{}", why.split(':').next().unwrap_or(""))) {
                failures.push((format!("S = [{}], path = json-state (upgrade payload)", describe(s)), why));
            }
        }
    }
    let fjson: Vec<String> = failures.iter().map(|(i, o)| format!("{{\"input\": {i:?}, \"observed\": {o:?}}}")).collect();
    println!("{{\"bound\": \"every state of two universes explored breadth-first (<= {depth} / {} dispatched requests, capped at {cap} distinct states each) and of a backend-upsert universe (<= 4 requests), replayed on an empty state through 4 encodings (memory, protobuf InitialState, state file, JSON of the state as in the upgrade payload)\", \"states\": {n}, \"pairs\": {}, \"nontrivial_pairs\": {nontrivial}, \"failures\": [{}]}}", depth + 2, n * 4, fjson.join(", "));
}

fn tempfile() -> std::io::Result<std::fs::File> {
    let p = std::env::temp_dir().join(format!("verif-c05-{}-{}", std::process::id(), std::time::SystemTime::now().duration_since(std::time::UNIX_EPOCH).map(|d| d.as_nanos()).unwrap_or(0)));
    let f = std::fs::OpenOptions::new().read(true).write(true).create_new(true).open(&p)?;
    let _ = std::fs::remove_file(&p);
    Ok(f)
}
