//! Replay driver for C07 (units U-statepatch / U-statecert): evaluates "a rejected command leaves no
//! trace" on the REAL `ConfigState::dispatch`: clone the state, dispatch, and if the answer is an error
//! compare every configuration map (request_counts, a census, is excluded) with the clone.
//! usage: c07_state <scenario> [seed]   scenarios: http | https | replace-cert | add-cert | all
use sozu_command_lib::{
    proto::command::{
        request::RequestType, AddCertificate, AlpnProtocols, CertificateAndKey, HttpListenerConfig,
        HttpsListenerConfig, ReplaceCertificate, Request, SocketAddress, TcpListenerConfig,
        UpdateHttpListenerConfig, UpdateHttpsListenerConfig,
    },
    state::ConfigState,
};

fn out(found: bool, scenario: &str, input: String, observed: String, required: &str) -> ! {
    println!("{{\"found\": {found}, \"scenario\": \"{scenario}\", \"input\": {input:?}, \"observed\": {observed:?}, \"required\": {required:?}}}");
    std::process::exit(0)
}

fn strip(mut s: ConfigState) -> ConfigState {
    s.request_counts.clear();
    s
}

fn base() -> (ConfigState, SocketAddress, SocketAddress, SocketAddress) {
    let mut state = ConfigState::new();
    let a_http = SocketAddress::new_v4(127, 0, 0, 1, 8080);
    let a_https = SocketAddress::new_v4(127, 0, 0, 1, 8443);
    let a_tcp = SocketAddress::new_v4(127, 0, 0, 1, 5000);
    let reqs: Vec<Request> = vec![
        RequestType::AddHttpListener(HttpListenerConfig { address: a_http, sticky_name: "SOZUBALANCEID".into(), front_timeout: 60, back_timeout: 30, connect_timeout: 3, request_timeout: 10, ..Default::default() }).into(),
        RequestType::AddHttpsListener(HttpsListenerConfig { address: a_https, sticky_name: "SOZUBALANCEID".into(), front_timeout: 60, back_timeout: 30, connect_timeout: 3, request_timeout: 10, ..Default::default() }).into(),
        RequestType::AddTcpListener(TcpListenerConfig { address: a_tcp, front_timeout: 60, back_timeout: 30, connect_timeout: 3, ..Default::default() }).into(),
    ];
    for r in &reqs {
        state.dispatch(r).expect("base state");
    }
    (state, a_http, a_https, a_tcp)
}

/// returns Some(description of the difference) if `req` is rejected and leaves a trace
fn rejected_leaves_trace(state: &ConfigState, req: &Request) -> Option<String> {
    let before = strip(state.clone());
    let mut s = state.clone();
    match s.dispatch(req) {
        Ok(()) => None,
        Err(e) => {
            let after = strip(s);
            if after == before {
                None
            } else {
                let mut d = vec![format!("answer: Err({e})")];
                if after.http_listeners != before.http_listeners { d.push(format!("http_listeners changed: before {:?} after {:?}", before.http_listeners.values().map(|l| (l.front_timeout, l.back_timeout, l.expect_proxy)).collect::<Vec<_>>(), after.http_listeners.values().map(|l| (l.front_timeout, l.back_timeout, l.expect_proxy)).collect::<Vec<_>>())); }
                if after.https_listeners != before.https_listeners { d.push(format!("https_listeners changed: before (front_timeout, alpn) {:?} after {:?}", before.https_listeners.values().map(|l| (l.front_timeout, l.alpn_protocols.clone())).collect::<Vec<_>>(), after.https_listeners.values().map(|l| (l.front_timeout, l.alpn_protocols.clone())).collect::<Vec<_>>())); }
                if after.certificates != before.certificates { d.push(format!("certificates changed: before {:?} after {:?}", before.certificates.iter().map(|(a, m)| (a.to_string(), m.len())).collect::<Vec<_>>(), after.certificates.iter().map(|(a, m)| (a.to_string(), m.len())).collect::<Vec<_>>())); }
                Some(d.join("; "))
            }
        }
    }
}

const REQUIRED: &str = "a command answered with an error leaves every configuration map exactly as before";

fn http() {
    let (state, a_http, _, _) = base();
    let patch = UpdateHttpListenerConfig { address: a_http, front_timeout: Some(99), expect_proxy: Some(true), sozu_id_header: Some("bad header:".into()), ..Default::default() };
    let req: Request = RequestType::UpdateHttpListener(patch).into();
    if let Some(d) = rejected_leaves_trace(&state, &req) {
        out(true, "http", "UpdateHttpListener{front_timeout: 99, expect_proxy: true, sozu_id_header: \"bad header:\"} on a state holding that listener (front_timeout 60)".into(), d, REQUIRED);
    }
}

fn https() {
    let (state, _, a_https, _) = base();
    let patch = UpdateHttpsListenerConfig { address: a_https, front_timeout: Some(99), alpn_protocols: Some(AlpnProtocols { values: vec!["h3".into()] }), ..Default::default() };
    let req: Request = RequestType::UpdateHttpsListener(patch).into();
    if let Some(d) = rejected_leaves_trace(&state, &req) {
        out(true, "https", "UpdateHttpsListener{front_timeout: 99, alpn_protocols: [\"h3\"]}".into(), d, REQUIRED);
    }
    let patch = UpdateHttpsListenerConfig { address: a_https, alpn_protocols: Some(AlpnProtocols { values: vec!["h2".into()] }), sozu_id_header: Some("".into()), ..Default::default() };
    let req: Request = RequestType::UpdateHttpsListener(patch).into();
    if let Some(d) = rejected_leaves_trace(&state, &req) {
        out(true, "https", "UpdateHttpsListener{alpn_protocols: [\"h2\"], sozu_id_header: \"\"}".into(), d, REQUIRED);
    }
}

fn cert() -> CertificateAndKey {
    CertificateAndKey {
        certificate: include_str!("/repo/command/assets/certificate.pem").to_string(),
        key: include_str!("/repo/command/assets/key.pem").to_string(),
        ..Default::default()
    }
}

fn replace_cert() {
    let (mut state, _, a_https, _) = base();
    let c = cert();
    let fp = c.fingerprint().expect("fingerprint").to_string();
    state.dispatch(&RequestType::AddCertificate(AddCertificate { address: a_https, certificate: c, expired_at: None }).into()).expect("add cert");
    let bad = CertificateAndKey { certificate: "this is not PEM".into(), key: "k".into(), ..Default::default() };
    let req: Request = RequestType::ReplaceCertificate(ReplaceCertificate { address: a_https, new_certificate: bad, old_fingerprint: fp, new_expired_at: None }).into();
    if let Some(d) = rejected_leaves_trace(&state, &req) {
        out(true, "replace-cert", "ReplaceCertificate{old_fingerprint: <loaded cert>, new_certificate: \"this is not PEM\"}".into(), d, REQUIRED);
    }
}

fn add_cert() {
    let (state, _, a_https, _) = base();
    // valid PEM armour around bytes that are not a DER certificate: fingerprint() succeeds, name extraction fails
    let bad = CertificateAndKey { certificate: "-----BEGIN CERTIFICATE-----\nAAAA\n-----END CERTIFICATE-----\n".into(), key: "k".into(), ..Default::default() };
    let req: Request = RequestType::AddCertificate(AddCertificate { address: a_https, certificate: bad, expired_at: None }).into();
    if let Some(d) = rejected_leaves_trace(&state, &req) {
        out(true, "add-cert", "AddCertificate{certificate: PEM armour around non-DER bytes, names: []} on an address without certificates".into(), d, REQUIRED);
    }
}

fn main() {
    let a: Vec<String> = std::env::args().collect();
    match a.get(1).map(|s| s.as_str()) {
        Some("http") => http(),
        Some("https") => https(),
        Some("replace-cert") => replace_cert(),
        Some("add-cert") => add_cert(),
        _ => { http(); https(); replace_cert(); add_cert(); }
    }
    out(false, a.get(1).map(|s| s.as_str()).unwrap_or("all"), String::new(), String::new(), "");
}
