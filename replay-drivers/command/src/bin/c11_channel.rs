//! Replay driver for C11 (unit U-chan / U-buf): evaluates the contract's postconditions as runtime
//! predicates on the REAL `Channel` over a real unix socket pair.
//! usage: c11_channel <scenario> [seed]      scenarios: wedge1 | wedge2 | random
//! prints one JSON object: {"found": bool, "scenario":…, "input":…, "observed":…, "required":…}
use std::io::Write;

use sozu_command_lib::{
    channel::{Channel, ChannelError},
    proto::command::{Response, ResponseStatus},
};

type Ch = Channel<Response, Response>;

fn msg(n: usize, tag: u8) -> Response {
    Response {
        status: ResponseStatus::Ok as i32,
        message: std::iter::repeat((b'a' + tag % 26) as char).take(n).collect(),
        content: None,
    }
}

fn frame_of(m: &Response) -> Vec<u8> {
    use sozu_command_lib::proto::command::Response as R;
    let payload = prost_encode(m);
    let mut f = (payload.len() + 8).to_le_bytes().to_vec();
    f.extend_from_slice(&payload);
    let _ = R::default();
    f
}

// encode through the real channel so that no prost dependency is needed here
fn prost_encode(m: &Response) -> Vec<u8> {
    let (mut a, mut b): (Ch, Ch) = Channel::generate_nonblocking(1 << 16, 1 << 20).unwrap();
    a.write_message(m).unwrap();
    a.handle_events(sozu_command_lib::ready::Ready::WRITABLE);
    a.writable().unwrap();
    b.handle_events(sozu_command_lib::ready::Ready::READABLE);
    let _ = b.readable();
    let d = b.front_buf.data().to_vec();
    d[8..].to_vec()
}

fn pair(size: u64, max: u64) -> (Ch, Ch) {
    Channel::generate_nonblocking(size, max).unwrap()
}

fn pump(rx: &mut Ch) {
    rx.handle_events(sozu_command_lib::ready::Ready::READABLE);
    rx.interest.insert(sozu_command_lib::ready::Ready::READABLE);
    let _ = rx.readable();
}

fn kind(e: &ChannelError) -> String {
    format!("{e:?}").split(|c: char| !c.is_alphanumeric()).next().unwrap_or("").to_string()
}

fn out(found: bool, scenario: &str, input: String, observed: String, required: &str) -> ! {
    println!(
        "{{\"found\": {found}, \"scenario\": \"{scenario}\", \"input\": {input:?}, \"observed\": {observed:?}, \"required\": {required:?}}}"
    );
    std::process::exit(0)
}

/// wedge-1: an undecodable frame followed by a valid one; the valid one must be delivered.
fn wedge1() {
    for bad_len in [1usize, 2, 5, 17, 100] {
        for good in [0usize, 3, 50] {
            let (mut tx, mut rx) = pair(4096, 65536);
            let mut bad = (bad_len + 8).to_le_bytes().to_vec();
            bad.extend(std::iter::repeat(0xffu8).take(bad_len));
            let good_msg = msg(good, 1);
            let mut bytes = bad.clone();
            bytes.extend(frame_of(&good_msg));
            tx.sock.write_all(&bytes).unwrap();
            pump(&mut rx);
            let first = rx.read_message();
            let mut obs = vec![format!("1st: {}", first.as_ref().map(|_| "Ok".to_string()).unwrap_or_else(|e| kind(e)))];
            let mut delivered = false;
            for i in 0..4 {
                match rx.read_message() {
                    Ok(m) => {
                        obs.push(format!("call {}: Ok(len {})", i + 2, m.message.len()));
                        delivered = m == good_msg;
                        break;
                    }
                    Err(e) => obs.push(format!("call {}: {} (available_data {})", i + 2, kind(&e), rx.front_buf.available_data())),
                }
            }
            if !delivered {
                out(true, "wedge1",
                    format!("socket bytes = frame(len={}, payload=0xff*{}) ++ frame(valid Response, message.len={})", bad_len + 8, bad_len, good),
                    obs.join("; "),
                    "after the decode error the undecodable frame is gone and the next read_message delivers the valid message");
            }
        }
    }
    out(false, "wedge1", String::new(), String::new(), "");
}

/// wedge-2: buffer == max; a short message followed by a frame that fits in max once the consumed bytes are reclaimed.
fn wedge2() {
    for max in [64u64, 96, 128] {
        for first in 0usize..=20 {
            let m1 = msg(first, 2);
            let f1 = frame_of(&m1);
            if f1.len() as u64 > max / 2 { continue; }
            for second in 0usize..(max as usize) {
                let m2 = msg(second, 3);
                let f2 = frame_of(&m2);
                if f2.len() as u64 > max { continue; }
                if f1.len() + f2.len() <= max as usize { continue; } // we want the buffer to fill up
                let (mut tx, mut rx) = pair(max, max);
                let mut bytes = f1.clone();
                bytes.extend(&f2);
                let cut = max as usize;
                tx.sock.write_all(&bytes[..cut.min(bytes.len())]).unwrap();
                pump(&mut rx);
                let r1 = rx.read_message();
                if r1.as_ref().ok() != Some(&m1) {
                    out(true, "wedge2", format!("max={max} first.len={} second.len={}", f1.len(), f2.len()),
                        format!("first message not delivered: {:?}", r1.map(|_| ()).map_err(|e| kind(&e))), "first message delivered");
                }
                let r2 = rx.read_message();
                let mut obs = format!("after delivering frame #1 ({} bytes): {}", f1.len(), match &r2 { Ok(_) => "Ok".into(), Err(e) => kind(e) });
                let mut ok = false;
                if let Err(ChannelError::NothingRead) = r2 {
                    if cut < bytes.len() { tx.sock.write_all(&bytes[cut..]).unwrap(); }
                    pump(&mut rx);
                    match rx.read_message() {
                        Ok(m) if m == m2 => ok = true,
                        Ok(_) => obs.push_str("; then a different message"),
                        Err(e) => obs.push_str(&format!("; then {}", kind(&e))),
                    }
                } else if let Ok(m) = &r2 { ok = *m == m2; }
                if !ok {
                    out(true, "wedge2",
                        format!("buffer_size=max_buffer_size={max}; socket bytes = frame#1({} bytes) ++ frame#2({} bytes <= max), first {} bytes arrive before the first read_message", f1.len(), f2.len(), cut.min(bytes.len())),
                        obs,
                        "BufferFull only when the pending data really fills max_buffer_size; a frame of size <= max is eventually delivered");
                }
            }
        }
    }
    out(false, "wedge2", String::new(), String::new(), "");
}

struct Rng(u64);
impl Rng {
    fn next(&mut self) -> u64 { self.0 ^= self.0 << 13; self.0 ^= self.0 >> 7; self.0 ^= self.0 << 17; self.0 }
    fn below(&mut self, n: u64) -> u64 { self.next() % n.max(1) }
}

/// random: message sequences, random chunking of the byte stream; delivered sequence must equal the sent one.
fn random(seed: u64) {
    let mut rng = Rng(seed.wrapping_mul(0x9E3779B97F4A7C15) | 1);
    for round in 0..300 {
        let max = [64u64, 128, 256, 1024][rng.below(4) as usize];
        let init = [16u64, 32, 64][rng.below(3) as usize].min(max);
        let (mut tx, mut rx) = pair(init, max);
        let n = 1 + rng.below(6) as usize;
        let mut msgs = vec![];
        let mut bytes = vec![];
        for i in 0..n {
            let budget = (max as usize).saturating_sub(14);
            let m = msg(rng.below(budget as u64 + 1) as usize, i as u8);
            let f = frame_of(&m);
            if f.len() > max as usize { continue; }
            bytes.extend(&f);
            msgs.push(m);
        }
        let mut got = vec![];
        let mut pos = 0;
        let mut guard = 0;
        let mut trace = vec![];
        while got.len() < msgs.len() && guard < 10_000 {
            guard += 1;
            if pos < bytes.len() {
                let room = (max as usize).saturating_sub(rx.front_buf.available_data());
                let k = (1 + rng.below(40) as usize).min(bytes.len() - pos).min(room.max(0));
                if k > 0 {
                    tx.sock.write_all(&bytes[pos..pos + k]).unwrap();
                    pos += k;
                    trace.push(format!("w{k}"));
                }
            }
            pump(&mut rx);
            loop {
                match rx.read_message() {
                    Ok(m) => { trace.push("R".into()); got.push(m) }
                    Err(ChannelError::NothingRead) => break,
                    Err(e) => {
                        out(true, "random",
                            format!("seed={seed} round={round} init={init} max={max} frames={:?} schedule={}", msgs.iter().map(|m| m.message.len() + 14).collect::<Vec<_>>(), trace.join(",")),
                            format!("read_message returned {} after {} of {} messages (front capacity {}, data {})", kind(&e), got.len(), msgs.len(), rx.front_buf.capacity(), rx.front_buf.available_data()),
                            "every frame <= max is delivered exactly once, in order");
                    }
                }
            }
            if rx.front_buf.capacity() as u64 > max {
                out(true, "random", format!("seed={seed} round={round}"), format!("front capacity {} > max {max}", rx.front_buf.capacity()), "capacity <= max_buffer_size");
            }
        }
        if got != msgs {
            out(true, "random", format!("seed={seed} round={round} init={init} max={max} schedule={}", trace.join(",")),
                format!("delivered {} messages, sent {}; equal prefix: {}", got.len(), msgs.len(), got.iter().zip(&msgs).take_while(|(a, b)| a == b).count()),
                "delivered sequence == sent sequence");
        }
    }
    out(false, "random", String::new(), String::new(), "");
}

fn main() {
    let a: Vec<String> = std::env::args().collect();
    let seed = a.get(2).and_then(|s| s.parse().ok()).unwrap_or(1u64);
    match a.get(1).map(|s| s.as_str()) {
        Some("wedge1") => wedge1(),
        Some("wedge2") => wedge2(),
        _ => random(seed),
    }
}
