//! Replay driver for C04 (unit U-router): the REAL sozu_lib::router::Router.
//! usage: c04_router equals-identity | order
//!  equals-identity: an EQUALS-path tree frontend, once removed, must not route any request; re-adding the
//!                   identical frontend must be refused as a duplicate.
//!  order:           for pairs of tree rules on one host, the route chosen for a request must not depend on the
//!                   order in which the two rules were added, and must follow the documented precedence
//!                   (EQUALS over REGEX over longest PREFIX; method-specific over method-agnostic).
use sozu_lib::{
    protocol::http::parser::Method,
    router::{MethodRule, PathRule, Route, Router},
};

fn out(found: bool, scenario: &str, input: String, observed: String, required: &str) -> ! {
    println!("{{\"found\": {found}, \"scenario\": \"{scenario}\", \"input\": {input:?}, \"observed\": {observed:?}, \"required\": {required:?}}}");
    std::process::exit(0)
}

fn cluster_of(r: &Router, host: &str, path: &str, method: &Method) -> String {
    match r.lookup(host, path, method) {
        Ok(rr) => format!("{:?}", rr.cluster_id),
        Err(_) => "no-route".to_string(),
    }
}

fn equals_identity() {
    let mut r = Router::new();
    let p = PathRule::Equals("/a".to_string());
    let m = MethodRule::new(None);
    let get = Method::Get;
    assert!(r.add_tree_rule(b"example.com", &p, &m, &Route::ClusterId("removed-cluster".into())));
    let before = cluster_of(&r, "example.com", "/a", &get);
    let dup_accepted = r.add_tree_rule(b"example.com", &PathRule::Equals("/a".to_string()), &m, &Route::ClusterId("dup".into()));
    let removed = r.remove_tree_rule(b"example.com", &PathRule::Equals("/a".to_string()), &m);
    let after = cluster_of(&r, "example.com", "/a", &get);
    if after != "no-route" || dup_accepted {
        out(true, "equals-identity",
            "add_tree_rule(example.com, EQUALS /a, any method, cluster removed-cluster); add the identical rule again; remove_tree_rule(example.com, EQUALS /a, any method); lookup GET example.com/a".into(),
            format!("before removal -> {before}; identical re-add accepted = {dup_accepted}; remove returned {removed}; after removal -> {after}"),
            "after a frontend is removed no request is routed by it; an identical frontend is a duplicate");
    }
}

fn order() {
    let get = Method::Get;
    let any = || MethodRule::new(None);
    let only_get = || MethodRule::new(Some("GET".to_string()));
    // (description, rule A, rule B, probe path, expected winner by documented precedence)
    let cases: Vec<(&str, (PathRule, MethodRule), (PathRule, MethodRule), &str, &str)> = vec![
        ("PREFIX /p GET-only  vs  PREFIX /p any-method", (PathRule::Prefix("/p".into()), only_get()), (PathRule::Prefix("/p".into()), any()), "/p/x", "A"),
        ("EQUALS /e GET-only  vs  REGEX ^/e$ GET-only", (PathRule::Equals("/e".into()), only_get()), (PathRule::Regex(regex::bytes::Regex::new("\\A/e\\z").unwrap()), only_get()), "/e", "A"),
        ("EQUALS /q any-method  vs  PREFIX /q any-method", (PathRule::Equals("/q".into()), any()), (PathRule::Prefix("/q".into()), any()), "/q", "A"),
        ("PREFIX /long/er any  vs  PREFIX /long any", (PathRule::Prefix("/long/er".into()), any()), (PathRule::Prefix("/long".into()), any()), "/long/er/x", "A"),
    ];
    for (desc, a, b, path, expected) in cases {
        let mut r1 = Router::new();
        r1.add_tree_rule(b"h.example", &a.0, &a.1, &Route::ClusterId("A".into()));
        r1.add_tree_rule(b"h.example", &b.0, &b.1, &Route::ClusterId("B".into()));
        let mut r2 = Router::new();
        r2.add_tree_rule(b"h.example", &b.0, &b.1, &Route::ClusterId("B".into()));
        r2.add_tree_rule(b"h.example", &a.0, &a.1, &Route::ClusterId("A".into()));
        let c1 = cluster_of(&r1, "h.example", path, &get);
        let c2 = cluster_of(&r2, "h.example", path, &get);
        let want = format!("Some(\"{expected}\")");
        if c1 != c2 || c1 != want {
            out(true, "order",
                format!("host h.example, rules A = first, B = second of: {desc}; probe GET {path}"),
                format!("added A then B -> {c1}; added B then A -> {c2}"),
                "the chosen frontend follows the documented precedence (here: A) and never depends on the order in which tree frontends were added");
        }
    }
}

// pre / post rules are first-wins in list order: removing a rule that a request never matched must not change that
// request's route, and the route must equal the one of a router that never saw the removed rule
fn prepost() {
    use sozu_command_lib::{proto::command::{PathRule as PbPathRule, RulePosition}, response::HttpFrontend};
    let front = |position: RulePosition, hostname: &str, prefix: &str, cluster: &str| HttpFrontend {
        address: "127.0.0.1:8080".parse().unwrap(), hostname: hostname.to_owned(), path: PbPathRule::prefix(prefix.to_owned()),
        method: None, position, cluster_id: Some(cluster.to_owned()), tags: None, redirect: None, redirect_scheme: None,
        redirect_template: None, rewrite_host: None, rewrite_path: None, rewrite_port: None, required_auth: None,
        headers: Vec::new(), hsts: None,
    };
    let get = Method::Get;
    for position in [RulePosition::Pre, RulePosition::Post] {
        // every way of adding 4 rules and removing one of them, probed with every host/path that some rule matches
        let rules = [("unrelated.example.org", "/", "cluster_a"), ("www.example.com", "/api", "cluster_b"),
                     ("*.example.com", "/", "cluster_c"), ("www.example.com", "/", "cluster_d")];
        let probes = [("www.example.com", "/api/v1"), ("www.example.com", "/x"), ("img.example.com", "/"), ("unrelated.example.org", "/")];
        for removed in 0..rules.len() {
            let mut full = Router::new();
            let mut reference = Router::new();
            for (i, (h, p, c)) in rules.iter().enumerate() {
                let f = front(position, h, p, c);
                let _ = full.add_http_front(&f);
                if i != removed { let _ = reference.add_http_front(&f); }
            }
            let (h, p, c) = rules[removed];
            let _ = full.remove_http_front(&front(position, h, p, c));
            for (ph, pp) in probes {
                let a = cluster_of(&full, ph, pp, &get);
                let b = cluster_of(&reference, ph, pp, &get);
                if a != b {
                    out(true, "prepost",
                        format!("{position:?} rules added in order {rules:?}; rule #{removed} removed; lookup GET {ph}{pp}"),
                        format!("routed to {a}; a router that was only ever given the three remaining rules (same order) routes to {b}"),
                        "the route depends only on the configured frontends, not on the history of additions and removals");
                }
            }
        }
    }
}

fn main() {
    let a: Vec<String> = std::env::args().collect();
    match a.get(1).map(|s| s.as_str()) {
        Some("equals-identity") => equals_identity(),
        Some("order") => order(),
        Some("prepost") => prepost(),
        _ => { equals_identity(); order(); prepost(); }
    }
    out(false, a.get(1).map(|s| s.as_str()).unwrap_or("all"), String::new(), String::new(), "");
}
