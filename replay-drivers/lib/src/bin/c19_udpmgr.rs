//! Replay driver for C19 (unit U-udpmgr): the REAL sozu_lib::protocol::udp::UdpManager through its public API.
//! usage: c19_udpmgr cap | sticky
//! Explores every sequence of up to 7 operations over {new client datagram, datagram on an existing flow,
//! SetMaxFlows(0..=4), abort the oldest flow, Drain} from a cap of 3 and checks, after each step, against a
//! reference model of the cap: a datagram from an untracked source creates a flow iff the manager is not draining
//! and live < cap in force (the value last given to SetMaxFlows); it creates at most one; reconfiguration and
//! shed datagrams never change the live count.
use std::{
    net::{IpAddr, Ipv4Addr, SocketAddr},
    time::{Duration, Instant},
};

use sozu_lib::protocol::udp::{CloseReason, ClusterConfig, ConfigEvent, FlowId, ManagerInput, Output, UdpManager};

fn out(found: bool, scenario: &str, input: String, observed: String, required: &str) -> ! {
    println!("{{\"found\": {found}, \"scenario\": \"{scenario}\", \"input\": {input:?}, \"observed\": {observed:?}, \"required\": {required:?}}}");
    std::process::exit(0)
}
const REQUIRED: &str = "a new flow is admitted iff not draining and live flows < the cap in force; excess new flows are shed, existing flows continue";

fn client(n: u8) -> SocketAddr { SocketAddr::new(IpAddr::V4(Ipv4Addr::new(10, 0, 0, n)), 4000 + n as u16) }
fn backend() -> SocketAddr { SocketAddr::new(IpAddr::V4(Ipv4Addr::new(127, 0, 0, 1)), 5300) }
fn drain(m: &mut UdpManager) -> Vec<Output> { let mut v = Vec::new(); while let Some(o) = m.poll_output() { v.push(o); } v }

#[derive(Clone, Copy, Debug)]
enum Op { New, Existing, SetMax(usize), AbortOldest, Drain }

fn run(seq: &[Op]) -> Option<String> {
    let cfg = ClusterConfig { cluster: "c".to_owned(), affinity_with_port: true, front_timeout: Duration::from_secs(30),
                              back_timeout: Duration::from_secs(30), ..Default::default() };
    let mut m = UdpManager::new(cfg, 3, 65535, 7);
    let now = Instant::now();
    let (mut cap, mut draining, mut next_client) = (3usize, false, 1u8);
    let mut live: Vec<(FlowId, SocketAddr)> = Vec::new();
    for (i, op) in seq.iter().enumerate() {
        let before = m.flow_count();
        match *op {
            Op::New => {
                let src = client(next_client); next_client += 1;
                m.handle_input(ManagerInput::ClientDatagram { src, payload: b"x" }, now);
                let outs = drain(&mut m);
                let admitted = outs.iter().find_map(|o| match o { Output::SelectBackend { flow, .. } => Some(*flow), _ => None });
                let should = !draining && before < cap;
                if admitted.is_some() != should || m.flow_count() != before + should as usize {
                    return Some(format!("step {i} ({op:?}): live before = {before}, cap in force = {cap}, draining = {draining}: admitted = {}, live after = {}", admitted.is_some(), m.flow_count()));
                }
                if let Some(f) = admitted {
                    m.handle_input(ManagerInput::BackendResolved { flow: f, backend: "b".to_owned(), addr: backend() }, now);
                    drain(&mut m);
                    live.push((f, src));
                }
            }
            Op::Existing => {
                if let Some(&(_, src)) = live.first() {
                    m.handle_input(ManagerInput::ClientDatagram { src, payload: b"again" }, now);
                    let outs = drain(&mut m);
                    let fwd = outs.iter().any(|o| matches!(o, Output::SendToBackend(t) if t.dst == backend()));
                    if !fwd || m.flow_count() != before {
                        return Some(format!("step {i} ({op:?}): existing flow not served (forwarded = {fwd}, live {before} -> {})", m.flow_count()));
                    }
                }
            }
            Op::SetMax(n) => {
                m.handle_input(ManagerInput::Config(ConfigEvent::SetMaxFlows(n)), now);
                drain(&mut m);
                cap = n;
                if m.flow_count() != before || m.max_flows() != n {
                    return Some(format!("step {i} ({op:?}): live {before} -> {}, max_flows() = {}", m.flow_count(), m.max_flows()));
                }
            }
            Op::AbortOldest => {
                if !live.is_empty() {
                    let (f, _) = live.remove(0);
                    m.abort_flow(f, now, CloseReason::Aborted);
                    let closes = drain(&mut m).iter().filter(|o| matches!(o, Output::CloseFlow(_))).count();
                    if closes != 1 || m.flow_count() != before - 1 {
                        return Some(format!("step {i} ({op:?}): {closes} CloseFlow outputs, live {before} -> {}", m.flow_count()));
                    }
                }
            }
            Op::Drain => {
                m.handle_input(ManagerInput::Config(ConfigEvent::Drain), now);
                drain(&mut m);
                draining = true;
                if m.flow_count() != before { return Some(format!("step {i} ({op:?}): live {before} -> {}", m.flow_count())); }
            }
        }
    }
    None
}

fn sticky() {
    // two clients, each resolved to its own backend; every datagram / reply must go to the flow's own peer, intact,
    // once; a late or duplicate resolution towards another address must not rebind a flow
    const REQ: &str = "datagrams of a flow go to one and the same backend, replies only to that flow's client, never duplicated or altered";
    let cfg = ClusterConfig { cluster: "c".to_owned(), affinity_with_port: true, front_timeout: Duration::from_secs(30),
                              back_timeout: Duration::from_secs(30), ..Default::default() };
    let b = |n: u8| SocketAddr::new(IpAddr::V4(Ipv4Addr::new(127, 0, 0, n)), 5300);
    #[derive(Clone, Copy, Debug)]
    enum S { C(usize), R(usize), Late(usize), Dup(usize) }
    let steps = [S::C(0), S::C(1), S::R(0), S::R(1), S::Late(0), S::Dup(1)];
    let depth = 5;
    let mut idx = vec![0usize; depth];
    let mut n = 0u64;
    loop {
        let seq: Vec<S> = idx.iter().map(|&i| steps[i]).collect();
        n += 1;
        let mut m = UdpManager::new(cfg.clone(), 8, 65535, 7);
        let now = Instant::now();
        let mut flows: Vec<FlowId> = Vec::new();
        for c in 0..2usize {
            m.handle_input(ManagerInput::ClientDatagram { src: client(1 + c as u8), payload: b"first" }, now);
            let f = drain(&mut m).iter().find_map(|o| match o { Output::SelectBackend { flow, .. } => Some(*flow), _ => None }).expect("admitted");
            m.handle_input(ManagerInput::BackendResolved { flow: f, backend: format!("b{c}"), addr: b(1 + c as u8) }, now);
            drain(&mut m);
            flows.push(f);
        }
        for (i, st) in seq.iter().enumerate() {
            let payload = format!("p{i}").into_bytes();
            let bad = |what: String| -> ! { out(true, "sticky", format!("2 clients resolved to 127.0.0.1 / 127.0.0.2; {seq:?}"), format!("step {i} ({st:?}): {what}"), REQ) };
            match *st {
                S::C(c) => {
                    m.handle_input(ManagerInput::ClientDatagram { src: client(1 + c as u8), payload: &payload }, now);
                    let outs = drain(&mut m);
                    let sends: Vec<_> = outs.iter().filter_map(|o| match o { Output::SendToBackend(t) => Some(t.clone()), _ => None }).collect();
                    if outs.iter().any(|o| matches!(o, Output::SendToClient(_))) { bad("a client datagram produced a SendToClient".into()) }
                    if sends.len() != 1 || sends[0].dst != b(1 + c as u8) || sends[0].payload != payload { bad(format!("SendToBackend outputs = {sends:?}, expected exactly one to {} carrying {payload:?}", b(1 + c as u8))) }
                }
                S::R(c) => {
                    m.handle_input(ManagerInput::BackendDatagram { flow: flows[c], payload: &payload }, now);
                    let outs = drain(&mut m);
                    let sends: Vec<_> = outs.iter().filter_map(|o| match o { Output::SendToClient(t) => Some(t.clone()), _ => None }).collect();
                    if outs.iter().any(|o| matches!(o, Output::SendToBackend(_))) { bad("a backend reply produced a SendToBackend".into()) }
                    if sends.len() != 1 || sends[0].dst != client(1 + c as u8) || sends[0].payload != payload { bad(format!("SendToClient outputs = {sends:?}, expected exactly one to {} carrying {payload:?}", client(1 + c as u8))) }
                }
                S::Late(c) | S::Dup(c) => {
                    m.handle_input(ManagerInput::BackendResolved { flow: flows[c], backend: "other".to_owned(), addr: b(9) }, now);
                    let outs = drain(&mut m);
                    if outs.iter().any(|o| matches!(o, Output::SendToBackend(_) | Output::SendToClient(_) | Output::OpenUpstream { .. })) { bad(format!("a duplicate resolution produced {outs:?}")) }
                }
            }
        }
        let mut k = depth;
        loop {
            if k == 0 { out(false, "sticky", format!("all {n} sequences of {depth} steps over 2 flows"), "every datagram went to its flow's own peer, once, intact".into(), REQ); }
            k -= 1;
            idx[k] += 1;
            if idx[k] < steps.len() { break; }
            idx[k] = 0;
        }
    }
}

fn cap() {
    let ops = [Op::New, Op::Existing, Op::SetMax(0), Op::SetMax(1), Op::SetMax(2), Op::SetMax(4), Op::AbortOldest, Op::Drain];
    let depth = 6;
    let mut idx = vec![0usize; depth];
    let mut n = 0u64;
    loop {
        let seq: Vec<Op> = idx.iter().map(|&i| ops[i]).collect();
        n += 1;
        if let Some(obs) = run(&seq) {
            out(true, "cap", format!("UdpManager::new(cap 3); {seq:?}"), obs, REQUIRED);
        }
        let mut k = depth;
        loop {
            if k == 0 { out(false, "cap", format!("all {n} sequences of {depth} operations"), "the cap model was followed".into(), REQUIRED); }
            k -= 1;
            idx[k] += 1;
            if idx[k] < ops.len() { break; }
            idx[k] = 0;
        }
    }
}

fn main() {
    match std::env::args().nth(1).as_deref() {
        Some("sticky") => sticky(),
        _ => cap(),
    }
}
