//! Bounded native enumeration for C03, HTTP/1.1 front (unit N-h1): raw request bytes go through what sozu's H1 front does
//! with them — kawa's H1 parser driven with the REAL HttpContext callbacks, the acceptance test of mux/h1.rs (parse error,
//! or a message without method / authority / path => 400, nothing forwarded) and kawa's H1 converter towards the backend —
//! and an independent strict RFC 9112 reader (written for this unit) reads BOTH the client's bytes and the forwarded
//! bytes. usage: c03_h1 quick | thorough
//! For every request line shape x ordered selection of up to 2 (thorough: 3) header lines out of a pool of smuggling
//! shapes (conflicting / malformed / duplicated Content-Length, Transfer-Encoding variants, CL+TE, obs-fold, bare LF, NUL,
//! space before the colon, duplicate Host) x CRLF / bare-LF line ends, when sozu accepts the request:
//!   - what it forwards is one well-formed request head for the strict reader (token method, no SP / CTL in the target,
//!     token field names, no CR / LF / NUL in values);
//!   - its framing says what sozu believes (kawa.body_size): Length(n) <=> every Content-Length is n and there is no
//!     Transfer-Encoding; Chunked <=> exactly `Transfer-Encoding: chunked` and no Content-Length; Empty <=> neither (or 0);
//!   - when the client's own bytes are strictly well-formed and unambiguous, sozu read them as the strict reader does
//!     (same method, target and framing);
//!   - every forwarded field line is one the client sent (same value up to white space) or one sozu adds.
use std::net::SocketAddr;
use sozu_lib::{pool::Pool, protocol::kawa_h1::editor::HttpContext, Protocol};

#[derive(Debug)]
struct Head { method: String, target: String, fields: Vec<(String, Vec<u8>)>, len: usize }
fn is_tchar(b: u8) -> bool { b.is_ascii_alphanumeric() || b"!#$%&'*+-.^_`|~".contains(&b) }
fn strict_read(wire: &[u8]) -> Result<Head, String> {
    let end = wire.windows(4).position(|w| w == b"\r\n\r\n").ok_or("no empty line ends the header section")?;
    let head = &wire[..end];
    let mut lines: Vec<&[u8]> = Vec::new();
    let (mut i, mut start) = (0, 0);
    while i < head.len() {
        if head[i] == b'\r' { if i + 1 < head.len() && head[i + 1] == b'\n' { lines.push(&head[start..i]); i += 2; start = i; continue; } return Err("a bare CR inside the header section".into()); }
        if head[i] == b'\n' { return Err("a bare LF inside the header section".into()); }
        i += 1;
    }
    lines.push(&head[start..]);
    let parts: Vec<&[u8]> = lines[0].split(|b| *b == b' ').collect();
    if parts.len() != 3 { return Err(format!("request line {:?} does not have exactly three space-separated parts", String::from_utf8_lossy(lines[0]))); }
    if parts[0].is_empty() || !parts[0].iter().all(|b| is_tchar(*b)) { return Err(format!("method {:?} is not a token", String::from_utf8_lossy(parts[0]))); }
    if parts[1].is_empty() || parts[1].iter().any(|b| *b <= 0x20 || *b == 0x7f) { return Err(format!("request target {:?} is empty or has a space / control octet", String::from_utf8_lossy(parts[1]))); }
    if parts[2] != b"HTTP/1.1" && parts[2] != b"HTTP/1.0" { return Err(format!("version {:?}", String::from_utf8_lossy(parts[2]))); }
    let mut fields = Vec::new();
    for l in &lines[1..] {
        let c = l.iter().position(|b| *b == b':').ok_or_else(|| format!("field line {:?} has no colon", String::from_utf8_lossy(l)))?;
        let (n, v) = (&l[..c], &l[c + 1..]);
        if n.is_empty() || !n.iter().all(|b| is_tchar(*b)) { return Err(format!("field name {:?} is not a token", String::from_utf8_lossy(n))); }
        if v.iter().any(|b| (*b < 0x20 && *b != b'\t') || *b == 0x7f) { return Err(format!("field {:?} has a control octet in its value", String::from_utf8_lossy(n))); }
        let s = String::from_utf8_lossy(v).into_owned();
        fields.push((String::from_utf8_lossy(n).to_ascii_lowercase(), s.trim_matches(|c| c == ' ' || c == '\t').as_bytes().to_vec()));
    }
    Ok(Head { method: String::from_utf8_lossy(parts[0]).into_owned(), target: String::from_utf8_lossy(parts[1]).into_owned(), fields, len: end + 4 })
}
#[derive(Debug, PartialEq, Clone, Copy)]
enum Framing { Empty, Length(usize), Chunked }
/// How an RFC 9112 conforming backend frames a request head (§6.3). Err = it answers 400 / 501 and closes: no second
/// reading exists. `both` reports Content-Length next to a final-chunked Transfer-Encoding (an intermediary MUST NOT
/// forward that: §6.3 rule 3).
fn strict_framing(h: &Head) -> Result<(Framing, bool), String> {
    let cls: Vec<String> = h.fields.iter().filter(|(n, _)| n == "content-length").map(|(_, v)| String::from_utf8_lossy(v).into_owned()).collect();
    let tes: Vec<String> = h.fields.iter().filter(|(n, _)| n == "transfer-encoding").flat_map(|(_, v)| String::from_utf8_lossy(v).split(',').map(|t| t.trim_matches(|c| c == ' ' || c == '\t').to_ascii_lowercase()).collect::<Vec<_>>()).collect();
    if cls.iter().any(|c| c.is_empty() || !c.bytes().all(|b| b.is_ascii_digit())) { return Err(format!("Content-Length {cls:?} is not 1*DIGIT")); }
    let vals: Vec<Option<usize>> = cls.iter().map(|c| c.parse::<usize>().ok()).collect();
    if vals.iter().any(|v| v.is_none() || *v != vals[0]) { return Err(format!("Content-Length values {cls:?} differ or overflow")); }
    if !tes.is_empty() {
        if tes.iter().any(|t| t.is_empty() || !t.bytes().all(is_tchar)) { return Err(format!("Transfer-Encoding {tes:?} is not a list of tokens")); }
        if tes.last().map(|t| t.as_str()) != Some("chunked") { return Err(format!("Transfer-Encoding {tes:?} does not end in chunked")); }
        if tes.iter().filter(|t| *t == "chunked").count() > 1 { return Err(format!("Transfer-Encoding {tes:?} applies chunked more than once")); }
        return Ok((Framing::Chunked, !cls.is_empty()));
    }
    if cls.is_empty() { return Ok((Framing::Empty, false)); }
    Ok((Framing::Length(vals[0].unwrap()), false))
}
fn squeeze(v: &[u8]) -> String { String::from_utf8_lossy(v).split(|c: char| c == ' ' || c == '\t' || c == '\r' || c == '\n').filter(|s| !s.is_empty()).collect::<Vec<_>>().join(" ") }

const SOZU_ADDS: [&str; 9] = ["x-forwarded-for", "forwarded", "x-forwarded-proto", "x-forwarded-port", "x-request-id", "sozu-id", "connection", "x-real-ip", "via"];

fn run(input: &[u8]) -> Result<bool, String> {
    let mut pool = Pool::with_capacity(1, 2, 16384);
    let mut kawa = kawa::Kawa::new(kawa::Kind::Request, kawa::Buffer::new(pool.checkout().ok_or("driver: pool")?));
    kawa.storage.space()[..input.len()].copy_from_slice(input);
    kawa.storage.fill(input.len());
    let peer: SocketAddr = "203.0.113.7:51000".parse().unwrap();
    let public: SocketAddr = "198.51.100.1:8080".parse().unwrap();
    let mut ctx = HttpContext::new(rusty_ulid::Ulid::generate(), rusty_ulid::Ulid::generate(), Protocol::HTTP, public, Some(peer), "SOZUBALANCEID".into(), "Sozu-Id".into(), false, false);
    kawa::h1::parse(&mut kawa, &mut ctx);
    if kawa.is_error() || !kawa.is_main_phase() { return Ok(false); }
    let _ = &ctx;
    if ctx.method.is_none() || ctx.authority.is_none() || ctx.path.is_none() { return Ok(false); }   // mux/h1.rs answers 400
    let body_size = kawa.body_size;
    kawa.prepare(&mut kawa::h1::BlockConverter);
    let mut wire = Vec::new();
    for ob in kawa.out.iter() { if let kawa::OutBlock::Store(s) = ob { wire.extend_from_slice(s.data(kawa.storage.buffer())); } }
    let shown = |w: &[u8]| String::from_utf8_lossy(&w[..w.len().min(400)]).into_owned();
    let out = strict_read(&wire).map_err(|e| format!("sozu forwards a malformed request head (a conforming backend answers 400): {e}; forwarded: {:?}", shown(&wire)))?;
    let believed = match body_size { kawa::BodySize::Empty => Framing::Empty, kawa::BodySize::Chunked => Framing::Chunked, kawa::BodySize::Length(n) => Framing::Length(n) };
    let same = |a: Framing, b: Framing| a == b || matches!((a, b), (Framing::Empty, Framing::Length(0)) | (Framing::Length(0), Framing::Empty));
    match strict_framing(&out) {
        // a conforming backend refuses the request: there is no second reading; only a malformed Content-Length is reported
        // (sozu wrote a field no grammar allows), an unknown / repeated transfer coding is the backend's to refuse
        Err(e) => if e.starts_with("Content-Length") { return Err(format!("sozu forwards a malformed request head (a conforming backend answers 400): {e}; forwarded: {:?}", shown(&wire))); },
        Ok((fo, both)) => {
            if !same(fo, believed) { return Err(format!("sozu frames the body as {believed:?}, a conforming backend reads {fo:?}; forwarded: {:?}", shown(&wire))); }
            if both { return Err(format!("sozu forwards Content-Length next to Transfer-Encoding: chunked (RFC 9112 §6.3: an intermediary must remove it); forwarded: {:?}", shown(&wire))); }
        }
    }
    if let Ok(inp) = strict_read(input) {
        if let Ok((fi, both)) = strict_framing(&inp) {
            if inp.method != out.method || (inp.target != out.target && !inp.target.contains("://")) { return Err(format!("the client sent {} {}, the backend reads {} {}", inp.method, inp.target, out.method, out.target)); }
            if !both && !same(fi, believed) { return Err(format!("the client's bytes are well-formed and framed as {fi:?}, sozu reads {believed:?}")); }
            let hi: Vec<&Vec<u8>> = inp.fields.iter().filter(|(n, _)| n == "host").map(|(_, v)| v).collect();
            let ho: Vec<&Vec<u8>> = out.fields.iter().filter(|(n, _)| n == "host").map(|(_, v)| v).collect();
            if hi.len() == 1 && !inp.target.contains("://") && (ho.len() != 1 || ho[0] != hi[0]) { return Err(format!("the client's Host is {:?}, the backend reads {:?}", squeeze(hi[0]), ho.iter().map(|h| squeeze(h)).collect::<Vec<_>>())); }
        }
    }
    if believed == Framing::Empty && wire.len() > out.len {
        return Err(format!("sozu reads a request without a body, yet relays the {} octets that follow its header section to the backend as opaque bytes; forwarded: {:?}", wire.len() - out.len, shown(&wire)));
    }
    // every forwarded line is the client's (value up to white space) or sozu's own
    let head_end = input.windows(4).position(|w| w == b"\r\n\r\n").map(|p| p + 4).or_else(|| input.windows(2).position(|w| w == b"\n\n").map(|p| p + 2)).unwrap_or(input.len());
    let client_head = squeeze(&input[..head_end]).to_ascii_lowercase();
    for (n, v) in &out.fields {
        if SOZU_ADDS.contains(&n.as_str()) { continue; }
        let line = format!("{n}: {}", squeeze(v)).to_ascii_lowercase();
        let line2 = format!("{n}:{}", squeeze(v)).to_ascii_lowercase();
        if !client_head.contains(&line) && !client_head.contains(&line2) && !(squeeze(v).is_empty() && client_head.contains(&format!("{n}:"))) {
            return Err(format!("the backend sees a field line {:?} that the client did not send as such; forwarded: {:?}", format!("{n}: {}", squeeze(v)), shown(&wire)));
        }
    }
    Ok(true)
}

fn main() {
    let tier = std::env::args().nth(1).unwrap_or_else(|| "quick".into());
    let thorough = tier == "thorough";
    let request_lines: Vec<&[u8]> = vec![b"GET /x HTTP/1.1", b"POST /x?y=1 HTTP/1.1", b"GET  /x HTTP/1.1", b"GET /x HTTP/1.0", b"GET /x HTTP/1.1 ", b"GET /a b HTTP/1.1", b"GET http://a.example/x HTTP/1.1",
                                       b"GET /x\tHTTP/1.1", b"G\0ET /x HTTP/1.1", b"GET /x HTTP/1.1\r\nX-Injected: 1", b" GET /x HTTP/1.1", b"GET /x HTTP/2.0", b"GET /\xc3\xa9 HTTP/1.1"];
    let pool: Vec<&[u8]> = vec![
        b"Content-Length: 5", b"Content-Length: 5", b"Content-Length: 6", b"Content-Length: 0", b"Content-Length: +5", b"Content-Length: 5, 5", b"Content-Length: 5, 6", b"Content-Length: 0x5",
        b"Content-Length : 5", b" Content-Length: 5", b"Content-Length:\t5", b"Content-Length: 5 ", b"Content-length: 05", b"Content-Length: 18446744073709551616", b"Content-Length:", b"Content_Length: 9",
        b"Transfer-Encoding: chunked", b"Transfer-Encoding: chunked, chunked", b"Transfer-Encoding: gzip, chunked", b"Transfer-Encoding: identity", b"Transfer-Encoding: xchunked", b"Transfer-Encoding : chunked",
        b"Transfer-Encoding:\x0bchunked", b"Transfer-Encoding: Chunked", b"transfer-encoding: chunked", b"Transfer-Encoding: chunked\t", b"Transfer-Encoding:\n chunked", b"Transfer-Encoding: \"chunked\"",
        b"Host: evil.example", b"X-Ok: v", b"X-Fold: a\r\n b", b"X-Bare-LF: a\nInjected: 1", b"X-NUL: a\0b", b"X-CR: a\rb", b"Connection: close", b"Connection: keep-alive, X-Ok", b"X Bad: v", b": empty-name", b"X-Ok:v",
    ];
    let k = pool.len();
    let mut selections: Vec<Vec<usize>> = vec![vec![]];
    for a in 0..k { selections.push(vec![a]); for b in 0..k { if a != b { selections.push(vec![a, b]); } } }
    if thorough { for a in 0..k { for b in (a + 1)..k { for c in 0..k { if c != a && c != b { selections.push(vec![a, b, c]); selections.push(vec![c, a, b]); } } } } }
    let tail: &[u8] = b"5\r\nhello\r\n0\r\n\r\nGET /smuggled HTTP/1.1\r\nHost: a.example\r\n\r\n";
    let (mut n, mut accepted, mut fails): (u64, u64, Vec<(String, String)>) = (0, 0, Vec::new());
    let mut shapes = std::collections::BTreeSet::new();
    'all: for (ri, rl) in request_lines.iter().enumerate() {
        for sel in &selections {
            if ri > 1 && sel.len() > 1 && !thorough { continue; }
            if ri > 1 && sel.len() > 2 { continue; }
            for host_first in [true, false] {
                for eol in [&b"\r\n"[..], &b"\n"[..]] {
                    if eol == b"\n" && (sel.len() > 1 || !host_first) { continue; }
                    let mut input: Vec<u8> = Vec::new();
                    input.extend_from_slice(rl); input.extend_from_slice(eol);
                    if host_first { input.extend_from_slice(b"Host: a.example"); input.extend_from_slice(eol); }
                    for s in sel { input.extend_from_slice(pool[*s]); input.extend_from_slice(eol); }
                    if !host_first { input.extend_from_slice(b"Host: a.example"); input.extend_from_slice(eol); }
                    input.extend_from_slice(eol);
                    input.extend_from_slice(tail);
                    n += 1;
                    let r = std::panic::catch_unwind(|| run(&input));
                    let r = match r { Ok(r) => r, Err(e) => Err(format!("the real code panicked: {}", e.downcast_ref::<String>().cloned().or_else(|| e.downcast_ref::<&str>().map(|s| s.to_string())).unwrap_or_default())) };
                    match r {
                        Ok(true) => accepted += 1,
                        Ok(false) => {}
                        Err(obs) => {
                            let key: String = obs.split("; forwarded").next().unwrap_or("").chars().take(160).collect();
                            if shapes.insert(key) { fails.push((format!("client bytes {:?}", String::from_utf8_lossy(&input[..input.len() - tail.len()])), obs)); }
                            if fails.len() >= 8 { break 'all; }
                        }
                    }
                }
            }
        }
    }
    std::panic::set_hook(Box::new(|_| {}));
    let fl: Vec<String> = fails.iter().map(|(i, o)| format!("{{\"input\": {:?}, \"observed\": {:?}}}", i, o)).collect();
    println!("{{\"bound\": \"{} request-line shapes x ordered selections of up to {} header lines out of {k} smuggling shapes x Host first / last x CRLF / bare LF\", \"states\": {n}, \"pairs\": {n}, \"nontrivial_pairs\": {accepted}, \"failures\": [{}]}}", request_lines.len(), if thorough { 3 } else { 2 }, fl.join(", "));
}
