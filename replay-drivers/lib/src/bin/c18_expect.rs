//! Replay driver for C18 (unit U-ppexpect): the REAL ExpectProxyProtocol over a real loopback TCP connection.
//! usage: c18_expect overread
//! A client sends a well-formed PROXY v2 header immediately followed by payload bytes, in ONE write. The expect
//! state must answer Upgrade having taken exactly the header from the socket: every payload byte is still there
//! for whatever takes the connection over (the TCP relay, or the HTTP/HTTPS state machines, which cannot be handed
//! pre-read bytes).
use std::{io::{Read, Write}, net::{TcpListener, TcpStream as StdTcpStream}, time::Duration};

use mio::{net::TcpStream, Token};
use sozu_lib::{protocol::proxy_protocol::expect::ExpectProxyProtocol, timer::TimeoutContainer, SessionMetrics, SessionResult};

fn out(found: bool, scenario: &str, input: String, observed: String, required: &str) -> ! {
    println!("{{\"found\": {found}, \"scenario\": \"{scenario}\", \"input\": {input:?}, \"observed\": {observed:?}, \"required\": {required:?}}}");
    std::process::exit(0)
}
const REQUIRED: &str = "expect mode takes exactly the PROXY header from the client's byte stream: no payload byte is swallowed with it";
const SIG: [u8; 12] = [0x0D, 0x0A, 0x0D, 0x0A, 0x00, 0x0D, 0x0A, 0x51, 0x55, 0x49, 0x54, 0x0A];

fn header(kind: &str) -> Vec<u8> {
    let mut h = SIG.to_vec();
    match kind {
        "local-unspec" => h.extend_from_slice(&[0x20, 0x00, 0x00, 0x00]),
        "ipv4-tlv" => {
            h.extend_from_slice(&[0x21, 0x11, 0x00, 19, 192, 0, 2, 1, 192, 0, 2, 2, 0x1F, 0x90, 0x00, 0x50]);
            h.extend_from_slice(&[0x04, 0x00, 0x04, 0, 0, 0, 0]);
        }
        "ipv6" => {
            h.extend_from_slice(&[0x21, 0x21, 0x00, 36]);
            h.extend_from_slice(&[0x20, 0x01, 0x0d, 0xb8, 0, 0, 0, 0, 0, 0, 0, 0, 0, 0, 0, 1]);
            h.extend_from_slice(&[0x20, 0x01, 0x0d, 0xb8, 0, 0, 0, 0, 0, 0, 0, 0, 0, 0, 0, 2]);
            h.extend_from_slice(&[0x1F, 0x90, 0x00, 0x50]);
        }
        _ => h.extend_from_slice(&[0x21, 0x11, 0x00, 12, 192, 0, 2, 1, 192, 0, 2, 2, 0x1F, 0x90, 0x00, 0x50]),
    }
    h
}

fn run(kind: &str, payload_len: usize) -> Option<String> {
    let listener = TcpListener::bind("127.0.0.1:0").ok()?;
    let mut client = StdTcpStream::connect(listener.local_addr().ok()?).ok()?;
    let (server, _) = listener.accept().ok()?;
    let payload: Vec<u8> = (0..payload_len).map(|i| b'a' + (i % 26) as u8).collect();
    let mut msg = header(kind);
    let header_len = msg.len();
    msg.extend_from_slice(&payload);
    client.write_all(&msg).ok()?;
    std::thread::sleep(Duration::from_millis(30));
    server.set_nonblocking(true).ok()?;
    let mut st = ExpectProxyProtocol::new(TimeoutContainer::new_empty(Duration::from_secs(5)), TcpStream::from_std(server), Token(1), rusty_ulid::Ulid::generate());
    let mut metrics = SessionMetrics::new(None);
    let mut res = SessionResult::Continue;
    for _ in 0..8 {
        res = st.readable(&mut metrics);
        if res != SessionResult::Continue { break; }
    }
    if res != SessionResult::Upgrade {
        return Some(format!("{kind}: a well-formed {header_len}-byte header followed by {payload_len} payload bytes was answered {res:?} instead of Upgrade"));
    }
    let mut left = Vec::new();
    let mut buf = [0u8; 4096];
    let mut sock = unsafe { <StdTcpStream as std::os::fd::FromRawFd>::from_raw_fd(std::os::fd::AsRawFd::as_raw_fd(st.front_socket())) };
    loop { match sock.read(&mut buf) { Ok(0) => break, Ok(n) => left.extend_from_slice(&buf[..n]), Err(_) => break } }
    std::mem::forget(sock);
    if left != payload {
        return Some(format!("{kind}: header {header_len} bytes + payload {payload_len} bytes sent in one write; the state took {} bytes from the socket before answering Upgrade; {} of the {} payload bytes are left on the socket",
                            metrics.bin, left.len(), payload.len()));
    }
    None
}

fn main() {
    for kind in ["ipv4", "local-unspec", "ipv4-tlv", "ipv6"] {
        for n in [0usize, 1, 5, 12, 40, 300] {
            if let Some(obs) = run(kind, n) {
                out(true, "overread", format!("PROXY v2 header ({kind}) immediately followed by {n} payload bytes, one TCP write"), obs, REQUIRED);
            }
        }
    }
    out(false, "overread", "4 header shapes x 6 payload lengths".into(), "exactly the header was taken every time".into(), REQUIRED);
}
