//! Bounded native enumeration for C02 (unit N-answers): the answers sozu itself generates (the REAL
//! sozu_lib::protocol::kawa_h1::answers::HttpAnswers: template compilation, lookup chain, Template::fill) serialised by
//! kawa's H1 converter as they go to an HTTP/1.1 client. usage: c02_answers quick | thorough
//! For every answer kind (301 302 308 400 401 404 408 413 421 429 502 503 504 507) x template style (built-in default;
//! operator template with its own Content-Length, variables in headers and in the body; operator template with an
//! empty body; operator template framed by Connection: close) x where the template is registered (listener, cluster
//! override) x variable value set (empty, short, long), the rendered answer must be well-formed:
//!   - the status line carries the status of the answer kind, which is also the status `get` reports;
//!   - it carries at most one Content-Length, and if it does the value is exactly the number of body octets sent;
//!   - without Content-Length it is framed by `Connection: close` and `get` reports keep_alive = false; keep_alive is
//!     reported false exactly when the template says Connection: close;
//!   - every placeholder of an operator template is replaced by the value of THAT variable (values are distinct per
//!     variable), once, in headers and body alike; a header whose optional value is empty is dropped, not sent empty;
//!   - the cluster override wins over the listener template for its own cluster only.
use std::collections::BTreeMap;

use sozu_lib::protocol::kawa_h1::{answers::HttpAnswers, DefaultAnswer};

#[derive(Clone)]
struct Kind { name: &'static str, code: u16, vars: Vec<(&'static str, String)>, elidable: Option<&'static str>, answer: DefaultAnswer }

fn val(tag: &str, set: usize) -> String {
    match set { 0 => String::new(), 1 => format!("<{tag}>"), _ => format!("<{tag}:{}>", "x".repeat(200 + tag.len())) }
}

fn kinds(set: usize) -> Vec<Kind> {
    let v = |t: &str| val(t, set);
    let phase = kawa::ParsingPhaseMarker::Headers;
    let cap = [0usize, 7, 1_000_000][set];
    let dur = ["", "30", "3600"][set].to_string();
    let retry = [None, Some(7u32), Some(86_400)][set];
    let retry_s = retry.map(|r| r.to_string()).unwrap_or_default();
    let www = [None, Some("Basic realm=\"x\"".to_string()), Some(format!("Basic realm=\"{}\"", "r".repeat(150)))][set].clone();
    vec![
        Kind { name: "301", code: 301, vars: vec![("REDIRECT_LOCATION", v("loc"))], elidable: None, answer: DefaultAnswer::Answer301 { location: v("loc") } },
        Kind { name: "302", code: 302, vars: vec![("REDIRECT_LOCATION", v("loc"))], elidable: None, answer: DefaultAnswer::Answer302 { location: v("loc") } },
        Kind { name: "308", code: 308, vars: vec![("REDIRECT_LOCATION", v("loc"))], elidable: None, answer: DefaultAnswer::Answer308 { location: v("loc") } },
        Kind { name: "400", code: 400, vars: vec![("MESSAGE", v("msg")), ("SUCCESSFULLY_PARSED", v("ok")), ("PARTIALLY_PARSED", v("part")), ("INVALID", v("bad"))], elidable: None,
               answer: DefaultAnswer::Answer400 { message: v("msg"), phase, successfully_parsed: v("ok"), partially_parsed: v("part"), invalid: v("bad") } },
        Kind { name: "401", code: 401, vars: vec![("WWW_AUTHENTICATE", www.clone().unwrap_or_default())], elidable: Some("WWW_AUTHENTICATE"), answer: DefaultAnswer::Answer401 { www_authenticate: www } },
        Kind { name: "404", code: 404, vars: vec![], elidable: None, answer: DefaultAnswer::Answer404 {} },
        Kind { name: "408", code: 408, vars: vec![("DURATION", dur.clone())], elidable: None, answer: DefaultAnswer::Answer408 { duration: dur.clone() } },
        Kind { name: "413", code: 413, vars: vec![("MESSAGE", v("msg")), ("CAPACITY", cap.to_string())], elidable: None, answer: DefaultAnswer::Answer413 { message: v("msg"), phase, capacity: cap } },
        Kind { name: "421", code: 421, vars: vec![], elidable: None, answer: DefaultAnswer::Answer421 {} },
        Kind { name: "429", code: 429, vars: vec![("CLUSTER_ID", "@cluster".into()), ("RETRY_AFTER", retry_s)], elidable: Some("RETRY_AFTER"), answer: DefaultAnswer::Answer429 { retry_after: retry } },
        Kind { name: "502", code: 502, vars: vec![("CLUSTER_ID", "@cluster".into()), ("BACKEND_ID", "@backend".into()), ("MESSAGE", v("msg")), ("SUCCESSFULLY_PARSED", v("ok")), ("PARTIALLY_PARSED", v("part")), ("INVALID", v("bad"))], elidable: None,
               answer: DefaultAnswer::Answer502 { message: v("msg"), phase, successfully_parsed: v("ok"), partially_parsed: v("part"), invalid: v("bad") } },
        Kind { name: "503", code: 503, vars: vec![("CLUSTER_ID", "@cluster".into()), ("BACKEND_ID", "@backend".into()), ("MESSAGE", v("msg"))], elidable: None, answer: DefaultAnswer::Answer503 { message: v("msg") } },
        Kind { name: "504", code: 504, vars: vec![("CLUSTER_ID", "@cluster".into()), ("BACKEND_ID", "@backend".into()), ("DURATION", dur.clone())], elidable: None, answer: DefaultAnswer::Answer504 { duration: dur } },
        Kind { name: "507", code: 507, vars: vec![("CLUSTER_ID", "@cluster".into()), ("BACKEND_ID", "@backend".into()), ("CAPACITY", cap.to_string()), ("MESSAGE", v("msg"))], elidable: None, answer: DefaultAnswer::Answer507 { phase, message: v("msg"), capacity: cap } },
    ]
}

/// (template text, expected header lines (name, value or None when it must be dropped), expected body) for a style
fn template(k: &Kind, style: usize, route: &str, rid: &str, cluster: Option<&str>, backend: Option<&str>) -> (String, Vec<(String, Option<String>)>, String) {
    let value_of = |name: &str| -> String {
        match name {
            "ROUTE" => route.to_string(),
            "REQUEST_ID" => rid.to_string(),
            "CLUSTER_ID" => cluster.unwrap_or_default().to_string(),
            "BACKEND_ID" => backend.unwrap_or_default().to_string(),
            n => k.vars.iter().find(|(vn, _)| *vn == n).map(|(_, v)| v.clone()).unwrap_or_default(),
        }
    };
    let mut names: Vec<&str> = vec!["ROUTE", "REQUEST_ID"];
    for (n, _) in &k.vars { names.push(n); }
    // one-shot variables (MESSAGE, REDIRECT_LOCATION, WWW_AUTHENTICATE, RETRY_AFTER) may be used once per template: they go
    // to a header when they are elidable or a location, to the body otherwise
    let once_in_header: Vec<&str> = names.iter().copied().filter(|n| matches!(*n, "REDIRECT_LOCATION" | "WWW_AUTHENTICATE" | "RETRY_AFTER")).collect();
    let mut headers: Vec<(String, Option<String>)> = Vec::new();
    let mut head = format!("HTTP/1.1 {} Custom Reason\r\n", k.code);
    let mut body_t = String::new();
    let mut body_e = String::new();
    if style != 2 {
        body_t.push_str("begin|");
        body_e.push_str("begin|");
        for n in &names {
            if once_in_header.contains(n) { continue; }
            body_t.push_str(&format!("{}=%{n};", n.to_lowercase()));
            body_e.push_str(&format!("{}={};", n.to_lowercase(), value_of(n)));
        }
        // a variable used twice (allowed for the shared ones)
        body_t.push_str("again=%REQUEST_ID|end");
        body_e.push_str(&format!("again={rid}|end"));
    }
    if style == 3 { head.push_str("Connection: close\r\n"); } else { head.push_str(&format!("Content-Length: {}\r\n", body_t.len())); }
    head.push_str("X-Route: %ROUTE\r\nSozu-Id: %REQUEST_ID\r\n");
    headers.push(("x-route".into(), Some(route.to_string())));
    headers.push(("sozu-id".into(), Some(rid.to_string())));
    for n in &once_in_header {
        let hname = format!("x-{}", n.to_lowercase().replace('_', "-"));
        head.push_str(&format!("{hname}: %{n}\r\n"));
        let v = value_of(n);
        headers.push((hname, if v.is_empty() && k.elidable == Some(*n) { None } else { Some(v) }));
    }
    head.push_str("X-Static: kept\r\n\r\n");
    headers.push(("x-static".into(), Some("kept".into())));
    (head + &body_t, headers, body_e)
}

fn render(answers: &HttpAnswers, k: &Kind, rid: &str, cluster: Option<&str>, backend: Option<&str>, route: &str) -> (u16, bool, Vec<u8>) {
    let (status, keep_alive, mut kawa) = answers.get(k.answer.clone(), rid.to_string(), cluster, backend, route.to_string());
    kawa.prepare(&mut kawa::h1::BlockConverter);
    let mut out = Vec::new();
    for block in kawa.out.iter() {
        if let kawa::OutBlock::Store(store) = block { out.extend_from_slice(store.data(kawa.storage.buffer())); }
    }
    (status, keep_alive, out)
}

fn check_wire(k: &Kind, status: u16, keep_alive: bool, wire: &[u8], expect: Option<(&[(String, Option<String>)], &str)>) -> Result<(), String> {
    let text = String::from_utf8_lossy(wire).into_owned();
    let Some(split) = wire.windows(4).position(|w| w == b"\r\n\r\n") else { return Err(format!("no end of header section in {text:?}")) };
    let head = String::from_utf8_lossy(&wire[..split]).into_owned();
    let body = &wire[split + 4..];
    let mut lines = head.split("\r\n");
    let sl = lines.next().unwrap_or("");
    let code: Option<u16> = sl.strip_prefix("HTTP/1.1 ").and_then(|r| r.get(..3)).and_then(|c| c.parse().ok());
    if code != Some(k.code) || status != k.code { return Err(format!("status line {sl:?}, get() reported {status}, the answer kind is {}", k.code)); }
    let hs: Vec<(String, String)> = lines.filter_map(|l| l.split_once(':').map(|(a, b)| (a.trim().to_ascii_lowercase(), b.trim().to_string()))).collect();
    let cl: Vec<&String> = hs.iter().filter(|(n, _)| n == "content-length").map(|(_, v)| v).collect();
    let close = hs.iter().any(|(n, v)| n == "connection" && v.eq_ignore_ascii_case("close"));
    if cl.len() > 1 { return Err(format!("{} Content-Length headers", cl.len())); }
    if let Some(v) = cl.first() {
        if v.parse::<usize>().ok() != Some(body.len()) { return Err(format!("Content-Length says {v} but {} body octets are sent", body.len())); }
    } else if !close { return Err("neither Content-Length nor Connection: close: the client cannot tell where the answer ends".into()); }
    if keep_alive == close { return Err(format!("get() reports keep_alive = {keep_alive} but the answer {} Connection: close", if close { "carries" } else { "does not carry" })); }
    if hs.iter().any(|(n, _)| n == "transfer-encoding") { return Err("a generated answer carries Transfer-Encoding".into()); }
    if let Some((headers, ebody)) = expect {
        for (n, v) in headers {
            let got: Vec<&String> = hs.iter().filter(|(hn, _)| hn == n).map(|(_, hv)| hv).collect();
            match v {
                Some(v) => if got.len() != 1 || got[0] != v.trim() { return Err(format!("header {n}: expected exactly one with value {v:?}, got {got:?}")); },
                None => if !got.is_empty() { return Err(format!("header {n} has an empty optional value and must be dropped, got {got:?}")); },
            }
        }
        if body != ebody.as_bytes() { return Err(format!("body {:?}, expected {:?}", String::from_utf8_lossy(body), ebody)); }
    } else {
        for name in ["%ROUTE", "%REQUEST_ID", "%CLUSTER_ID", "%BACKEND_ID", "%MESSAGE", "%REDIRECT_LOCATION", "%DURATION", "%CAPACITY", "%PHASE"] {
            if text.contains(name) { return Err(format!("placeholder {name} was sent to the client unreplaced")); }
        }
    }
    Ok(())
}

fn main() {
    let tier = std::env::args().nth(1).unwrap_or_else(|| "quick".into());
    let sets: Vec<usize> = vec![0, 1, 2];
    let ids: Vec<(&str, Option<&str>, Option<&str>, &str)> = if tier == "thorough" {
        vec![("01HZX", Some("c1"), Some("b1"), "host/path"), ("", None, None, ""), (&"R", Some("c1"), None, "a b"), ("01HZX", Some("other"), Some("b9"), "r")]
    } else {
        vec![("01HZX", Some("c1"), Some("b1"), "host/path"), ("", None, None, ""), ("01HZX", Some("other"), Some("b9"), "r")]
    };
    let (mut n, mut fails): (u64, Vec<(String, String)>) = (0, Vec::new());
    'all: for &set in &sets {
        for k in kinds(set) {
            for &(rid, cluster, backend, route) in &ids {
                // CLUSTER_ID / BACKEND_ID values come from the call, not from the answer
                let mut k = k.clone();
                for (vn, vv) in k.vars.iter_mut() {
                    if *vn == "CLUSTER_ID" { *vv = cluster.unwrap_or_default().to_string(); }
                    if *vn == "BACKEND_ID" { *vv = backend.unwrap_or_default().to_string(); }
                }
                // style 0: built-in default
                for style in 0..4usize {
                    for place in 0..2usize {   // 0: listener template, 1: cluster override for "c1" over a listener template of another style
                        if style == 0 && place == 1 { continue; }
                        let input = format!("answer {} (value set {set}), template style {style} registered {}, request_id {rid:?}, cluster {cluster:?}, backend {backend:?}, route {route:?}", k.name, if place == 0 { "on the listener" } else { "as cluster c1 override" });
                        n += 1;
                        let mut listener: BTreeMap<String, String> = BTreeMap::new();
                        let mut expect: Option<(Vec<(String, Option<String>)>, String)> = None;
                        let other_style = if style == 3 { 1 } else { 3 };
                        if style > 0 {
                            let (t, h, b) = template(&k, style, route, rid, cluster, backend);
                            let (t2, h2, b2) = template(&k, other_style, route, rid, cluster, backend);
                            if place == 0 { listener.insert(k.name.to_string(), t); expect = Some((h, b)); }
                            else {
                                listener.insert(k.name.to_string(), t2);
                                expect = if cluster == Some("c1") { Some((h, b)) } else { Some((h2, b2)) };
                            }
                        }
                        let mut answers = match HttpAnswers::new(&listener) { Ok(a) => a, Err(e) => { fails.push((input, format!("a well-formed operator template was rejected: {e:?}"))); if fails.len() >= 3 { break 'all; } continue; } };
                        if style > 0 && place == 1 {
                            let (t, _, _) = template(&k, style, route, rid, cluster, backend);
                            let mut m = BTreeMap::new(); m.insert(k.name.to_string(), t);
                            if let Err(e) = answers.add_cluster_answers("c1", &m) { fails.push((input, format!("a well-formed cluster template was rejected: {e:?}"))); if fails.len() >= 3 { break 'all; } continue; }
                        }
                        let r = std::panic::catch_unwind(std::panic::AssertUnwindSafe(|| render(&answers, &k, rid, cluster, backend, route)));
                        let res = match r {
                            Err(_) => Err("the real code panicked while rendering".to_string()),
                            Ok((status, keep_alive, wire)) => check_wire(&k, status, keep_alive, &wire, expect.as_ref().map(|(h, b)| (h.as_slice(), b.as_str())))
                                .map_err(|e| format!("{e}; answer on the wire: {:?}", String::from_utf8_lossy(&wire[..wire.len().min(700)]))),
                        };
                        if let Err(obs) = res { fails.push((input, obs)); if fails.len() >= 3 { break 'all; } }
                    }
                }
            }
        }
    }
    let fl: Vec<String> = fails.iter().map(|(i, o)| format!("{{\"input\": {:?}, \"observed\": {:?}}}", i, o)).collect();
    println!("{{\"bound\": \"14 answer kinds x 4 template styles x listener / cluster-override registration x 3 variable value sets x {} request contexts\", \"states\": {n}, \"pairs\": {n}, \"nontrivial_pairs\": {n}, \"failures\": [{}]}}", ids.len(), fl.join(", "));
}
