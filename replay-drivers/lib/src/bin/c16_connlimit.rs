//! Bounded native enumeration for C16 (unit N-connlimit): the per-(cluster, client IP) admission accounting of the REAL
//! sozu_lib::server::SessionManager through its public API. usage: c16_connlimit quick | thorough
//! For every global limit in {0 = unlimited, 1, 2} x per-cluster override in {None, Some(0), Some(1), Some(2)} and every
//! history of `depth` operations over {session k (token) asks to be admitted to cluster A / B from IP x / y — the
//! shell's sequence: cluster_ip_at_limit, then track_cluster_ip when it is not; session k closes (untrack_all_cluster_ip)}
//! with 3 sessions, a reference model (a multiset of live (token, cluster, ip) slots) says:
//!   - a session is refused iff the effective limit (override, else global) is > 0, the session does not hold that
//!     slot already, and the number of live slots on (cluster, ip) has reached the limit — admission limits are never
//!     exceeded and nobody is refused below the limit;
//!   - when a session closes every slot it held is released: after all sessions are closed, a fresh session is
//!     admitted on every (cluster, ip) whatever happened before (resources return to baseline).
use std::{collections::BTreeSet, net::{IpAddr, Ipv4Addr}};

use mio::Token;
use slab::Slab;
use sozu_lib::server::SessionManager;

#[derive(Clone, Copy, Debug, PartialEq)]
enum Op { Ask(usize, usize, usize), Close(usize) }   // (session, cluster, ip)

fn ip(i: usize) -> IpAddr { IpAddr::V4(Ipv4Addr::new(192, 0, 2, 7 + i as u8)) }
const CLUSTERS: [&str; 2] = ["A", "B"];

fn run(seq: &[Op], global: u64, over: Option<u64>) -> Option<String> {
    let rc = SessionManager::new(Slab::new(), 100, global, 0);
    let mut sm = rc.borrow_mut();
    // cluster A carries the override, cluster B follows the global limit
    let over_of = |c: usize| if c == 0 { over } else { None };
    let limit_of = |c: usize| over_of(c).unwrap_or(global);
    let mut live: BTreeSet<(usize, usize, usize)> = BTreeSet::new();
    for (i, op) in seq.iter().enumerate() {
        match *op {
            Op::Ask(s, c, a) => {
                let refused = sm.cluster_ip_at_limit(Token(10 + s), CLUSTERS[c], &ip(a), over_of(c));
                let held = live.contains(&(s, c, a));
                let count = live.iter().filter(|(_, lc, la)| *lc == c && *la == a).count() as u64;
                let limit = limit_of(c);
                let should_refuse = limit > 0 && !held && count >= limit;
                if refused != should_refuse {
                    return Some(format!("step {i} ({op:?}): {} live connections from this IP on cluster {}, effective limit {limit} (global {global}, override {:?}), session holds a slot already: {held}; refused = {refused}, expected {should_refuse}", count, CLUSTERS[c], over_of(c)));
                }
                if !refused { sm.track_cluster_ip(Token(10 + s), CLUSTERS[c].to_owned(), ip(a)); live.insert((s, c, a)); }
            }
            Op::Close(s) => {
                sm.untrack_all_cluster_ip(Token(10 + s));
                live.retain(|(ls, _, _)| *ls != s);
            }
        }
    }
    // baseline: close everything, then a fresh session gets in everywhere a positive limit allows one connection
    for s in 0..3 { sm.untrack_all_cluster_ip(Token(10 + s)); }
    for c in 0..2 { for a in 0..2 {
        if sm.cluster_ip_at_limit(Token(99), CLUSTERS[c], &ip(a), over_of(c)) {
            return Some(format!("after every session was closed, a fresh connection from {} to cluster {} is refused (effective limit {}, global {global}, override {:?}): slots were not released", ip(a), CLUSTERS[c], limit_of(c), over_of(c)));
        }
    } }
    None
}

fn main() {
    let tier = std::env::args().nth(1).unwrap_or_else(|| "quick".into());
    let depth: usize = if tier == "thorough" { 6 } else { 5 };
    let mut ops: Vec<Op> = Vec::new();
    for s in 0..3 { for c in 0..2 { for a in 0..2 { if s == 2 && a == 1 { continue; } ops.push(Op::Ask(s, c, a)); } } ops.push(Op::Close(s)); }
    let nops = ops.len() as u64;
    let total = nops.pow(depth as u32);
    let (mut n, mut nontrivial, mut fails): (u64, u64, Vec<(String, String)>) = (0, 0, Vec::new());
    'all: for global in [0u64, 1, 2] {
        for over in [None, Some(0u64), Some(1), Some(2)] {
            for k in 0..total {
                let mut x = k;
                let seq: Vec<Op> = (0..depth).map(|_| { let o = ops[(x % nops) as usize]; x /= nops; o }).collect();
                n += 1;
                if seq.iter().any(|o| matches!(o, Op::Close(_))) { nontrivial += 1; }
                if let Some(obs) = run(&seq, global, over) { fails.push((format!("global limit {global}, override on cluster A {over:?}; {seq:?}"), obs)); if fails.len() >= 3 { break 'all; } }
            }
        }
    }
    let fl: Vec<String> = fails.iter().map(|(i, o)| format!("{{\"input\": {:?}, \"observed\": {:?}}}", i, o)).collect();
    println!("{{\"bound\": \"3 global limits x 4 cluster overrides x every history of {depth} operations over {nops} (3 sessions asking for 2 clusters from 2 IPs, closing)\", \"states\": {n}, \"pairs\": {n}, \"nontrivial_pairs\": {nontrivial}, \"failures\": [{}]}}", fl.join(", "));
}
