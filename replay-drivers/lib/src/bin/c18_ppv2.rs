//! Bounded native enumeration for C18 (unit N-ppv2): the REAL sozu_lib::protocol::proxy_protocol::parser::parse_v2_header
//! against headers built by an independent PROXY protocol v2 encoder (spec §2.2). usage: c18_ppv2 quick | thorough
//! For every command (LOCAL, PROXY) x family / transport byte (UNSPEC, TCP4, UDP4, TCP6, UDP6) x TLV tail of 0 / 3 / 7 / 21
//! octets (declared in the length field, as the spec allows) x 0 / 1 / 40 payload octets after the header x every truncation
//! point of the header:
//!   - a complete, well-formed header is accepted, the parser consumes exactly 16 + declared length octets (the payload is
//!     left untouched) and reports the command, family byte and the very addresses and ports that were encoded;
//!   - a header cut short anywhere is Incomplete (never an error, never accepted): the relay waits for the rest;
//!   - a wrong signature octet, version nibble != 2, an unknown command nibble, or a declared length smaller than the
//!     family's address block is refused.
use nom::Err;
use sozu_lib::protocol::proxy_protocol::{header::{Command, ProxyAddr}, parser::parse_v2_header};

const SIG: [u8; 12] = [0x0D, 0x0A, 0x0D, 0x0A, 0x00, 0x0D, 0x0A, 0x51, 0x55, 0x49, 0x54, 0x0A];

fn encode(cmd: u8, fam: u8, addr: &[u8], tlv: usize, declared_delta: i32) -> Vec<u8> {
    let mut v = SIG.to_vec();
    v.push(0x20 | cmd);
    v.push(fam);
    let len = (addr.len() + tlv) as i32 + declared_delta;
    v.extend_from_slice(&(len as u16).to_be_bytes());
    v.extend_from_slice(addr);
    for k in 0..tlv { v.push(0xE0u8.wrapping_add(k as u8)); }
    v
}

fn main() {
    let tier = std::env::args().nth(1).unwrap_or_else(|| "quick".into());
    let v4: Vec<u8> = vec![192, 0, 2, 7, 198, 51, 100, 9, 0xC7, 0x38, 0x01, 0xBB];
    let mut v6: Vec<u8> = Vec::new();
    v6.extend_from_slice(&[0x20, 0x01, 0x0d, 0xb8, 0, 0, 0, 0, 0, 0, 0, 0, 0, 0, 0, 7]);
    v6.extend_from_slice(&[0x20, 0x01, 0x0d, 0xb8, 0, 1, 0, 0, 0, 0, 0, 0, 0, 0, 0, 9]);
    v6.extend_from_slice(&[0xC7, 0x38, 0x01, 0xBB]);
    let fams: Vec<(u8, Vec<u8>)> = vec![(0x00, vec![]), (0x11, v4.clone()), (0x12, v4.clone()), (0x21, v6.clone()), (0x22, v6.clone())];
    let tlvs: Vec<usize> = if tier == "thorough" { vec![0, 1, 3, 7, 21, 200] } else { vec![0, 3, 7, 21] };
    let (mut n, mut accepted, mut fails): (u64, u64, Vec<(String, String)>) = (0, 0, Vec::new());
    let mut fail = |input: String, obs: String, fails: &mut Vec<(String, String)>| { if fails.len() < 3 { fails.push((input, obs)); } };
    for cmd in [0u8, 1] {
        for (fam, addr) in &fams {
            for &tlv in &tlvs {
                let head = encode(cmd, *fam, addr, tlv, 0);
                for payload in [0usize, 1, 40] {
                    let mut wire = head.clone();
                    for k in 0..payload { wire.push(b'a' + (k % 26) as u8); }
                    n += 1;
                    let what = format!("command {cmd}, family/transport 0x{fam:02x}, {} address octets + {tlv} TLV octets declared, {payload} payload octets after the header", addr.len());
                    match parse_v2_header(&wire) {
                        Ok((rest, h)) => {
                            accepted += 1;
                            if rest != &wire[head.len()..] { fail(what.clone(), format!("accepted, but {} octets are left after the header instead of the {payload} payload octets: the header is not consumed exactly", rest.len()), &mut fails); }
                            let want_cmd = if cmd == 0 { Command::Local } else { Command::Proxy };
                            if h.command != want_cmd || h.family != *fam { fail(what.clone(), format!("accepted with command {:?} / family 0x{:02x}", h.command, h.family), &mut fails); }
                            let ok_addr = match (&h.addr, fam >> 4) {
                                (ProxyAddr::AfUnspec, 0) => true,
                                (ProxyAddr::Ipv4Addr { src_addr, dst_addr }, 1) => src_addr.ip().octets() == [192, 0, 2, 7] && dst_addr.ip().octets() == [198, 51, 100, 9] && src_addr.port() == 0xC738 && dst_addr.port() == 443,
                                (ProxyAddr::Ipv6Addr { src_addr, dst_addr }, 2) => src_addr.ip().octets()[15] == 7 && dst_addr.ip().octets()[15] == 9 && dst_addr.ip().octets()[5] == 1 && src_addr.port() == 0xC738 && dst_addr.port() == 443,
                                _ => false,
                            };
                            if !ok_addr { fail(what.clone(), format!("accepted, but the addresses reported are {:?}", h.addr), &mut fails); }
                        }
                        Err(e) => fail(what.clone(), format!("a well-formed PROXY v2 header is refused: {e:?}"), &mut fails),
                    }
                    // every truncation of the header (payload absent) must be Incomplete
                    if payload == 0 {
                        for cut in 0..head.len() {
                            n += 1;
                            match parse_v2_header(&head[..cut]) {
                                Err(Err::Incomplete(_)) => {}
                                Ok(_) => fail(what.clone(), format!("the first {cut} of {} header octets are accepted as a whole header", head.len()), &mut fails),
                                Err(e) => fail(what.clone(), format!("the first {cut} of {} header octets (a header still arriving) are refused with {e:?} instead of Incomplete", head.len()), &mut fails),
                            }
                        }
                    }
                }
            }
            // malformed neighbours
            let good = encode(cmd, *fam, addr, 0, 0);
            let mut bad: Vec<(String, Vec<u8>)> = Vec::new();
            for k in 0..12 { let mut w = good.clone(); w[k] ^= 0x01; bad.push((format!("signature octet {k} altered"), w)); }
            { let mut w = good.clone(); w[12] = 0x10 | cmd; bad.push(("version nibble 1".into(), w)); }
            { let mut w = good.clone(); w[12] = 0x22; bad.push(("command nibble 2".into(), w)); }
            if !addr.is_empty() { bad.push(("declared length one short of the address block".into(), { let mut w = encode(cmd, *fam, addr, 0, -1); w.extend_from_slice(b"payload-payload-payload"); w })); }
            { let mut w = good.clone(); w[13] = 0x41; bad.push(("unknown address family 4".into(), w)); }
            for (name, w) in bad {
                n += 1;
                if parse_v2_header(&w).is_ok() { fail(format!("command {cmd}, family 0x{fam:02x}: {name}"), "a malformed header is accepted".into(), &mut fails); }
            }
        }
    }
    let fl: Vec<String> = fails.iter().map(|(i, o)| format!("{{\"input\": {:?}, \"observed\": {:?}}}", i, o)).collect();
    println!("{{\"bound\": \"2 commands x 5 family/transport bytes x {} TLV tail lengths x 3 payload lengths, every truncation point, 16 malformed neighbours each\", \"states\": {n}, \"pairs\": {n}, \"nontrivial_pairs\": {accepted}, \"failures\": [{}]}}", tlvs.len(), fl.join(", "));
}
