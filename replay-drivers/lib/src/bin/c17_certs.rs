//! Bounded native enumeration for C17 (unit N-certs): the REAL sozu_lib::tls::CertificateResolver through its public
//! API, against a reference model of "what is loaded". usage: c17_certs quick | thorough
//!
//! Universe: six certificate requests over five distinct PEM files of /repo/lib/assets (the fingerprint is the digest
//! of the PEM contents), with OVERRIDDEN names and expirations so that they overlap:
//!   K0  certificate.pem           names [a.ex.test]                exp 100
//!   K1  certificate-dominum.pem   names [*.ex.test]                exp 200
//!   K2  certificate-dominum2.pem  names [a.ex.test, b.ex.test]     exp 300
//!   K3  multi-sni-cert.pem        names [*.ex.test, a.ex.test]     exp 100   (ties with K0 on a.ex.test)
//!   K4  cn-ne-san-cert.pem        names [x.a.ex.test, *.a.ex.test] exp 50
//!   K5  certificate.pem again     names [c.ex.test]                exp 500   (same fingerprint as K0)
//! Operations: add(Ki), remove(Ki), replace(old = Ki, new = Kj) for every pair (i == j: idempotent), replace with an
//! unparsable new PEM (must fail and change nothing), replace with an unparsable old fingerprint (the new one is added).
//! Explores EVERY history of `depth` operations; after every operation, for every probe name, the certificate the
//! handshake path would serve (domain_lookup(name, wildcard = true) then get_certificate, the two calls of
//! MutexCertificateResolver::resolve) must be
//!   - a certificate that is loaded according to the model (never a removed one, never a fingerprint without a
//!     stored certificate),
//!   - one whose names cover the probe: an exact name if any loaded certificate has one, else a one-label wildcard,
//!   - with the greatest expiration among the loaded certificates covering the probe at that level,
//!   - and None (default certificate) only when no loaded certificate covers the probe;
//!   - names_for_sni(probe) (the SAN snapshot frozen on the connection) must be the served certificate's names.
use std::collections::BTreeMap;

use sozu_command_lib::{
    certificate::Fingerprint,
    proto::command::{AddCertificate, CertificateAndKey, ReplaceCertificate, SocketAddress},
};
use sozu_lib::tls::CertificateResolver;

const PEMS: [&str; 5] = [
    include_str!("/repo/lib/assets/certificate.pem"),
    include_str!("/repo/lib/assets/certificate-dominum.pem"),
    include_str!("/repo/lib/assets/certificate-dominum2.pem"),
    include_str!("/repo/lib/assets/multi-sni-cert.pem"),
    include_str!("/repo/lib/assets/cn-ne-san-cert.pem"),
];
const KEY: &str = include_str!("/repo/lib/assets/key.pem");

struct Def { pem: usize, names: &'static [&'static str], exp: i64 }
const DEFS: [Def; 6] = [
    Def { pem: 0, names: &["a.ex.test"], exp: 100 },
    Def { pem: 1, names: &["*.ex.test"], exp: 200 },
    Def { pem: 2, names: &["a.ex.test", "b.ex.test"], exp: 300 },
    Def { pem: 3, names: &["*.ex.test", "a.ex.test"], exp: 100 },
    Def { pem: 4, names: &["x.a.ex.test", "*.a.ex.test"], exp: 50 },
    Def { pem: 0, names: &["c.ex.test"], exp: 500 },
];
const PROBES: [&str; 8] = ["a.ex.test", "b.ex.test", "c.ex.test", "d.ex.test", "x.a.ex.test", "y.a.ex.test", "ex.test", "other.org"];

#[derive(Clone, Copy, Debug, PartialEq)]
enum Op { Add(usize), Remove(usize), Replace(usize, usize), ReplaceBadNew(usize), ReplaceBadOld(usize) }

fn addr() -> SocketAddress { SocketAddress::new_v4(127, 0, 0, 1, 8443) }
fn cak(k: usize) -> CertificateAndKey {
    CertificateAndKey { certificate: PEMS[DEFS[k].pem].to_owned(), certificate_chain: vec![], key: KEY.to_owned(), versions: vec![],
                        names: DEFS[k].names.iter().map(|s| s.to_string()).collect() }
}

#[derive(Clone, Debug, PartialEq)]
struct MCert { names: Vec<String>, exp: i64 }

fn covers_exact(c: &MCert, probe: &str) -> bool { c.names.iter().any(|n| n == probe) }
fn covers_wild(c: &MCert, probe: &str) -> bool {
    match probe.split_once('.') { Some((label, rest)) if !label.is_empty() => c.names.iter().any(|n| n.strip_prefix("*.").is_some_and(|s| s == rest)), _ => false }
}

fn check(r: &CertificateResolver, model: &BTreeMap<usize, MCert>, fps: &[Fingerprint]) -> Option<String> {
    for probe in PROBES {
        let served = r.domain_lookup(probe.as_bytes(), true).map(|kv| kv.1.clone());
        let exact: Vec<(usize, &MCert)> = model.iter().filter(|(_, c)| covers_exact(c, probe)).map(|(p, c)| (*p, c)).collect();
        let wild: Vec<(usize, &MCert)> = model.iter().filter(|(_, c)| covers_wild(c, probe)).map(|(p, c)| (*p, c)).collect();
        let level = if !exact.is_empty() { &exact } else { &wild };
        let loaded: Vec<usize> = model.keys().copied().collect();
        match served {
            None => {
                if !level.is_empty() {
                    return Some(format!("probe {probe}: no certificate is served (default certificate) although loaded certificates {:?} (by PEM index) cover it; loaded = {loaded:?}", level.iter().map(|l| l.0).collect::<Vec<_>>()));
                }
            }
            Some(fp) => {
                let Some(pem) = fps.iter().position(|f| *f == fp) else { return Some(format!("probe {probe}: served fingerprint {fp} is none of the universe's")) };
                if !model.contains_key(&pem) { return Some(format!("probe {probe}: the certificate of PEM #{pem} is served although it is not loaded (removed or replaced); loaded = {loaded:?}")); }
                if r.get_certificate(&fp).is_none() { return Some(format!("probe {probe}: the name trie points to PEM #{pem} but the store has no such certificate")); }
                let Some(best) = level.iter().map(|l| l.1.exp).max() else {
                    return Some(format!("probe {probe}: PEM #{pem} (names {:?}) is served but no loaded certificate covers this name", model[&pem].names));
                };
                if !level.iter().any(|l| l.0 == pem) {
                    return Some(format!("probe {probe}: PEM #{pem} (names {:?}) is served; the loaded certificates covering the name at the best level ({}) are {:?}", model[&pem].names, if exact.is_empty() { "wildcard" } else { "exact" }, level.iter().map(|l| l.0).collect::<Vec<_>>()));
                }
                if model[&pem].exp != best {
                    return Some(format!("probe {probe}: PEM #{pem} (expires {}) is served although a loaded certificate covering the name equally expires later ({best})", model[&pem].exp));
                }
                let names = r.names_for_sni(probe.as_bytes());
                if names.as_ref() != Some(&model[&pem].names) {
                    return Some(format!("probe {probe}: names_for_sni = {names:?}, the served certificate PEM #{pem} has names {:?}", model[&pem].names));
                }
            }
        }
    }
    // a loaded certificate is retrievable, a not loaded one is not
    for (pem, fp) in fps.iter().enumerate() {
        if r.get_certificate(fp).is_some() != model.contains_key(&pem) {
            return Some(format!("get_certificate(PEM #{pem}) is {} but the model says loaded = {}", if r.get_certificate(fp).is_some() { "Some" } else { "None" }, model.contains_key(&pem)));
        }
    }
    None
}

fn run(seq: &[Op], fps: &[Fingerprint]) -> Option<String> {
    let mut r = CertificateResolver::default();
    let mut model: BTreeMap<usize, MCert> = BTreeMap::new();
    let mdef = |k: usize| MCert { names: DEFS[k].names.iter().map(|s| s.to_string()).collect(), exp: DEFS[k].exp };
    for (i, op) in seq.iter().enumerate() {
        let ctx = |what: String| Some(format!("step {i} ({op:?}): {what}"));
        match *op {
            Op::Add(k) => {
                let res = r.add_certificate(&AddCertificate { address: addr(), certificate: cak(k), expired_at: Some(DEFS[k].exp) });
                match res {
                    Ok(fp) => { if fp != fps[DEFS[k].pem] { return ctx("add returned another fingerprint".into()); } }
                    Err(e) => return ctx(format!("add of a valid certificate failed: {e}")),
                }
                model.entry(DEFS[k].pem).or_insert_with(|| mdef(k));
            }
            Op::Remove(k) => {
                if let Err(e) = r.remove_certificate(&fps[DEFS[k].pem]) { return ctx(format!("remove failed: {e}")); }
                model.remove(&DEFS[k].pem);
            }
            Op::Replace(o, n) => {
                let res = r.replace_certificate(&ReplaceCertificate { address: addr(), new_certificate: cak(n), old_fingerprint: fps[DEFS[o].pem].to_string(), new_expired_at: Some(DEFS[n].exp) });
                if let Err(e) = res { return ctx(format!("replace with a valid certificate failed: {e}")); }
                if DEFS[o].pem == DEFS[n].pem {
                    // idempotent replace: a loaded certificate must stay; when it is not loaded the statement does not
                    // say what happens: follow the code
                    if !model.contains_key(&DEFS[n].pem) && r.get_certificate(&fps[DEFS[n].pem]).is_some() { model.insert(DEFS[n].pem, mdef(n)); }
                } else {
                    model.entry(DEFS[n].pem).or_insert_with(|| mdef(n));
                    model.remove(&DEFS[o].pem);
                }
            }
            Op::ReplaceBadNew(o) => {
                let mut c = cak(0); c.certificate = "-----BEGIN CERTIFICATE-----\nnot a certificate\n-----END CERTIFICATE-----\n".to_owned();
                let res = r.replace_certificate(&ReplaceCertificate { address: addr(), new_certificate: c, old_fingerprint: fps[DEFS[o].pem].to_string(), new_expired_at: None });
                if res.is_ok() { return ctx("a replacement by an unparsable certificate was accepted".into()); }
            }
            Op::ReplaceBadOld(n) => {
                let res = r.replace_certificate(&ReplaceCertificate { address: addr(), new_certificate: cak(n), old_fingerprint: "not-hex".to_owned(), new_expired_at: Some(DEFS[n].exp) });
                if let Err(e) = res { return ctx(format!("replace with an unparsable old fingerprint failed: {e} (documented: the new certificate is added)")); }
                model.entry(DEFS[n].pem).or_insert_with(|| mdef(n));
            }
        }
        if let Some(e) = check(&r, &model, fps) { return ctx(e); }
    }
    None
}

fn main() {
    let tier = std::env::args().nth(1).unwrap_or_else(|| "quick".into());
    let depth: usize = if tier == "thorough" { 4 } else { 3 };
    let mut ops: Vec<Op> = Vec::new();
    for k in 0..6 { ops.push(Op::Add(k)); }
    for k in 0..5 { ops.push(Op::Remove(k)); }
    for o in 0..6 { for n in 0..6 { if o == 5 && n != 0 && n != 5 { continue; } ops.push(Op::Replace(o, n)); } }
    ops.push(Op::ReplaceBadNew(0)); ops.push(Op::ReplaceBadNew(1));
    ops.push(Op::ReplaceBadOld(1)); ops.push(Op::ReplaceBadOld(2));
    // fingerprints, from the real code
    let fps: Vec<Fingerprint> = (0..5).map(|p| {
        let k = DEFS.iter().position(|d| d.pem == p).unwrap();
        let mut r = CertificateResolver::default();
        r.add_certificate(&AddCertificate { address: addr(), certificate: cak(k), expired_at: None }).expect("asset certificates load")
    }).collect();
    let ops = std::sync::Arc::new(ops);
    let fps = std::sync::Arc::new(fps);
    let nops = ops.len() as u64;
    let total = nops.pow(depth as u32);
    let threads = 16u64;
    let handles: Vec<_> = (0..threads).map(|t| {
        let (ops, fps) = (ops.clone(), fps.clone());
        std::thread::spawn(move || {
            let mut fails: Vec<(String, String)> = Vec::new();
            let mut n = 0u64;
            let mut k = t;
            while k < total {
                let mut x = k;
                let seq: Vec<Op> = (0..depth).map(|_| { let o = ops[(x % nops) as usize]; x /= nops; o }).collect();
                n += 1;
                if let Some(obs) = run(&seq, &fps) { if fails.len() < 3 { fails.push((format!("{seq:?}"), obs)); } }
                k += threads;
            }
            (n, fails)
        })
    }).collect();
    let (mut n, mut fails) = (0u64, Vec::new());
    for h in handles { let (a, f) = h.join().unwrap(); n += a; fails.extend(f); }
    fails.sort_by_key(|f| f.0.len());
    fails.truncate(3);
    let fl: Vec<String> = fails.iter().map(|(i, o)| format!("{{\"input\": {:?}, \"observed\": {:?}}}", i, o)).collect();
    println!("{{\"bound\": \"every history of {depth} operations over {nops} operations (add / remove / replace incl. idempotent, failing, unparsable-old) on 6 certificate requests over 5 PEMs with overlapping exact / wildcard names and tied expirations; 8 probe names after every operation\", \"states\": {n}, \"pairs\": {}, \"nontrivial_pairs\": {n}, \"failures\": [{}]}}", n * depth as u64 * PROBES.len() as u64, fl.join(", "));
}
