//! Replay driver for C18 / C01 (unit U-pipe): the REAL sozu_lib::pool::Checkout relay buffer.
//! usage: c18_pool fifo
//! Explores every sequence of up to 7 operations over {write k bytes into space() and fill(k), consume(k)} with
//! k in {0, 1, 3, 5, 8, 64} on a 16-byte buffer and checks against a reference queue that data() is always exactly
//! the bytes filled and not yet consumed, in order (what the relay forwards), and that fill / consume report
//! min(k, free space) / min(k, readable).
use std::collections::VecDeque;

use sozu_lib::pool::Pool;

fn out(found: bool, scenario: &str, input: String, observed: String, required: &str) -> ! {
    println!("{{\"found\": {found}, \"scenario\": \"{scenario}\", \"input\": {input:?}, \"observed\": {observed:?}, \"required\": {required:?}}}");
    std::process::exit(0)
}
const REQUIRED: &str = "the relay buffer is a FIFO of bytes: data() is exactly what was filled and not yet consumed, in order";

#[derive(Clone, Copy, Debug)]
enum Op { Fill(usize), Consume(usize) }

fn run(pool: &mut Pool, seq: &[Op]) -> Option<String> {
    let mut b = pool.checkout()?;
    let mut model: VecDeque<u8> = VecDeque::new();
    let mut next: u8 = 1;
    for (i, op) in seq.iter().enumerate() {
        match *op {
            Op::Fill(k) => {
                let space = b.space();
                let n = k.min(space.len());
                for j in 0..n { space[j] = next.wrapping_add(j as u8); }
                let r = b.fill(k);
                if r != n { return Some(format!("step {i} ({op:?}): fill returned {r}, free space was {n}")); }
                for j in 0..n { model.push_back(next.wrapping_add(j as u8)); }
                next = next.wrapping_add(n as u8).max(1);
            }
            Op::Consume(k) => {
                let n = k.min(model.len());
                let r = b.consume(k);
                if r != n { return Some(format!("step {i} ({op:?}): consume returned {r}, readable was {n}")); }
                for _ in 0..n { model.pop_front(); }
            }
        }
        let want: Vec<u8> = model.iter().copied().collect();
        if b.data() != &want[..] {
            return Some(format!("step {i} ({op:?}): data() = {:?}, expected {:?}", b.data(), want));
        }
    }
    None
}

fn main() {
    let ops = [Op::Fill(0), Op::Fill(1), Op::Fill(3), Op::Fill(5), Op::Fill(8), Op::Fill(64), Op::Consume(0), Op::Consume(1), Op::Consume(3), Op::Consume(5), Op::Consume(64)];
    let depth = 6;
    let mut pool = Pool::with_capacity(1, 2, 16);
    let mut idx = vec![0usize; depth];
    let mut n = 0u64;
    loop {
        let seq: Vec<Op> = idx.iter().map(|&i| ops[i]).collect();
        n += 1;
        if let Some(obs) = run(&mut pool, &seq) {
            out(true, "fifo", format!("16-byte Checkout; {seq:?}"), obs, REQUIRED);
        }
        let mut k = depth;
        loop {
            if k == 0 { out(false, "fifo", format!("all {n} sequences of {depth} operations"), "data() always equalled the reference queue".into(), REQUIRED); }
            k -= 1;
            idx[k] += 1;
            if idx[k] < ops.len() { break; }
            idx[k] = 0;
        }
    }
}
