//! Bounded native enumeration for C08 (unit N-worker): a REAL worker (sozu_lib::server::Server) running in a thread,
//! driven over its real command channel. usage: c08_worker [quick|thorough]
//! For every sequence of `depth` commands from a pool (listener add / remove, cluster add / upsert / remove, backend
//! add / remove, frontend add / remove, a frontend on an unknown listener, a backend removal that matches nothing,
//! Status) a fresh worker is started, the commands are sent one after the other and all answers are collected:
//!   - every command gets exactly one final answer (OK or FAILURE) carrying its id, after any number of PROCESSING
//!     notices; none is left unanswered (2 s), none is answered twice (checked again after a closing probe);
//!   - afterwards the worker's own view (QueryClustersHashes) equals the hashes of a ConfigState on the main side
//!     to which the same commands were dispatched.
//! No listener is activated, so no port is bound.
use std::{collections::BTreeMap, os::fd::{AsRawFd, IntoRawFd}, os::unix::net::UnixStream, time::Duration};

use sozu_command_lib::{
    channel::Channel,
    config::{ConfigBuilder, FileConfig, ListenerBuilder},
    proto::command::{
        request::RequestType, response_content::ContentType, AddBackend, Cluster, HardStop, ListenerType, PathRule, QueryClustersHashes, RemoveBackend, RemoveListener, Request, RequestHttpFrontend,
        ResponseStatus, RulePosition, ServerConfig, SocketAddress, Status, WorkerRequest, WorkerResponse,
    },
    scm_socket::{Listeners, ScmSocket},
    state::ConfigState,
};
use sozu_lib::server::Server;

fn pool() -> Vec<(&'static str, Request)> {
    let l = SocketAddress::new_v4(127, 0, 0, 1, 18080);
    let l2 = SocketAddress::new_v4(127, 0, 0, 1, 18081);
    let listener = ListenerBuilder::new_http(l).to_http(None).expect("listener config");
    let front = |addr: SocketAddress| RequestHttpFrontend { cluster_id: Some("c1".into()), address: addr, hostname: "a.example".into(), path: PathRule::prefix("/".to_string()), position: RulePosition::Tree.into(), ..Default::default() };
    let backend = SocketAddress::new_v4(127, 0, 0, 1, 19000);
    vec![
        ("AddHttpListener", RequestType::AddHttpListener(listener).into()),
        ("RemoveListener", RequestType::RemoveListener(RemoveListener { address: l, proxy: ListenerType::Http.into() }).into()),
        ("AddCluster", RequestType::AddCluster(Cluster { cluster_id: "c1".into(), ..Default::default() }).into()),
        ("AddCluster(sticky)", RequestType::AddCluster(Cluster { cluster_id: "c1".into(), sticky_session: true, ..Default::default() }).into()),
        ("RemoveCluster", RequestType::RemoveCluster("c1".into()).into()),
        ("AddBackend", RequestType::AddBackend(AddBackend { cluster_id: "c1".into(), backend_id: "b1".into(), address: backend, ..Default::default() }).into()),
        ("RemoveBackend", RequestType::RemoveBackend(RemoveBackend { cluster_id: "c1".into(), backend_id: "b1".into(), address: backend }).into()),
        ("RemoveBackend(absent)", RequestType::RemoveBackend(RemoveBackend { cluster_id: "c1".into(), backend_id: "nope".into(), address: backend }).into()),
        ("AddHttpFrontend", RequestType::AddHttpFrontend(front(l)).into()),
        ("RemoveHttpFrontend", RequestType::RemoveHttpFrontend(front(l)).into()),
        ("AddHttpFrontend(unknown listener)", RequestType::AddHttpFrontend(front(l2)).into()),
        ("Status", RequestType::Status(Status {}).into()),
    ]
}

/// one representative of every OTHER command kind `Server::notify` handles (listener activation and the stop / hand-over
/// commands excluded: they bind ports or end the worker)
fn pool_kinds() -> Vec<(&'static str, Request)> {
    use sozu_command_lib::proto::command::{
        DeactivateListener, HealthCheckConfig, MetricsConfiguration, QueryCertificatesFilters, QueryClusterByDomain, QueryMaxConnectionsPerIp, QueryMetricsOptions, RequestTcpFrontend, SetHealthCheck,
        UpdateHttpListenerConfig,
    };
    let l = SocketAddress::new_v4(127, 0, 0, 1, 18080);
    let lt = SocketAddress::new_v4(127, 0, 0, 1, 18090);
    let ls = SocketAddress::new_v4(127, 0, 0, 1, 18443);
    let mut v: Vec<(&'static str, Request)> = vec![
        ("SetMaxConnectionsPerIp(5)", RequestType::SetMaxConnectionsPerIp(5).into()),
        ("SetMaxConnectionsPerIp(0)", RequestType::SetMaxConnectionsPerIp(0).into()),
        ("QueryMaxConnectionsPerIp", RequestType::QueryMaxConnectionsPerIp(QueryMaxConnectionsPerIp {}).into()),
        ("QueryClusterById", RequestType::QueryClusterById("c1".into()).into()),
        ("QueryClustersByDomain", RequestType::QueryClustersByDomain(QueryClusterByDomain { hostname: "a.example".into(), path: None }).into()),
        ("QueryClustersHashes", RequestType::QueryClustersHashes(QueryClustersHashes {}).into()),
        ("QueryMetrics", RequestType::QueryMetrics(QueryMetricsOptions { list: false, cluster_ids: vec![], backend_ids: vec![], metric_names: vec![], no_clusters: false, workers: false }).into()),
        ("QueryMetrics(list)", RequestType::QueryMetrics(QueryMetricsOptions { list: true, cluster_ids: vec![], backend_ids: vec![], metric_names: vec![], no_clusters: false, workers: false }).into()),
        ("ConfigureMetrics(disabled)", RequestType::ConfigureMetrics(MetricsConfiguration::Disabled as i32).into()),
        ("ConfigureMetrics(enabled)", RequestType::ConfigureMetrics(MetricsConfiguration::Enabled as i32).into()),
        ("Logging", RequestType::Logging("info".into()).into()),
        ("QueryCertificatesFromWorkers", RequestType::QueryCertificatesFromWorkers(QueryCertificatesFilters { domain: None, fingerprint: None }).into()),
        ("SetHealthCheck", RequestType::SetHealthCheck(SetHealthCheck { cluster_id: "c1".into(), config: HealthCheckConfig { uri: "/health".into(), interval: 10, timeout: 5, healthy_threshold: 2, unhealthy_threshold: 3, expected_status: 200 } }).into()),
        ("RemoveHealthCheck", RequestType::RemoveHealthCheck("c1".into()).into()),
        ("UpdateHttpListener(absent)", RequestType::UpdateHttpListener(UpdateHttpListenerConfig { address: l, front_timeout: Some(10), ..Default::default() }).into()),
        ("DeactivateListener(inactive)", RequestType::DeactivateListener(DeactivateListener { address: l, proxy: ListenerType::Http.into(), to_scm: false }).into()),
        ("AddTcpFrontend(no listener)", RequestType::AddTcpFrontend(RequestTcpFrontend { cluster_id: "c1".into(), address: lt, tags: BTreeMap::new() }).into()),
        ("RemoveTcpFrontend(absent)", RequestType::RemoveTcpFrontend(RequestTcpFrontend { cluster_id: "c1".into(), address: lt, tags: BTreeMap::new() }).into()),
    ];
    if let Ok(c) = ListenerBuilder::new_tcp(lt).to_tcp(None) { v.push(("AddTcpListener", RequestType::AddTcpListener(c).into())); }
    if let Ok(c) = ListenerBuilder::new_https(ls).to_tls(None) { v.push(("AddHttpsListener", RequestType::AddHttpsListener(c).into())); }
    v.push(("RemoveListener(tcp)", RequestType::RemoveListener(RemoveListener { address: lt, proxy: ListenerType::Tcp.into() }).into()));
    v
}

struct Answers { finals: BTreeMap<String, Vec<i32>>, }

fn run(seq: &[(&'static str, Request)]) -> Option<String> {
    let file_config = FileConfig::default();
    let config = ConfigBuilder::new(file_config, "").into_config().ok()?;
    let server_config = ServerConfig::from(&config);
    let (scm_a, scm_b) = UnixStream::pair().ok()?;
    let (mut main_side, worker_side): (Channel<WorkerRequest, WorkerResponse>, Channel<WorkerResponse, WorkerRequest>) =
        Channel::generate(server_config.command_buffer_size, server_config.max_command_buffer_size).ok()?;
    let _ = scm_a.as_raw_fd();
    let scm_main = ScmSocket::new(scm_a.into_raw_fd()).ok()?;
    let scm_worker = ScmSocket::new(scm_b.into_raw_fd()).ok()?;
    scm_main.send_listeners(&Listeners::default()).ok()?;
    let initial = ConfigState::new().produce_initial_state();
    let job = std::thread::spawn(move || {
        if let Ok(mut server) = Server::try_new_from_config(worker_side, scm_worker, server_config, initial, false) { server.run(); }
    });
    let mut master = ConfigState::new();
    let mut answers = Answers { finals: BTreeMap::new() };
    let mut failure: Option<String> = None;
    let mut read_until = |main_side: &mut Channel<WorkerRequest, WorkerResponse>, id: &str, answers: &mut Answers| -> Result<(), String> {
        loop {
            match main_side.read_message_blocking_timeout(Some(Duration::from_secs(2))) {
                Ok(r) => {
                    if r.status != ResponseStatus::Processing as i32 { answers.finals.entry(r.id.clone()).or_default().push(r.status); }
                    if r.id == id && r.status != ResponseStatus::Processing as i32 { return Ok(()); }
                }
                Err(e) => return Err(format!("no final answer for command {id} within 2 s ({e})")),
            }
        }
    };
    for (k, (name, req)) in seq.iter().enumerate() {
        let id = format!("ID-{k}");
        let _ = master.dispatch(req);
        if main_side.write_message(&WorkerRequest { id: id.clone(), content: req.clone() }).is_err() { failure = Some(format!("cannot write command {id}")); break; }
        if let Err(e) = read_until(&mut main_side, &id, &mut answers) { failure = Some(format!("{name}: {e}")); break; }
    }
    let mut hashes = None;
    if failure.is_none() {
        // closing probe: the worker's view, and a second chance for late duplicate answers to show up
        let _ = main_side.write_message(&WorkerRequest { id: "PROBE".into(), content: RequestType::QueryClustersHashes(QueryClustersHashes {}).into() });
        loop {
            match main_side.read_message_blocking_timeout(Some(Duration::from_secs(2))) {
                Ok(r) => {
                    if r.status != ResponseStatus::Processing as i32 { answers.finals.entry(r.id.clone()).or_default().push(r.status); }
                    if r.id == "PROBE" && r.status != ResponseStatus::Processing as i32 {
                        if let Some(ContentType::ClusterHashes(h)) = r.content.and_then(|c| c.content_type) { hashes = Some(h.map); }
                        break;
                    }
                }
                Err(e) => { failure = Some(format!("no answer to the closing QueryClustersHashes probe ({e})")); break; }
            }
        }
    }
    let _ = main_side.write_message(&WorkerRequest { id: "STOP".into(), content: RequestType::HardStop(HardStop {}).into() });
    let _ = job.join();
    if failure.is_some() { return failure; }
    for k in 0..seq.len() {
        let id = format!("ID-{k}");
        let n = answers.finals.get(&id).map(|v| v.len()).unwrap_or(0);
        if n != 1 { return Some(format!("command {id} ({}) received {n} final answers: {:?}", seq[k].0, answers.finals.get(&id))); }
    }
    match hashes {
        None => Some("the closing probe carried no cluster hashes".into()),
        Some(h) if h != master.hash_state() => Some(format!("after the sequence the worker's cluster hashes {h:?} differ from the main process's {:?}", master.hash_state())),
        _ => None,
    }
}

// back-pressure phase: commands sent back to back while nobody reads the answers, over a small channel
// (4 KiB buffers growing to 16 KiB) with 10 KB ids, so the worker's answers pile up against the channel ceiling
fn burst(commands: usize) -> Option<String> {
    let config = ConfigBuilder::new(FileConfig::default(), "").into_config().ok()?;
    let server_config = ServerConfig::from(&config);
    let (mut main_side, worker_side): (Channel<WorkerRequest, WorkerResponse>, Channel<WorkerResponse, WorkerRequest>) = Channel::generate(4_096, 16_384).ok()?;
    let (scm_a, scm_b) = UnixStream::pair().ok()?;
    let scm_main = ScmSocket::new(scm_a.into_raw_fd()).ok()?;
    let scm_worker = ScmSocket::new(scm_b.into_raw_fd()).ok()?;
    scm_main.send_listeners(&Listeners::default()).ok()?;
    let initial = ConfigState::new().produce_initial_state();
    let job = std::thread::spawn(move || {
        if let Ok(mut server) = Server::try_new_from_config(worker_side, scm_worker, server_config, initial, false) { server.run(); }
    });
    let id = |i: usize| format!("ID-{i:06}-{}", "x".repeat(10_000));
    for i in 0..commands {
        if main_side.write_message(&WorkerRequest { id: id(i), content: RequestType::Status(Status {}).into() }).is_err() { return Some(format!("cannot write command #{i}")); }
    }
    std::thread::sleep(Duration::from_millis(300));
    let mut finals: BTreeMap<String, usize> = BTreeMap::new();
    let mut got = 0usize;
    let deadline = std::time::Instant::now() + Duration::from_secs(30);
    while got < commands && std::time::Instant::now() < deadline {
        match main_side.read_message_blocking_timeout(Some(Duration::from_secs(3))) {
            Ok(r) => if r.status != ResponseStatus::Processing as i32 { *finals.entry(r.id).or_insert(0) += 1; got += 1; },
            Err(_) => break,
        }
    }
    let _ = main_side.write_message(&WorkerRequest { id: "STOP".into(), content: RequestType::HardStop(HardStop {}).into() });
    let _ = main_side.read_message_blocking_timeout(Some(Duration::from_secs(2)));
    let _ = job.join();
    let unanswered: Vec<usize> = (0..commands).filter(|i| !finals.contains_key(&id(*i))).collect();
    let twice = finals.values().filter(|c| **c > 1).count();
    if !unanswered.is_empty() || twice > 0 {
        return Some(format!("{} of {commands} commands sent back to back never got a final answer (first missing: #{}), {twice} were answered more than once", unanswered.len(), unanswered.first().copied().unwrap_or(0)));
    }
    None
}

fn main() {
    let thorough = std::env::args().nth(1).map(|s| s == "thorough").unwrap_or(false);
    let p = pool();
    let depth = if thorough { 4 } else { 3 };
    // quick: every sequence of 3 over a sub-pool of 8 commands (512 workers); thorough: depth 4 over the same sub-pool + depth 3 over all 12
    let sub: Vec<usize> = vec![0, 2, 3, 4, 5, 6, 8, 10];
    let mut plans: Vec<(Vec<usize>, usize)> = vec![(sub.clone(), depth.min(3))];
    if thorough { plans.push((sub.clone(), 4)); plans.push(((0..p.len()).collect(), 3)); }
    let (mut n, mut failures) = (0u64, Vec::<(String, String)>::new());
    'outer: for (idxs, d) in plans {
        let mut cur = vec![0usize; d];
        loop {
            let seq: Vec<(&'static str, Request)> = cur.iter().map(|&i| p[idxs[i]].clone()).collect();
            n += 1;
            if let Some(obs) = run(&seq) {
                failures.push((format!("fresh worker; commands {:?}", seq.iter().map(|s| s.0).collect::<Vec<_>>()), obs));
                break 'outer;
            }
            let mut k = d;
            loop {
                if k == 0 { break; }
                k -= 1;
                cur[k] += 1;
                if cur[k] < idxs.len() { break; }
                cur[k] = 0;
                if k == 0 { k = usize::MAX; break; }
            }
            if k == usize::MAX { break; }
        }
    }
    // every other command kind: twice in a row on a fresh worker (the second one finds the state the first one left),
    // and once after the configuration commands it may depend on
    if failures.is_empty() {
        for (name, req) in pool_kinds() {
            for prefix in [vec![], vec![p[2].clone()]] {
                let mut seq: Vec<(&'static str, Request)> = prefix;
                seq.push((name, req.clone()));
                seq.push((name, req.clone()));
                n += 1;
                if let Some(obs) = run(&seq) {
                    failures.push((format!("fresh worker; commands {:?}", seq.iter().map(|s| s.0).collect::<Vec<_>>()), obs));
                    break;
                }
            }
            if !failures.is_empty() { break; }
        }
    }
    if failures.is_empty() {
        n += 1;
        let commands = if thorough { 300 } else { 120 };
        if let Some(obs) = burst(commands) {
            failures.push((format!("fresh worker over a 4 KiB..16 KiB channel; {commands} Status commands with 10 KB ids written back to back before any answer is read"), obs));
        }
    }
    let fjson: Vec<String> = failures.iter().map(|(i, o)| format!("{{\"input\": {i:?}, \"observed\": {o:?}}}")).collect();
    println!("{{\"bound\": \"every sequence of {depth} commands over a pool of 8 (thorough: also 3 over all 12) configuration commands, each on a fresh in-process worker over its real command channel; no listener activated; plus every other command kind a worker handles (23 representatives) twice in a row, alone and after AddCluster; plus one burst of 120 (thorough: 300) commands with 10 KB ids written before any answer is read, over a 16 KiB-ceiling channel\", \"states\": {n}, \"pairs\": {n}, \"nontrivial_pairs\": {n}, \"failures\": [{}]}}", fjson.join(", "));
}
