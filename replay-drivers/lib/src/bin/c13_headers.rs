//! Bounded native enumeration for C13 (unit N-headers): the REAL request-header editing of sozu
//! (kawa H1 parser -> HttpContext::on_request_headers -> kawa H1 serialiser), in process.
//! usage: c13_headers [quick|thorough]
//! Every subset of a pool of client header lines (end-to-end headers incl. a repeated name, a Cookie with and without
//! sozu's sticky cookie, and spoofing attempts: X-Forwarded-For, Forwarded, X-Real-IP, X-Forwarded-Proto/Port, a
//! correlation header of sozu's own name, X-Request-Id once or twice) x the four elide/send X-Real-IP settings is
//! parsed, edited and serialised as it would be towards an H1 backend; the forwarded request is compared with what
//! the property says the backend must see.
use std::net::SocketAddr;
use sozu_lib::{pool::Pool, protocol::kawa_h1::editor::HttpContext, Protocol};

fn forward(req: &[u8], peer: SocketAddr, public: SocketAddr, elide: bool, send: bool) -> Option<Vec<u8>> {
    let mut pool = Pool::with_capacity(1, 2, 16384);
    let mut kawa = kawa::Kawa::new(kawa::Kind::Request, kawa::Buffer::new(pool.checkout()?));
    kawa.storage.space()[..req.len()].copy_from_slice(req);
    kawa.storage.fill(req.len());
    let mut ctx = HttpContext::new(rusty_ulid::Ulid::generate(), rusty_ulid::Ulid::generate(), Protocol::HTTP, public, Some(peer), "SOZUBALANCEID".into(), "Sozu-Id".into(), elide, send);
    kawa::h1::parse(&mut kawa, &mut ctx);
    if kawa.is_error() { return None; }
    kawa.prepare(&mut kawa::h1::BlockConverter);
    let mut out = Vec::new();
    for block in kawa.out.iter() {
        match block { kawa::OutBlock::Delimiter => break, kawa::OutBlock::Store(store) => out.extend_from_slice(store.data(kawa.storage.buffer())) }
    }
    Some(out)
}

// the response side: the same context, after the request went through, edits the backend's response
fn forward_response(resp: &[u8], peer: SocketAddr, public: SocketAddr) -> Option<Vec<u8>> {
    let mut pool = Pool::with_capacity(2, 4, 16384);
    let mut ctx = HttpContext::new(rusty_ulid::Ulid::generate(), rusty_ulid::Ulid::generate(), Protocol::HTTP, public, Some(peer), "SOZUBALANCEID".into(), "Sozu-Id".into(), false, false);
    let req = b"GET /x HTTP/1.1\r\nHost: a.example\r\n\r\n";
    let mut rk = kawa::Kawa::new(kawa::Kind::Request, kawa::Buffer::new(pool.checkout()?));
    rk.storage.space()[..req.len()].copy_from_slice(req);
    rk.storage.fill(req.len());
    kawa::h1::parse(&mut rk, &mut ctx);
    let mut kawa = kawa::Kawa::new(kawa::Kind::Response, kawa::Buffer::new(pool.checkout()?));
    kawa.storage.space()[..resp.len()].copy_from_slice(resp);
    kawa.storage.fill(resp.len());
    kawa::h1::parse(&mut kawa, &mut ctx);
    if kawa.is_error() { return None; }
    kawa.prepare(&mut kawa::h1::BlockConverter);
    let mut out = Vec::new();
    for block in kawa.out.iter() {
        match block { kawa::OutBlock::Delimiter => break, kawa::OutBlock::Store(store) => out.extend_from_slice(store.data(kawa.storage.buffer())) }
    }
    Some(out)
}

const RESP_POOL: &[(&str, &str)] = &[("X-R", "1"), ("Set-Cookie", "app=1; Path=/"), ("X-R", "2"), ("Cache-Control", "no-store"), ("Set-Cookie", "other=2"), ("Server", "backend/1.0")];

fn check_response(mask: u32, peer: SocketAddr, public: SocketAddr) -> Result<(), (String, String)> {
    let chosen: Vec<&(&str, &str)> = RESP_POOL.iter().enumerate().filter(|(i, _)| mask & (1 << i) != 0).map(|(_, h)| h).collect();
    let mut resp = String::from("HTTP/1.1 200 OK\r\nContent-Length: 2\r\n");
    for (k, v) in &chosen { resp += &format!("{k}: {v}\r\n"); }
    resp += "\r\nok";
    let out = match forward_response(resp.as_bytes(), peer, public) { Some(o) => o, None => return Ok(()) };
    let h = headers(&out);
    let input = format!("backend response {resp:?}");
    let want: Vec<(String, &str)> = chosen.iter().map(|c| (c.0.to_ascii_lowercase(), c.1)).collect();
    let got: Vec<(String, &str)> = h.iter().filter(|(k, _)| ["x-r", "set-cookie", "cache-control", "server"].contains(&k.as_str())).map(|(k, v)| (k.clone(), v.as_str())).collect();
    if want != got { return Err((input, format!("response headers changed: backend sent {want:?}, client receives {got:?}; forwarded response: {:?}", String::from_utf8_lossy(&out)))); }
    if vals(&h, "sozu-id").len() != 1 { return Err((input, format!("exactly one correlation header must be added to the response: {:?}", vals(&h, "sozu-id")))); }
    if !out.ends_with(b"ok") || vals(&h, "content-length") != vec!["2"] { return Err((input, format!("the body / its length must reach the client intact; forwarded response: {:?}", String::from_utf8_lossy(&out)))); }
    Ok(())
}

fn headers(msg: &[u8]) -> Vec<(String, String)> {
    let text = String::from_utf8_lossy(msg);
    text.split("\r\n").skip(1).take_while(|l| !l.is_empty()).filter_map(|l| l.split_once(':').map(|(k, v)| (k.trim().to_ascii_lowercase(), v.trim().to_string()))).collect()
}
fn vals<'a>(h: &'a [(String, String)], name: &str) -> Vec<&'a str> { h.iter().filter(|(k, _)| k == name).map(|(_, v)| v.as_str()).collect() }

const POOL: &[(&str, &str, &str)] = &[
    // (tag, name, value)
    ("e2e", "X-A", "1"), ("e2e", "Accept", "*/*"), ("e2e", "X-A", "2"), ("e2e", "X-B", "keep me"),
    ("cookie", "Cookie", "a=b; SOZUBALANCEID=zz; c=d"),
    // application cookies whose names are case variants of the sticky name: not sozu's, must reach the backend
    ("cookie", "Cookie", "SozuBalanceId=app-owned; sozubalanceid=too; theme=dark"),
    ("xff", "X-Forwarded-For", "1.2.3.4"),
    ("xff", "x-forwarded-for", "5.6.7.8, 9.10.11.12"),
    ("fwd", "Forwarded", "for=9.9.9.9"),
    ("xri", "X-Real-IP", "6.6.6.6"),
    ("xfp", "X-Forwarded-Proto", "https"),
    ("xfport", "X-Forwarded-Port", "443"),
    ("corr", "Sozu-Id", "client-chosen-id"),
    ("rid", "X-Request-Id", "abc"),
    ("rid", "X-Request-Id", "def"),
];

fn check(mask: u32, elide: bool, send: bool, peer: SocketAddr, public: SocketAddr) -> Result<(), (String, String)> {
    let chosen: Vec<&(&str, &str, &str)> = POOL.iter().enumerate().filter(|(i, _)| mask & (1 << i) != 0).map(|(_, h)| h).collect();
    let mut req = String::from("GET /x HTTP/1.1\r\nHost: a.example\r\n");
    for (_, k, v) in &chosen { req += &format!("{k}: {v}\r\n"); }
    req += "\r\n";
    let input = format!("peer {peer}, listener {public}, elide_x_real_ip={elide}, send_x_real_ip={send}, request {req:?}");
    let out = match forward(req.as_bytes(), peer, public, elide, send) { Some(o) => o, None => return Ok(()) };
    let h = headers(&out);
    let fail = |why: String| -> Result<(), (String, String)> { Err((input.clone(), format!("{why}; forwarded request: {:?}", String::from_utf8_lossy(&out)))) };
    // A. end-to-end headers: every one, same value, same relative order
    let want: Vec<(String, &str)> = chosen.iter().filter(|c| c.0 == "e2e").map(|c| (c.1.to_ascii_lowercase(), c.2)).collect();
    let got: Vec<(String, &str)> = h.iter().filter(|(k, _)| ["x-a", "accept", "x-b"].contains(&k.as_str())).map(|(k, v)| (k.clone(), v.as_str())).collect();
    if want != got { return fail(format!("end-to-end headers changed: sent {want:?}, forwarded {got:?}")); }
    // B. cookies other than sozu's sticky cookie
    let want_crumbs: Vec<String> = chosen.iter().filter(|c| c.0 == "cookie").flat_map(|c| c.2.split(';').map(|x| x.trim().to_string()).collect::<Vec<_>>())
        .filter(|crumb| crumb.split('=').next() != Some("SOZUBALANCEID")).collect();
    let got_crumbs: Vec<String> = vals(&h, "cookie").iter().flat_map(|v| v.split(';').map(|x| x.trim().to_string()).collect::<Vec<_>>()).filter(|x| !x.is_empty()).collect();
    if got_crumbs != want_crumbs { return fail(format!("cookies other than the sticky cookie (exact name SOZUBALANCEID) must be forwarded unchanged, in order: sent {want_crumbs:?}, forwarded {got_crumbs:?}")); }
    // C. X-Forwarded-For: the client's elements in their order (over all its X-Forwarded-For fields), then the real peer LAST
    let xff = vals(&h, "x-forwarded-for").join(", ");
    let mut want_xff: Vec<String> = chosen.iter().filter(|c| c.0 == "xff").map(|c| c.2.to_string()).collect();
    want_xff.push(peer.ip().to_string());
    let want_xff = want_xff.join(", ");
    if xff != want_xff { return fail(format!("X-Forwarded-For must keep the client's elements and end with the real peer address: {xff:?}, expected {want_xff:?}")); }
    // D. Forwarded: the appended element names the real peer
    let fwd = vals(&h, "forwarded").join(", ");
    let last = fwd.rsplit(',').next().unwrap_or("");
    if !last.contains(&peer.ip().to_string()) || (chosen.iter().any(|c| c.0 == "fwd") && !fwd.starts_with("for=9.9.9.9")) { return fail(format!("Forwarded must keep the client's elements and append one naming the real peer: {fwd:?}")); }
    // E. X-Real-IP
    let xri = vals(&h, "x-real-ip");
    let client_sent_xri = chosen.iter().any(|c| c.0 == "xri");
    let mut want_xri: Vec<String> = vec![];
    if client_sent_xri && !elide { want_xri.push("6.6.6.6".into()); }
    if send { want_xri.push(peer.ip().to_string()); }
    if xri.iter().map(|s| s.to_string()).collect::<Vec<_>>() != want_xri { return fail(format!("X-Real-IP headers {xri:?}, expected {want_xri:?}")); }
    // F. X-Forwarded-Proto / Port describe the listener when the client sent none
    if !chosen.iter().any(|c| c.0 == "xfp") && vals(&h, "x-forwarded-proto") != vec!["http"] { return fail(format!("X-Forwarded-Proto {:?}", vals(&h, "x-forwarded-proto"))); }
    if !chosen.iter().any(|c| c.0 == "xfport") && vals(&h, "x-forwarded-port") != vec![public.port().to_string().as_str()] { return fail(format!("X-Forwarded-Port {:?}", vals(&h, "x-forwarded-port"))); }
    // G. exactly one correlation header, and it is sozu's own (a ULID), never a client-chosen value
    let corr = vals(&h, "sozu-id");
    if corr.len() != 1 || corr[0] == "client-chosen-id" { return fail(format!("exactly one correlation header, of sozu's making, must reach the backend: {corr:?}")); }
    // H. a request id is always present; a single client-supplied one is preserved
    let rid = vals(&h, "x-request-id");
    let sent_rid: Vec<&str> = chosen.iter().filter(|c| c.0 == "rid").map(|c| c.2).collect();
    if rid.is_empty() || (sent_rid.len() == 1 && rid != sent_rid) || (sent_rid.is_empty() && rid.len() != 1) { return fail(format!("X-Request-Id {rid:?} (client sent {sent_rid:?})")); }
    Ok(())
}

fn main() {
    let thorough = std::env::args().nth(1).map(|s| s == "thorough").unwrap_or(false);
    let peers: Vec<SocketAddr> = if thorough { vec!["203.0.113.7:51000".parse().unwrap(), "[2001:db8::7]:51000".parse().unwrap()] } else { vec!["203.0.113.7:51000".parse().unwrap()] };
    let public: SocketAddr = "198.51.100.1:8080".parse().unwrap();
    let (mut n, mut failures, mut shapes) = (0u64, Vec::<(String, String)>::new(), std::collections::HashSet::new());
    'outer: for peer in &peers {
        for mask in 0..(1u32 << POOL.len()) {
            for (elide, send) in [(false, false), (true, false), (false, true), (true, true)] {
                n += 1;
                if let Err((i, o)) = check(mask, elide, send, *peer, public) {
                    let shape = o.split(':').next().unwrap_or("").to_string();
                    if shapes.insert(shape) { failures.push((i, o)); }
                    if failures.len() >= 4 { break 'outer; }
                }
            }
        }
    }
    for mask in 0..(1u32 << RESP_POOL.len()) {
        n += 1;
        if let Err((i, o)) = check_response(mask, peers[0], public) {
            let shape = o.split(':').next().unwrap_or("").to_string();
            if shapes.insert(shape) { failures.push((i, o)); }
        }
    }
    let fjson: Vec<String> = failures.iter().map(|(i, o)| format!("{{\"input\": {i:?}, \"observed\": {o:?}}}")).collect();
    println!("{{\"bound\": \"every subset of {} client header lines x 4 X-Real-IP settings x {} peer address(es), one GET request each, HTTP listener, H1 towards the backend; plus every subset of 6 backend response header lines on the way back\", \"states\": {n}, \"pairs\": {n}, \"nontrivial_pairs\": {n}, \"failures\": [{}]}}", POOL.len(), peers.len(), fjson.join(", "));
}
