//! Bounded native enumeration for C16 (unit N-timer): the REAL sozu_lib::timer::Timer through its public API, with
//! the real clock. usage: c16_wheel quick | thorough
//! Explores every history of `depth` operations over {arm a timeout 3 / 5 / 11 / 19 ticks ahead (3, 11 and 19 share
//! a wheel slot on successive revolutions), cancel the oldest / the newest pending timeout, let 4 or 9 ticks pass and
//! drain poll() like the event loop does} on an 8-slot wheel with 5 ms ticks, and checks after every operation:
//!   - every armed, not cancelled, not yet fired timeout keeps the timer's next wake-up (next_poll_date) no later
//!     than its own deadline (+ 2 ticks of rounding): an idle session is reclaimed within its timeout;
//!   - poll() only returns armed, not cancelled, not yet fired timeouts, and none earlier than 1 tick before its deadline;
//!   - after a drain, no timeout whose deadline passed more than 2 ticks ago is still pending.
//! The assertions only compare states (what is pending vs what the timer reports), never elapsed time against a
//! schedule, so a slow or loaded machine can lose coverage but cannot raise a false alarm.
use std::time::{Duration, Instant};

use sozu_lib::timer::{Builder, Timeout, Timer};

const TICK_MS: u64 = 5;

#[derive(Clone, Copy, Debug)]
enum Op { Arm(u64), CancelOldest, CancelNewest, Pass(u64) }

fn run(seq: &[Op]) -> Option<String> {
    let mut t: Timer<usize> = Builder::default().tick_duration(Duration::from_millis(TICK_MS)).num_slots(8).capacity(16).build();
    let mut pending: Vec<(usize, Timeout, Instant)> = Vec::new();
    let mut next_state = 0usize;
    let tick = Duration::from_millis(TICK_MS);
    for (i, op) in seq.iter().enumerate() {
        match *op {
            Op::Arm(ticks) => {
                let now = Instant::now();
                let d = Duration::from_millis(ticks * TICK_MS);
                let h = t.set_timeout(d, next_state);
                pending.push((next_state, h, now + d));
                next_state += 1;
            }
            Op::CancelOldest | Op::CancelNewest => {
                if pending.is_empty() { continue; }
                let (state, h, _) = if matches!(op, Op::CancelOldest) { pending.remove(0) } else { pending.pop().unwrap() };
                let r = t.cancel_timeout(&h);
                if r != Some(state) { return Some(format!("step {i} ({op:?}): cancel of pending timeout #{state} returned {r:?}")); }
            }
            Op::Pass(ticks) => {
                std::thread::sleep(Duration::from_millis(ticks * TICK_MS));
                while let Some(state) = t.poll() {
                    let now = Instant::now();
                    match pending.iter().position(|p| p.0 == state) {
                        None => return Some(format!("step {i} ({op:?}): poll() returned timeout #{state} which is not pending (cancelled, or fired before)")),
                        Some(k) => {
                            let (_, _, deadline) = pending.remove(k);
                            if now + tick < deadline { return Some(format!("step {i} ({op:?}): timeout #{state} fired {:?} before its deadline", deadline - now)); }
                        }
                    }
                }
                let now = Instant::now();
                if let Some(p) = pending.iter().find(|p| p.2 + 2 * tick < now) {
                    return Some(format!("step {i} ({op:?}): after draining poll(), timeout #{} is still pending {:?} after its deadline", p.0, now - p.2));
                }
            }
        }
        if let Some(earliest) = pending.iter().map(|p| p.2).min() {
            match t.next_poll_date() {
                None => return Some(format!("step {i} ({op:?}): {} timeout(s) pending but next_poll_date() is None: the event loop would never wake up for them", pending.len())),
                Some(d) if d > earliest + 2 * tick => return Some(format!("step {i} ({op:?}): {} timeout(s) pending, earliest deadline {:?} from now, but next_poll_date() is {:?} from now",
                                                                          pending.len(), earliest.saturating_duration_since(Instant::now()), d.saturating_duration_since(Instant::now()))),
                _ => {}
            }
        }
    }
    None
}

fn main() {
    let thorough = std::env::args().nth(1).map(|s| s == "thorough").unwrap_or(false);
    let ops = [Op::Arm(3), Op::Arm(11), Op::Arm(19), Op::Arm(5), Op::CancelOldest, Op::CancelNewest, Op::Pass(4), Op::Pass(9)];
    let depth = if thorough { 4 } else { 3 };
    let mut idx = vec![0usize; depth];
    let (mut n, mut with_poll) = (0u64, 0u64);
    let mut failures: Vec<(String, String)> = vec![];
    'outer: loop {
        let seq: Vec<Op> = idx.iter().map(|&i| ops[i]).collect();
        // at most two clock advances per history keeps the run short; histories without an armed timeout before a poll are trivial
        let passes = seq.iter().filter(|o| matches!(o, Op::Pass(_))).count();
        if passes <= 2 {
            n += 1;
            if passes > 0 { with_poll += 1; }
            if let Some(obs) = run(&seq) {
                failures.push((format!("Timer(tick {TICK_MS} ms, 8 slots); {seq:?}"), obs));
                break 'outer;
            }
        }
        let mut k = depth;
        loop {
            if k == 0 { break 'outer; }
            k -= 1;
            idx[k] += 1;
            if idx[k] < ops.len() { break; }
            idx[k] = 0;
        }
    }
    let fjson: Vec<String> = failures.iter().map(|(i, o)| format!("{{\"input\": {i:?}, \"observed\": {o:?}}}")).collect();
    println!("{{\"bound\": \"every history of {depth} operations over 8 operation kinds (arm 3/5/11/19 ticks ahead, cancel oldest/newest, let 4/9 ticks pass and drain poll) with at most two clock advances, 8-slot wheel, 5 ms ticks, real clock\", \"states\": {n}, \"pairs\": {n}, \"nontrivial_pairs\": {with_poll}, \"failures\": [{}]}}", fjson.join(", "));
}
