//! Bounded native enumeration for C12 (unit N-lb): the REAL sozu_lib::backends::BackendList with every real
//! load-balancing policy. usage: c12_lb [quick|thorough]
//! 3 backends (thorough: 4), each in every combination of {Normal, Closing, Closed} x {healthy, unhealthy} x
//! {no failure, one connection failure a moment ago (inside its back-off window)} x {primary, backup}; for each of
//! the six policies (RoundRobin, Random, LeastLoaded, PowerOfTwo, HRW, Maglev), with and without an affinity key:
//!   - the backend returned is a member of the list, and it is eligible (Normal, healthy, not backing off) and primary
//!     if any primary is eligible; else eligible and backup if any backup is eligible; else (documented fail-open)
//!     Normal and not backing off; None exactly when none of the three sets has a member;
//!   - with a key, HRW and Maglev return the same backend every time while nothing changes;
//!   - a sticky id returns its own backend iff that backend is eligible, never another one.
use std::{cell::RefCell, net::SocketAddr, rc::Rc};

use sozu_command_lib::proto::command::LoadBalancingAlgorithms;
use sozu_lib::{backends::{Backend, BackendList, BackendStatus, HealthStatus}, retry::RetryPolicy};

#[derive(Clone, Copy, Debug)]
struct St { status: u8, unhealthy: bool, failed: bool, backup: bool }
impl St {
    fn normal(&self) -> bool { self.status == 0 }
    fn eligible(&self) -> bool { self.normal() && !self.unhealthy && !self.failed }
    fn fail_open(&self) -> bool { self.normal() && !self.failed }
}

fn build(states: &[St], policy: LoadBalancingAlgorithms) -> BackendList {
    let mut l = BackendList::new();
    for (i, s) in states.iter().enumerate() {
        let addr: SocketAddr = format!("10.0.0.{}:8080", i + 1).parse().unwrap();
        let mut b = Backend::new(&format!("b{i}"), addr, Some(format!("sticky-{i}")), None, Some(s.backup));
        b.status = match s.status { 0 => BackendStatus::Normal, 1 => BackendStatus::Closing, _ => BackendStatus::Closed };
        if s.unhealthy { b.health.status = HealthStatus::Unhealthy; }
        if s.failed { b.retry_policy.fail(); }
        l.add_backend(b);
    }
    l.set_load_balancing_policy(policy, None);
    l
}

fn index_of(l: &BackendList, b: &Rc<RefCell<Backend>>) -> Option<usize> { l.backends.iter().position(|x| Rc::ptr_eq(x, b)) }

fn check(states: &[St], policy: LoadBalancingAlgorithms, key: Option<u64>) -> Result<(), String> {
    let mut l = build(states, policy);
    let any_primary = states.iter().any(|s| !s.backup && s.eligible());
    let any_backup = states.iter().any(|s| s.backup && s.eligible());
    let any_open = states.iter().any(|s| s.fail_open());
    let mut first: Option<usize> = None;
    for round in 0..4 {
        let r = l.next_available_backend_with_key(key);
        match &r {
            None => if any_primary || any_backup || any_open { return Err(format!("round {round}: no backend returned although one may serve")); },
            Some(b) => {
                let i = index_of(&l, b).ok_or_else(|| format!("round {round}: the backend returned is not a member of the list"))?;
                let s = states[i];
                let ok = if any_primary { !s.backup && s.eligible() } else if any_backup { s.backup && s.eligible() } else { any_open && s.fail_open() };
                if !ok { return Err(format!("round {round}: backend #{i} {s:?} was chosen (eligible primary exists: {any_primary}, eligible backup exists: {any_backup})")); }
                if key.is_some() && matches!(policy, LoadBalancingAlgorithms::Hrw | LoadBalancingAlgorithms::Maglev) {
                    match first { None => first = Some(i), Some(f) if f != i => return Err(format!("round {round}: affinity key {key:?} moved from backend #{f} to #{i} while nothing changed")), _ => {} }
                }
            }
        }
    }
    for (i, s) in states.iter().enumerate() {
        let r = l.find_sticky(&format!("sticky-{i}")).map(|b| b.clone());
        match (s.eligible(), r) {
            (true, Some(b)) if index_of(&l, &b) == Some(i) => {}
            (false, None) => {}
            (e, r) => return Err(format!("sticky id of backend #{i} {s:?}: eligible = {e}, find_sticky returned backend {:?}", r.and_then(|b| index_of(&l, &b)))),
        }
    }
    Ok(())
}

/// Affinity across a change of eligibility: the list is built in state A and asked once for the key (policies that build
/// their tables lazily build them now); then the backends move to state B (status / health only) and the same key is
/// asked four times: the answers must be eligible in B and all the same.
fn check_transition(a: &[St], b: &[St], policy: LoadBalancingAlgorithms, key: u64) -> Result<(), String> {
    let mut l = build(a, policy);
    let _ = l.next_available_backend_with_key(Some(key));
    for (i, s) in b.iter().enumerate() {
        let mut be = l.backends[i].borrow_mut();
        be.status = match s.status { 0 => BackendStatus::Normal, 1 => BackendStatus::Closing, _ => BackendStatus::Closed };
        be.health.status = if s.unhealthy { HealthStatus::Unhealthy } else { HealthStatus::Healthy };
    }
    let any_primary = b.iter().any(|s| !s.backup && s.eligible());
    let any_open = b.iter().any(|s| s.fail_open());
    let mut first: Option<usize> = None;
    for round in 0..4 {
        match l.next_available_backend_with_key(Some(key)) {
            None => if any_primary || any_open { return Err(format!("after the change, round {round}: no backend returned although one may serve")); },
            Some(x) => {
                let i = index_of(&l, &x).ok_or_else(|| "the backend returned is not a member of the list".to_string())?;
                if any_primary && !b[i].eligible() { return Err(format!("after the change, round {round}: backend #{i} {:?} was chosen although an eligible one exists", b[i])); }
                match first { None => first = Some(i), Some(f) if f != i => return Err(format!("after the change, round {round}: affinity key {key:#x} moved from backend #{f} to #{i} while nothing changed any more")), _ => {} }
            }
        }
    }
    Ok(())
}

fn main() {
    let thorough = std::env::args().nth(1).map(|s| s == "thorough").unwrap_or(false);
    let mut per: Vec<St> = vec![];
    for status in 0..3u8 { for unhealthy in [false, true] { for failed in [false, true] { for backup in [false, true] { per.push(St { status, unhealthy, failed, backup }); } } } }
    // a smaller per-backend alphabet for the 4-backend universe of the thorough tier (24^4 lists x 6 policies x keys does
    // not finish in an hour): {Normal, Closed} x {healthy, unhealthy} x {primary, backup} and one backing-off primary
    let mut per_small: Vec<St> = vec![];
    for status in [0u8, 2] { for unhealthy in [false, true] { for backup in [false, true] { per_small.push(St { status, unhealthy, failed: false, backup }); } } }
    per_small.push(St { status: 0, unhealthy: false, failed: true, backup: false });
    let policies = [LoadBalancingAlgorithms::RoundRobin, LoadBalancingAlgorithms::Random, LoadBalancingAlgorithms::LeastLoaded, LoadBalancingAlgorithms::PowerOfTwo, LoadBalancingAlgorithms::Hrw, LoadBalancingAlgorithms::Maglev];
    let keys_quick: Vec<Option<u64>> = vec![None, Some(0x9e3779b97f4a7c15u64), Some(7)];
    let keys_thorough: Vec<Option<u64>> = vec![None, Some(0x9e3779b97f4a7c15u64), Some(7), Some(0xc12), Some(u64::MAX)];
    let universes: Vec<(usize, &Vec<St>, &Vec<Option<u64>>)> = if thorough { vec![(3, &per, &keys_thorough), (4, &per_small, &keys_quick)] } else { vec![(3, &per, &keys_quick)] };
    let (mut count, mut failures) = (0u64, Vec::<(String, String)>::new());
    'outer: for (n, alphabet, keys) in universes {
        let mut idx = vec![0usize; n];
        loop {
            let states: Vec<St> = idx.iter().map(|&i| alphabet[i]).collect();
            for p in policies {
                for key in keys.iter().copied() {
                    count += 1;
                    if let Err(e) = check(&states, p, key) {
                        failures.push((format!("backends {states:?}, policy {p:?}, key {key:?}"), e));
                        break 'outer;
                    }
                }
            }
            let mut k = n;
            let mut wrapped = false;
            loop {
                if k == 0 { wrapped = true; break; }
                k -= 1;
                idx[k] += 1;
                if idx[k] < alphabet.len() { break; }
                idx[k] = 0;
            }
            if wrapped { break; }
        }
    }
    // transitions (HRW, Maglev): 4 primary backends, each {healthy, unhealthy, closed} before and after
    if failures.is_empty() {
        let tper = [St { status: 0, unhealthy: false, failed: false, backup: false }, St { status: 0, unhealthy: true, failed: false, backup: false }, St { status: 2, unhealthy: false, failed: false, backup: false }];
        let m = 4usize;
        let total = tper.len().pow(m as u32);
        'tr: for ia in 0..total { for ib in 0..total {
            let dec = |mut x: usize| -> Vec<St> { (0..m).map(|_| { let s = tper[x % 3]; x /= 3; s }).collect() };
            let (a, b) = (dec(ia), dec(ib));
            for p in [LoadBalancingAlgorithms::Hrw, LoadBalancingAlgorithms::Maglev] { for key in [0x9e3779b97f4a7c15u64, 7, 0xc12] {
                count += 1;
                if let Err(e) = check_transition(&a, &b, p, key) { failures.push((format!("backends first {a:?}, then {b:?}, policy {p:?}, key {key:#x}"), e)); break 'tr; }
            } }
        } }
    }
    let fjson: Vec<String> = failures.iter().map(|(i, o)| format!("{{\"input\": {i:?}, \"observed\": {o:?}}}")).collect();
    let universe_text = if thorough { "3 backends in every combination of 24 per-backend states x 6 policies x 5 affinity keys and 4 backends in every combination of 9 per-backend states x 6 policies x 3 affinity keys" } else { "3 backends in every combination of 24 per-backend states x 6 policies x 3 affinity keys" };
    println!("{{\"bound\": \"{universe_text}, 4 selections each, plus every sticky id; plus, for HRW and Maglev, every change of 4 backends between healthy / unhealthy / closed states with the key asked before and 4 times after\", \"states\": {count}, \"pairs\": {count}, \"nontrivial_pairs\": {count}, \"failures\": [{}]}}", fjson.join(", "));
}
