//! Replay driver for C07, worker side (unit U-livepatch): the REAL sozu_lib::http::HttpListener::update_config and
//! sozu_lib::https::HttpsListener::update_config.
//! usage: c07_livepatch http | https | all
//! A listener patch that the worker answers with an error must leave the live listener exactly as it was. The
//! driver sends one patch with good fields (sticky_name, connect_timeout, sozu_id_header) and one field the
//! worker can only reject late (an unparsable answer template) and observes the live configuration through the
//! public L7ListenerHandler getters.
use std::collections::BTreeMap;

use mio::Token;
use sozu_command_lib::proto::command::{
    HttpListenerConfig, HttpsListenerConfig, SocketAddress, UpdateHttpListenerConfig, UpdateHttpsListenerConfig,
};
use sozu_lib::{http::HttpListener, https::HttpsListener, L7ListenerHandler};

fn out(found: bool, scenario: &str, input: String, observed: String, required: &str) -> ! {
    println!("{{\"found\": {found}, \"scenario\": \"{scenario}\", \"input\": {input:?}, \"observed\": {observed:?}, \"required\": {required:?}}}");
    std::process::exit(0)
}

const REQUIRED: &str = "a listener patch answered with an error leaves the live listener unchanged (no partially applied field)";

fn bad_templates() -> Vec<(&'static str, &'static str)> {
    vec![
        ("404", "this is not an HTTP response"),
        ("404", "HTTP/1.1 404 Not Found\r\nContent-Length: 3\r\n\r\n"),
        ("503", "GET / HTTP/1.1\r\nHost: x\r\n\r\n"),
        ("404", "HTTP/1.1 404 Not Found\r\nX: %ROUTE %ROUTE\r\n\r\n"),
    ]
}

fn snapshot(l: &dyn L7ListenerHandler) -> String {
    format!("sticky_name={:?} connect_timeout={} sozu_id_header={:?}", l.get_sticky_name(), l.get_connect_timeout(), l.get_sozu_id_header())
}

fn http(report_none: bool) {
    for (code, body) in bad_templates() {
        let cfg: HttpListenerConfig = sozu_command_lib::config::ListenerBuilder::new_http(SocketAddress::new_v4(127, 0, 0, 1, 18080)).to_http(None).expect("default http listener config");
        let mut l = match HttpListener::new(cfg, Token(1)) { Ok(l) => l, Err(e) => out(false, "http", "HttpListener::new(default)".into(), format!("constructor failed: {e}"), REQUIRED) };
        let before = snapshot(&l);
        let mut answers = BTreeMap::new();
        answers.insert(code.to_string(), body.to_string());
        let patch = UpdateHttpListenerConfig {
            address: SocketAddress::new_v4(127, 0, 0, 1, 18080),
            sticky_name: Some("CHANGED".to_string()),
            connect_timeout: Some(77),
            sozu_id_header: Some("X-Changed-Id".to_string()),
            answers,
            ..Default::default()
        };
        let r = l.update_config(&patch);
        let after = snapshot(&l);
        if r.is_err() && before != after {
            out(true, "http",
                format!("HttpListener::new(default config); update_config(sticky_name=CHANGED, connect_timeout=77, sozu_id_header=X-Changed-Id, answers={{{code:?}: {body:?}}})"),
                format!("update_config returned Err({}); live listener before: {before}; after: {after}", r.unwrap_err()),
                REQUIRED);
        }
    }
    if report_none { out(false, "http", "4 unparsable templates with 3 good fields".into(), "no rejected patch left a trace".into(), REQUIRED) }
}

fn https(report_none: bool) {
    for (code, body) in bad_templates() {
        let cfg: HttpsListenerConfig = sozu_command_lib::config::ListenerBuilder::new_https(SocketAddress::new_v4(127, 0, 0, 1, 18443)).to_tls(None).expect("default https listener config");
        let mut l = match HttpsListener::try_new(cfg, Token(1)) { Ok(l) => l, Err(e) => out(false, "https", "HttpsListener::try_new(default)".into(), format!("constructor failed: {e}"), REQUIRED) };
        let before = snapshot(&l);
        let mut answers = BTreeMap::new();
        answers.insert(code.to_string(), body.to_string());
        let patch = UpdateHttpsListenerConfig {
            address: SocketAddress::new_v4(127, 0, 0, 1, 18443),
            sticky_name: Some("CHANGED".to_string()),
            connect_timeout: Some(77),
            sozu_id_header: Some("X-Changed-Id".to_string()),
            answers,
            ..Default::default()
        };
        let r = l.update_config(&patch);
        let after = snapshot(&l);
        if r.is_err() && before != after {
            out(true, "https",
                format!("HttpsListener::try_new(default config); update_config(sticky_name=CHANGED, connect_timeout=77, sozu_id_header=X-Changed-Id, answers={{{code:?}: {body:?}}})"),
                format!("update_config returned Err({}); live listener before: {before}; after: {after}", r.unwrap_err()),
                REQUIRED);
        }
    }
    if report_none { out(false, "https", "4 unparsable templates with 3 good fields".into(), "no rejected patch left a trace".into(), REQUIRED) }
}

fn main() {
    let a = std::env::args().nth(1).unwrap_or_else(|| "all".into());
    match a.as_str() {
        "http" => http(true),
        "https" => https(true),
        _ => { http(false); https(true) }
    }
}
