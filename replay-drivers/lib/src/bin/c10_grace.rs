//! Bounded native check for C10 (unit N-h2grace): the REAL HttpListener / HttpsListener built from a listener configuration,
//! asked through the public L7ListenerHandler trait for the deadline after which a stopping worker force-closes HTTP/2
//! sessions that still carry requests. usage: c10_grace quick | thorough
//! Documented mapping of `h2_graceful_shutdown_deadline_seconds`: unset -> 5 s; 0 -> never (None: in-flight requests are
//! allowed to finish); n > 0 -> n seconds.
use std::time::Duration;
use mio::Token;
use sozu_command_lib::proto::command::SocketAddress;
use sozu_lib::{http::HttpListener, https::HttpsListener, L7ListenerHandler};

fn main() {
    let knobs: Vec<Option<u32>> = vec![None, Some(0), Some(1), Some(4), Some(5), Some(6), Some(3600), Some(u32::MAX)];
    let (mut n, mut fails): (u64, Vec<(String, String)>) = (0, Vec::new());
    for k in &knobs {
        let want = match k { None => Some(Duration::from_secs(5)), Some(0) => None, Some(s) => Some(Duration::from_secs(*s as u64)) };
        n += 1;
        let mut cfg = sozu_command_lib::config::ListenerBuilder::new_http(SocketAddress::new_v4(127, 0, 0, 1, 18080)).to_http(None).expect("http listener config");
        cfg.h2_graceful_shutdown_deadline_seconds = *k;
        match HttpListener::new(cfg, Token(1)) {
            Ok(l) => { let got = l.get_h2_graceful_shutdown_deadline(); if got != want { fails.push((format!("HTTP listener, h2_graceful_shutdown_deadline_seconds = {k:?}"), format!("force-close deadline {got:?}, documented {want:?}"))); } }
            Err(e) => fails.push((format!("HTTP listener, knob {k:?}"), format!("driver: listener not built: {e}"))),
        }
        n += 1;
        let mut cfg = sozu_command_lib::config::ListenerBuilder::new_https(SocketAddress::new_v4(127, 0, 0, 1, 18443)).to_tls(None).expect("https listener config");
        cfg.h2_graceful_shutdown_deadline_seconds = *k;
        match HttpsListener::try_new(cfg, Token(2)) {
            Ok(l) => { let got = l.get_h2_graceful_shutdown_deadline(); if got != want { fails.push((format!("HTTPS listener, h2_graceful_shutdown_deadline_seconds = {k:?}"), format!("force-close deadline {got:?}, documented {want:?}"))); } }
            Err(e) => fails.push((format!("HTTPS listener, knob {k:?}"), format!("driver: listener not built: {e}"))),
        }
    }
    fails.truncate(3);
    let fl: Vec<String> = fails.iter().map(|(i, o)| format!("{{\"input\": {:?}, \"observed\": {:?}}}", i, o)).collect();
    println!("{{\"bound\": \"8 knob values x HTTP / HTTPS listener\", \"states\": {n}, \"pairs\": {n}, \"nontrivial_pairs\": {n}, \"failures\": [{}]}}", fl.join(", "));
}
