//! Replay driver for C16 (unit U-timer): the REAL sozu_lib::timer::Timer through its public API.
//! usage: c16_timer wakeup
//! Explores every sequence of up to 5 operations over {arm a timeout with one of four delays (two of them in the same
//! wheel slot, one a full lap later in that slot), cancel the oldest / the newest pending timeout} on an 8-slot
//! wheel and checks after each step that the wake-up date the event loop would sleep until (next_poll_date) exists
//! and is not later than the earliest pending deadline (+ one tick of rounding); that cancelling returns the state
//! of the timeout named; and that a second cancel of the same handle returns nothing.
use std::time::{Duration, Instant};

use sozu_lib::timer::{Builder, Timeout, Timer};

fn out(found: bool, scenario: &str, input: String, observed: String, required: &str) -> ! {
    println!("{{\"found\": {found}, \"scenario\": \"{scenario}\", \"input\": {input:?}, \"observed\": {observed:?}, \"required\": {required:?}}}");
    std::process::exit(0)
}
const REQUIRED: &str = "while a timeout is pending the timer's next wake-up is never later than that timeout (idle sessions are reclaimed within their timeouts); cancel returns the named timeout's state exactly once";
const TICK_MS: u64 = 100;

#[derive(Clone, Copy, Debug)]
enum Op { Arm(u64), CancelOldest, CancelNewest }

fn run(seq: &[Op]) -> Option<String> {
    let mut t: Timer<usize> = Builder::default().tick_duration(Duration::from_millis(TICK_MS)).num_slots(8).capacity(16).build();
    let mut pending: Vec<(usize, Timeout, Instant)> = Vec::new();   // (state, handle, deadline)
    let mut next_state = 0usize;
    for (i, op) in seq.iter().enumerate() {
        match *op {
            Op::Arm(ms) => {
                let now = Instant::now();
                let h = t.set_timeout(Duration::from_millis(ms), next_state);
                pending.push((next_state, h, now + Duration::from_millis(ms)));
                next_state += 1;
            }
            Op::CancelOldest | Op::CancelNewest => {
                if pending.is_empty() { continue; }
                let (state, h, _) = if matches!(op, Op::CancelOldest) { pending.remove(0) } else { pending.pop().unwrap() };
                let r = t.cancel_timeout(&h);
                if r != Some(state) { return Some(format!("step {i} ({op:?}): cancel of pending timeout #{state} returned {r:?}")); }
                let again = t.cancel_timeout(&h);
                if again.is_some() { return Some(format!("step {i} ({op:?}): second cancel of timeout #{state} returned {again:?}")); }
            }
        }
        if let Some(earliest) = pending.iter().map(|p| p.2).min() {
            match t.next_poll_date() {
                None => return Some(format!("step {i} ({op:?}): {} timeout(s) pending but next_poll_date() is None", pending.len())),
                Some(d) => {
                    let limit = earliest + Duration::from_millis(2 * TICK_MS);
                    if d > limit {
                        return Some(format!("step {i} ({op:?}): {} timeout(s) pending, earliest deadline in {:?}, next_poll_date() is {:?} away",
                                            pending.len(), earliest.saturating_duration_since(Instant::now()), d.saturating_duration_since(Instant::now())));
                    }
                }
            }
        }
    }
    None
}

fn main() {
    // 8 slots x 100 ms: 300 ms and 1100 ms share slot 3 (one lap apart); 300 ms twice shares slot and tick
    let ops = [Op::Arm(300), Op::Arm(1100), Op::Arm(500), Op::Arm(300), Op::CancelOldest, Op::CancelNewest];
    let depth = 5;
    let mut idx = vec![0usize; depth];
    let mut n = 0u64;
    loop {
        let seq: Vec<Op> = idx.iter().map(|&i| ops[i]).collect();
        n += 1;
        if let Some(obs) = run(&seq) {
            out(true, "wakeup", format!("Timer(tick 100 ms, 8 slots); {seq:?}"), obs, REQUIRED);
        }
        let mut k = depth;
        loop {
            if k == 0 { out(false, "wakeup", format!("all {n} sequences of {depth} operations"), "the wake-up was never late".into(), REQUIRED); }
            k -= 1;
            idx[k] += 1;
            if idx[k] < ops.len() { break; }
            idx[k] = 0;
        }
    }
}
