//! Bounded native enumeration for C04 (unit N-route): the host tree of the REAL sozu_lib::router::Router (add_tree_rule /
//! remove_tree_rule / lookup) against a reference written from the property statement. usage: c04_route quick | thorough
//! Universe: 8 tree frontends whose host patterns overlap on purpose — exact hosts, a wildcard, a leftmost-label regex,
//! a middle-label regex, an exact host that the leftmost regex also matches, an exact host that is a sibling of the
//! middle-label regex's path — with PREFIX / EQUALS paths and a method-specific rule. EVERY history of `depth`
//! additions / removals is applied to a fresh router; after every operation
//!   - the operation must have succeeded when it is meaningful (adding a frontend that is not configured, removing one
//!     that is), whatever else is configured;
//!   - for every probe (9 hosts x 3 paths x 2 methods) the route must be the reference's: among the configured frontends
//!     whose host pattern covers the host, the host pattern of the best class (exact over wildcard over regex) is chosen,
//!     and within it EQUALS over longest PREFIX, method-specific over method-agnostic; no route when nothing covers
//!     the host or no rule of the chosen host matches. The reference only looks at the SET of configured frontends, so
//!     this is also: no dependence on the order of additions, a removed frontend never routes, and a frontend whose host
//!     pattern does not cover a request never changes that request's route.
//! (Probes covered by two different regex host patterns are skipped: their order is documented as undefined.)
use std::collections::BTreeSet;

use sozu_lib::{protocol::http::parser::Method, router::{MethodRule, PathRule, Route, Router}};

#[derive(Clone, Copy)]
enum P { Prefix(&'static str), Equals(&'static str) }
struct F { host: &'static str, path: P, method: Option<&'static str>, cluster: &'static str }
const FS: [F; 8] = [
    F { host: "a.ex.com", path: P::Prefix("/"), method: None, cluster: "F0" },
    F { host: "a.ex.com", path: P::Prefix("/p"), method: None, cluster: "F1" },
    F { host: "*.ex.com", path: P::Prefix("/"), method: None, cluster: "F2" },
    F { host: "/a[0-9]/.ex.com", path: P::Prefix("/"), method: None, cluster: "F3" },
    F { host: "www./.*/.ex.com", path: P::Prefix("/"), method: None, cluster: "F4" },
    F { host: "a1.ex.com", path: P::Prefix("/"), method: None, cluster: "F5" },
    F { host: "api.foo.ex.com", path: P::Prefix("/"), method: None, cluster: "F6" },
    F { host: "b.ex.com", path: P::Equals("/p"), method: Some("GET"), cluster: "F7" },
];
const HOSTS: [&str; 9] = ["a.ex.com", "a1.ex.com", "a2.ex.com", "b.ex.com", "zz.ex.com", "www.foo.ex.com", "api.foo.ex.com", "x.foo.ex.com", "ex.com"];
const PATHS: [&str; 3] = ["/", "/p", "/p/x"];

fn pattern_labels(p: &str) -> Vec<(bool, String)> {
    // split on dots that are outside /.../
    let (mut out, mut cur, mut in_re) = (Vec::new(), String::new(), false);
    for ch in p.chars() {
        if ch == '/' { in_re = !in_re; cur.push(ch); continue; }
        if ch == '.' && !in_re { out.push(cur.clone()); cur.clear(); continue; }
        cur.push(ch);
    }
    out.push(cur);
    out.into_iter().map(|l| if l.len() >= 2 && l.starts_with('/') && l.ends_with('/') { (true, l[1..l.len() - 1].to_string()) } else { (false, l) }).collect()
}
/// 3 exact, 2 wildcard, 1 regex, 0 does not cover
fn covers(pattern: &str, host: &str) -> u8 {
    if let Some(suffix) = pattern.strip_prefix("*.") {
        return match host.split_once('.') { Some((l, rest)) if !l.is_empty() && rest.eq_ignore_ascii_case(suffix) => 2, _ => 0 };
    }
    let labels = pattern_labels(pattern);
    if labels.iter().all(|(re, _)| !*re) { return if pattern.eq_ignore_ascii_case(host) { 3 } else { 0 }; }
    let hl: Vec<&str> = host.split('.').collect();
    if hl.len() != labels.len() { return 0; }
    for ((re, l), h) in labels.iter().zip(hl.iter()) {
        if *re { if !regex::Regex::new(&format!("\\A(?:{l})\\z")).unwrap().is_match(h) { return 0; } } else if !l.eq_ignore_ascii_case(h) { return 0; }
    }
    1
}
fn path_rank(p: P, path: &str) -> Option<(u8, usize)> {
    match p { P::Equals(e) => if e == path { Some((2, e.len())) } else { None }, P::Prefix(x) => if path.starts_with(x) { Some((0, x.len())) } else { None } }
}
fn reference(set: &BTreeSet<usize>, host: &str, path: &str, method: &str) -> Option<Option<&'static str>> {
    let cov: Vec<(usize, u8)> = set.iter().map(|i| (*i, covers(FS[*i].host, host))).filter(|(_, c)| *c > 0).collect();
    let Some(best) = cov.iter().map(|(_, c)| *c).max() else { return Some(None) };
    let pats: BTreeSet<&str> = cov.iter().filter(|(_, c)| *c == best).map(|(i, _)| FS[*i].host).collect();
    if pats.len() > 1 { return None; }   // two regex host patterns cover the host: documented as undefined
    let pat = *pats.iter().next().unwrap();
    let mut bestf: Option<((u8, usize, u8), &'static str)> = None;
    for i in set.iter().filter(|i| FS[**i].host == pat) {
        let f = &FS[*i];
        let m = match f.method { None => 0u8, Some(m) if m == method => 1, Some(_) => continue };
        if let Some((k, l)) = path_rank(f.path, path) {
            let r = (k, l, m);
            if bestf.map_or(true, |(br, _)| r > br) { bestf = Some((r, f.cluster)); }
        }
    }
    Some(bestf.map(|(_, c)| c))
}

#[derive(Clone, Copy, Debug)]
enum Op { Add(usize), Remove(usize) }

fn run(seq: &[Op]) -> Option<String> {
    let mut r = Router::new();
    let mut set: BTreeSet<usize> = BTreeSet::new();
    for (step, op) in seq.iter().enumerate() {
        let (i, adding) = match *op { Op::Add(i) => (i, true), Op::Remove(i) => (i, false) };
        let f = &FS[i];
        let pr = match f.path { P::Prefix(p) => PathRule::Prefix(p.to_string()), P::Equals(p) => PathRule::Equals(p.to_string()) };
        let mr = MethodRule::new(f.method.map(|m| m.to_string()));
        let configured: Vec<&str> = set.iter().map(|k| FS[*k].cluster).collect();
        if adding {
            let ok = r.add_tree_rule(f.host.as_bytes(), &pr, &mr, &Route::ClusterId(f.cluster.to_string()));
            if !set.contains(&i) {
                if !ok { return Some(format!("step {step}: adding frontend {} (host {}) to a router holding {configured:?} was refused", f.cluster, f.host)); }
                set.insert(i);
            }
        } else {
            let ok = r.remove_tree_rule(f.host.as_bytes(), &pr, &mr);
            if set.contains(&i) {
                if !ok { return Some(format!("step {step}: removing configured frontend {} (host {}) failed", f.cluster, f.host)); }
                set.remove(&i);
            }
        }
        for host in HOSTS { for path in PATHS { for (mname, method) in [("GET", Method::Get), ("POST", Method::Post)] {
            let Some(want) = reference(&set, host, path, mname) else { continue };
            let got: Option<String> = match r.lookup(host, path, &method) { Ok(rr) => rr.cluster_id.clone(), Err(_) => None };
            if got.as_deref() != want {
                let configured: Vec<String> = set.iter().map(|k| format!("{}={} {}", FS[*k].cluster, FS[*k].host, match FS[*k].path { P::Prefix(p) => format!("PREFIX {p}"), P::Equals(p) => format!("EQUALS {p}") })).collect();
                return Some(format!("after step {step} ({op:?}) the configured tree frontends are {configured:?}; {mname} {host}{path} is routed to {got:?}, by the documented precedence it must be {want:?}"));
            }
        } } }
    }
    None
}

fn main() {
    let tier = std::env::args().nth(1).unwrap_or_else(|| "quick".into());
    let depth: usize = if tier == "thorough" { 5 } else { 4 };
    let mut ops: Vec<Op> = Vec::new();
    for i in 0..FS.len() { ops.push(Op::Add(i)); ops.push(Op::Remove(i)); }
    let nops = ops.len() as u64;
    let total = nops.pow(depth as u32);
    let threads = 16u64;
    let ops = std::sync::Arc::new(ops);
    let handles: Vec<_> = (0..threads).map(|t| { let ops = ops.clone(); std::thread::spawn(move || {
        let (mut n, mut fails): (u64, Vec<(String, String)>) = (0, Vec::new());
        let mut k = t;
        while k < total {
            let mut x = k;
            let seq: Vec<Op> = (0..depth).map(|_| { let o = ops[(x % nops) as usize]; x /= nops; o }).collect();
            n += 1;
            let r = std::panic::catch_unwind(|| run(&seq));
            let r = match r { Ok(r) => r, Err(e) => Some(format!("the real code panicked: {}", e.downcast_ref::<String>().cloned().or_else(|| e.downcast_ref::<&str>().map(|s| s.to_string())).unwrap_or_default())) };
            if let Some(obs) = r { if fails.len() < 40 { fails.push((format!("{seq:?}"), obs)); } }
            k += threads;
        }
        (n, fails)
    }) }).collect();
    std::panic::set_hook(Box::new(|_| {}));
    let (mut n, mut fails) = (0u64, Vec::new());
    for h in handles { let (a, f) = h.join().unwrap(); n += a; fails.extend(f); }
    // one failure per distinct observation shape (the text after the step number), shortest history first
    fails.sort_by_key(|f: &(String, String)| f.0.len());
    let mut seen = BTreeSet::new();
    let mut out = Vec::new();
    for (i, o) in fails { let key: String = o.split("; ").last().unwrap_or("").chars().take(60).collect(); if seen.insert(key) { out.push((i, o)); } if out.len() >= 4 { break; } }
    let fl: Vec<String> = out.iter().map(|(i, o)| format!("{{\"input\": {:?}, \"observed\": {:?}}}", i, o)).collect();
    println!("{{\"bound\": \"every history of {depth} additions / removals over 8 tree frontends with overlapping exact / wildcard / regex host patterns; 54 probes after every operation\", \"states\": {n}, \"pairs\": {}, \"nontrivial_pairs\": {n}, \"failures\": [{}]}}", n * depth as u64 * 54, fl.join(", "));
}
