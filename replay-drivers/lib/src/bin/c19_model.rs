//! Bounded native enumeration for C19 (unit N-udp): the REAL sozu_lib::protocol::udp::UdpManager through its public
//! API, against a reference model of who may receive what. usage: c19_model quick | thorough
//!
//! Explores EVERY history of `depth` operations, in both affinity modes, over
//!   - a client datagram from one of three sources (two share an IP and differ by port, the third has its own IP),
//!   - a backend datagram tagged with flow id 0, 1 or 2 (live or not),
//!   - a backend resolution for flow id 0, 1 or 2 (awaiting, established = late/duplicate, or gone = stale); successive
//!     resolutions alternate between two backend addresses, so a late one always names ANOTHER backend,
//!   - the clock advancing by 10 s or 31 s (timeouts are 30 s) followed by what the shell does: handle_timeout when
//!     the armed deadline has passed,
//!   - SetMaxFlows(1), SetMaxFlows(3) (initial cap 2), Drain, SetCluster(requests = 2, responses = 1), abort of flow
//!     0/1/2, close_all (mass teardown), SetCluster flipping the affinity key (ip+port <-> ip only) while flows are live,
//! and checks after every operation, from the property statement:
//!   stickiness  every SendToBackend produced for a flow goes to the backend address of the FIRST resolution of that
//!               flow, and only client datagrams of that flow's key produce it;
//!   isolation   a backend datagram of flow f produces exactly one SendToClient, to the client that opened f, with the
//!               same bytes; nothing is sent for an unknown / not established flow;
//!   integrity   payloads are byte-identical, each forwarded at most once, in arrival order (a datagram may be dropped:
//!               while the backend is not resolved only one is buffered);
//!   cap         a datagram of an untracked key opens a flow iff the manager is not draining and live < cap in force; it
//!               opens exactly one; reconfiguration, shedding and stale events never change the live set;
//!   teardown    CloseFlow(id) is emitted only for a live id and exactly once: when the flow's captured requests /
//!               responses budget is reached, when it has been idle for its timeout and the timer fired, on abort, on
//!               close_all (every live flow, nothing else); afterwards flow(id) is None, flow_count() equals the model,
//!               and the key is free again; a flow with recent traffic is never reaped; whenever a live flow's idle
//!               deadline has passed, poll_timeout() is due as well (otherwise the shell would never reap it).
//! The driver crate builds the real code with debug assertions OFF (as in a release build), so the checks above are
//! the only oracle; a panic of the real code is reported as a failure.
use std::{
    collections::BTreeMap,
    net::{IpAddr, Ipv4Addr, SocketAddr},
    panic::{catch_unwind, AssertUnwindSafe},
    time::{Duration, Instant},
};

use sozu_lib::protocol::udp::{CloseReason, ClusterConfig, ConfigEvent, FlowId, ManagerInput, Output, UdpManager};

const TIMEOUT: Duration = Duration::from_secs(30);

fn client(n: usize) -> SocketAddr {
    match n {
        0 => SocketAddr::new(IpAddr::V4(Ipv4Addr::new(10, 0, 0, 1)), 4001),
        1 => SocketAddr::new(IpAddr::V4(Ipv4Addr::new(10, 0, 0, 1)), 4002),
        _ => SocketAddr::new(IpAddr::V4(Ipv4Addr::new(10, 0, 0, 2)), 4001),
    }
}
fn backend(n: usize) -> SocketAddr { SocketAddr::new(IpAddr::V4(Ipv4Addr::new(127, 0, 0, 1 + n as u8)), 5300) }

#[derive(Clone, Copy, Debug, PartialEq)]
enum Op { Cd(usize), Bd(usize), Br(usize), Tick(u64), SetMax(usize), Drain, SetCluster, Flip, Abort(usize), CloseAll }

const OPS: [Op; 20] = [
    Op::Cd(0), Op::Cd(1), Op::Cd(2), Op::Bd(0), Op::Bd(1), Op::Bd(2), Op::Br(0), Op::Br(1), Op::Br(2),
    Op::Tick(10), Op::Tick(31), Op::SetMax(1), Op::SetMax(3), Op::Drain, Op::SetCluster, Op::Flip,
    Op::Abort(0), Op::Abort(1), Op::Abort(2), Op::CloseAll,
];

#[derive(Clone, Debug)]
struct MFlow {
    key: (IpAddr, u16),
    client: SocketAddr,
    backend: Option<SocketAddr>,
    /// sequence numbers of datagrams received on this flow and not yet forwarded (candidates for the flush)
    buffered: Vec<u32>,
    last_forwarded: Option<u32>,
    requests_budget: u32,
    responses_budget: u32,
    forwarded: u32,
    replied: u32,
    deadline: Duration,
}

fn key_of(src: SocketAddr, with_port: bool) -> (IpAddr, u16) { (src.ip(), if with_port { src.port() } else { 0 }) }

fn drain(m: &mut UdpManager) -> Vec<Output> { let mut v = Vec::new(); while let Some(o) = m.poll_output() { v.push(o); } v }

fn cfg(with_port: bool, requests: u32, responses: u32) -> ClusterConfig {
    ClusterConfig { cluster: "c".to_owned(), affinity_with_port: with_port, requests, responses, front_timeout: TIMEOUT,
                    back_timeout: TIMEOUT, ..Default::default() }
}

fn closes(outs: &[Output]) -> Vec<FlowId> { outs.iter().filter_map(|o| match o { Output::CloseFlow(f) => Some(*f), _ => None }).collect() }
fn to_backend(outs: &[Output]) -> Vec<(SocketAddr, Vec<u8>)> { outs.iter().filter_map(|o| match o { Output::SendToBackend(t) => Some((t.dst, t.payload.clone())), _ => None }).collect() }
fn to_client(outs: &[Output]) -> Vec<(SocketAddr, Vec<u8>)> { outs.iter().filter_map(|o| match o { Output::SendToClient(t) => Some((t.dst, t.payload.clone())), _ => None }).collect() }
fn selects(outs: &[Output]) -> Vec<FlowId> { outs.iter().filter_map(|o| match o { Output::SelectBackend { flow, .. } => Some(*flow), _ => None }).collect() }
fn opens(outs: &[Output]) -> Vec<(FlowId, SocketAddr)> { outs.iter().filter_map(|o| match o { Output::OpenUpstream { flow, backend } => Some((*flow, *backend)), _ => None }).collect() }

fn payload(seq: u32) -> Vec<u8> { format!("datagram-{seq:04}").into_bytes() }

fn run(seq: &[Op], with_port0: bool) -> Option<String> {
    let mut with_port = with_port0;
    let mut m = UdpManager::new(cfg(with_port, 0, 0), 2, 65535, 7);
    let t0 = Instant::now();
    let mut now = Duration::ZERO;
    let (mut cap, mut draining) = (2usize, false);
    let (mut requests_budget, mut responses_budget) = (0u32, 0u32);
    let mut flows: BTreeMap<FlowId, MFlow> = BTreeMap::new();
    let mut n_br = 0usize;
    let mut next_seq = 0u32;

    for (i, op) in seq.iter().enumerate() {
        let at = t0 + now;
        let live_before = flows.len();
        let mode_now = with_port;
        let ctx = move |what: String| Some(format!("step {i} ({op:?}) [affinity_with_port = {mode_now}]: {what}"));
        macro_rules! nothing_else {
            ($outs:expr, $allow_close:expr) => {
                if !$allow_close && !closes(&$outs).is_empty() { return ctx(format!("unexpected CloseFlow {:?}", closes(&$outs))); }
            };
        }
        match *op {
            Op::Cd(c) => {
                let src = client(c);
                let key = key_of(src, with_port);
                let sq = next_seq; next_seq += 1;
                let p = payload(sq);
                m.handle_input(ManagerInput::ClientDatagram { src, payload: &p }, at);
                let outs = drain(&mut m);
                if !to_client(&outs).is_empty() { return ctx(format!("a client datagram produced SendToClient {:?}", to_client(&outs))); }
                if !opens(&outs).is_empty() { return ctx("a client datagram produced OpenUpstream".into()); }
                let tracked = flows.iter().find(|(_, f)| f.key == key).map(|(id, _)| *id);
                match tracked {
                    Some(id) => {
                        if !selects(&outs).is_empty() { return ctx(format!("a datagram of the tracked key of flow {id} asked for a new backend selection")); }
                        let f = flows.get_mut(&id).unwrap();
                        f.deadline = now + TIMEOUT;
                        match f.backend {
                            Some(b) => {
                                let sends = to_backend(&outs);
                                if sends.len() != 1 || sends[0].0 != b || sends[0].1 != p {
                                    return ctx(format!("flow {id} is bound to {b}: SendToBackend outputs = {:?}, expected exactly one to {b} carrying {:?}", sends.iter().map(|s| (s.0, String::from_utf8_lossy(&s.1).into_owned())).collect::<Vec<_>>(), String::from_utf8_lossy(&p)));
                                }
                                f.last_forwarded = Some(sq);
                                f.forwarded += 1;
                                let exhausted = f.requests_budget != 0 && f.forwarded >= f.requests_budget;
                                let cl = closes(&outs);
                                if exhausted {
                                    if cl != vec![id] { return ctx(format!("flow {id} reached its requests budget ({}): CloseFlow outputs = {cl:?}, expected exactly [{id}]", f.requests_budget)); }
                                    flows.remove(&id);
                                } else if !cl.is_empty() {
                                    return ctx(format!("flow {id} has budget left (forwarded {} of {}): CloseFlow {cl:?}", f.forwarded, f.requests_budget));
                                }
                            }
                            None => {
                                if !to_backend(&outs).is_empty() { return ctx(format!("flow {id} has no backend yet but SendToBackend {:?} was emitted", to_backend(&outs))); }
                                nothing_else!(outs, false);
                                f.buffered.push(sq);
                            }
                        }
                    }
                    None => {
                        let should = !draining && live_before < cap;
                        let sel = selects(&outs);
                        if !to_backend(&outs).is_empty() { return ctx("a datagram of an untracked key was forwarded before any backend was resolved".into()); }
                        nothing_else!(outs, false);
                        if should {
                            if sel.len() != 1 { return ctx(format!("live = {live_before} < cap = {cap}, not draining: SelectBackend outputs = {sel:?}, expected exactly one")); }
                            let id = sel[0];
                            if flows.contains_key(&id) { return ctx(format!("the new flow got id {id}, which is still live")); }
                            flows.insert(id, MFlow { key, client: src, backend: None, buffered: vec![sq], last_forwarded: None,
                                                     requests_budget, responses_budget, forwarded: 0, replied: 0, deadline: now + TIMEOUT });
                        } else if !sel.is_empty() {
                            return ctx(format!("live = {live_before}, cap in force = {cap}, draining = {draining}: a new flow was admitted ({sel:?})"));
                        }
                    }
                }
            }
            Op::Bd(id) => {
                let p = format!("reply-{i}").into_bytes();
                m.handle_input(ManagerInput::BackendDatagram { flow: id, payload: &p }, at);
                let outs = drain(&mut m);
                if !to_backend(&outs).is_empty() { return ctx("a backend datagram produced SendToBackend".into()); }
                if !selects(&outs).is_empty() || !opens(&outs).is_empty() { return ctx("a backend datagram produced SelectBackend / OpenUpstream".into()); }
                let sends = to_client(&outs);
                match flows.get_mut(&id) {
                    Some(f) if f.backend.is_some() => {
                        if sends.len() != 1 || sends[0].0 != f.client || sends[0].1 != p {
                            return ctx(format!("flow {id} belongs to client {}: SendToClient outputs = {sends:?}, expected exactly one to that client carrying the reply", f.client));
                        }
                        f.deadline = now + TIMEOUT;
                        f.replied += 1;
                        let exhausted = f.responses_budget != 0 && f.replied >= f.responses_budget;
                        let cl = closes(&outs);
                        if exhausted {
                            if cl != vec![id] { return ctx(format!("flow {id} reached its responses budget: CloseFlow outputs = {cl:?}, expected exactly [{id}]")); }
                            flows.remove(&id);
                        } else if !cl.is_empty() {
                            return ctx(format!("flow {id} has responses budget left: CloseFlow {cl:?}"));
                        }
                    }
                    _ => {
                        if !sends.is_empty() { return ctx(format!("flow {id} is not an established live flow, yet SendToClient {sends:?}")); }
                        nothing_else!(outs, false);
                    }
                }
            }
            Op::Br(id) => {
                let addr = backend(n_br % 2); n_br += 1;
                m.handle_input(ManagerInput::BackendResolved { flow: id, backend: format!("b{}", n_br % 2), addr }, at);
                let outs = drain(&mut m);
                if !to_client(&outs).is_empty() || !selects(&outs).is_empty() { return ctx("a backend resolution produced SendToClient / SelectBackend".into()); }
                match flows.get_mut(&id) {
                    Some(f) if f.backend.is_none() => {
                        if opens(&outs) != vec![(id, addr)] { return ctx(format!("flow {id} awaits its backend: OpenUpstream outputs = {:?}, expected exactly ({id}, {addr})", opens(&outs))); }
                        f.backend = Some(addr);
                        f.deadline = now + TIMEOUT;
                        let sends = to_backend(&outs);
                        let mut last = f.last_forwarded;
                        for (dst, pl) in &sends {
                            let Some(k) = f.buffered.iter().position(|s| payload(*s) == *pl) else {
                                return ctx(format!("flush of flow {id} carries {:?}, which is not a datagram buffered on this flow ({:?})", String::from_utf8_lossy(pl), f.buffered));
                            };
                            let s = f.buffered[k];
                            if *dst != addr { return ctx(format!("flush of flow {id} went to {dst}, resolved backend is {addr}")); }
                            if last.is_some_and(|l| s <= l) { return ctx(format!("flush of flow {id} duplicates or reorders datagram {s}")); }
                            last = Some(s);
                            f.forwarded += 1;
                        }
                        if sends.is_empty() { return ctx(format!("flow {id} was resolved with datagrams {:?} buffered but none was flushed", f.buffered)); }
                        f.last_forwarded = last;
                        f.buffered.clear();
                        let exhausted = f.requests_budget != 0 && f.forwarded >= f.requests_budget;
                        let cl = closes(&outs);
                        if exhausted {
                            if cl != vec![id] { return ctx(format!("flow {id} reached its requests budget at the flush: CloseFlow outputs = {cl:?}")); }
                            flows.remove(&id);
                        } else if !cl.is_empty() { return ctx(format!("unexpected CloseFlow {cl:?} at the flush of flow {id}")); }
                    }
                    Some(f) => {
                        // late / duplicate resolution: the flow stays bound to its first backend
                        if !opens(&outs).is_empty() || !to_backend(&outs).is_empty() { return ctx(format!("flow {id} is already bound to {}: a late resolution to {addr} produced {outs:?}", f.backend.unwrap())); }
                        nothing_else!(outs, false);
                    }
                    None => {
                        if !opens(&outs).is_empty() || !to_backend(&outs).is_empty() { return ctx(format!("flow {id} is not live: a stale resolution produced {outs:?}")); }
                        nothing_else!(outs, false);
                    }
                }
            }
            Op::Tick(s) => {
                now += Duration::from_secs(s);
                let at = t0 + now;
                let due: Vec<FlowId> = flows.iter().filter(|(_, f)| f.deadline <= now).map(|(id, _)| *id).collect();
                let armed = m.poll_timeout();
                if !due.is_empty() && !armed.is_some_and(|d| d <= at) {
                    return ctx(format!("flows {due:?} have been idle for their whole timeout but the armed deadline is {:?} (now = +{now:?}): the shell never reaps them", armed.map(|d| d.duration_since(t0))));
                }
                if armed.is_some_and(|d| d <= at) {
                    m.handle_timeout(at);
                    let outs = drain(&mut m);
                    if !to_backend(&outs).is_empty() || !to_client(&outs).is_empty() { return ctx("a timer firing sent a datagram".into()); }
                    let mut cl = closes(&outs); cl.sort();
                    if cl != due { return ctx(format!("idle flows at +{now:?} are {due:?}; CloseFlow outputs = {cl:?}")); }
                    for id in due { flows.remove(&id); }
                }
            }
            Op::SetMax(n) => {
                m.handle_input(ManagerInput::Config(ConfigEvent::SetMaxFlows(n)), at);
                let outs = drain(&mut m);
                nothing_else!(outs, false);
                cap = n;
            }
            Op::Drain => {
                m.handle_input(ManagerInput::Config(ConfigEvent::Drain), at);
                let outs = drain(&mut m);
                nothing_else!(outs, false);
                draining = true;
            }
            Op::SetCluster => {
                m.handle_input(ManagerInput::Config(ConfigEvent::SetCluster(cfg(with_port, 2, 1))), at);
                let outs = drain(&mut m);
                nothing_else!(outs, false);
                requests_budget = 2; responses_budget = 1;
            }
            Op::Flip => {
                // cluster reconfiguration that changes the affinity key: it applies to NEW flows; live flows keep the key
                // they were opened under and stay reachable by it only (a client of a live flow opens a second one)
                with_port = !with_port;
                m.handle_input(ManagerInput::Config(ConfigEvent::SetCluster(cfg(with_port, requests_budget, responses_budget))), at);
                let outs = drain(&mut m);
                nothing_else!(outs, false);
            }
            Op::Abort(id) => {
                m.abort_flow(id, at, CloseReason::Aborted);
                let outs = drain(&mut m);
                let cl = closes(&outs);
                if !to_backend(&outs).is_empty() || !to_client(&outs).is_empty() { return ctx("an abort sent a datagram".into()); }
                if flows.remove(&id).is_some() {
                    if cl != vec![id] { return ctx(format!("abort of live flow {id}: CloseFlow outputs = {cl:?}, expected exactly [{id}]")); }
                } else if !cl.is_empty() { return ctx(format!("abort of flow {id}, which is not live: CloseFlow {cl:?}")); }
            }
            Op::CloseAll => {
                m.close_all(at);
                let outs = drain(&mut m);
                if !to_backend(&outs).is_empty() || !to_client(&outs).is_empty() { return ctx("close_all sent a datagram".into()); }
                let mut cl = closes(&outs); cl.sort();
                let live: Vec<FlowId> = flows.keys().copied().collect();
                if cl != live { return ctx(format!("close_all with live flows {live:?}: CloseFlow outputs = {cl:?}")); }
                flows.clear();
                if m.poll_timeout().is_some() { return ctx("close_all left a timer armed".into()); }
            }
        }
        // resources: the manager's live set is the model's
        if m.flow_count() != flows.len() { return ctx(format!("flow_count() = {}, the reference model has {:?} live", m.flow_count(), flows.keys().collect::<Vec<_>>())); }
        for id in 0..4usize {
            match (m.flow(id), flows.get(&id)) {
                (Some(_), None) => return ctx(format!("flow({id}) is still there although it was torn down / never opened")),
                (None, Some(_)) => return ctx(format!("flow({id}) is gone although no CloseFlow({id}) was emitted")),
                (Some(r), Some(f)) => {
                    if r.client != f.client { return ctx(format!("flow({id}).client = {}, opened by {}", r.client, f.client)); }
                    if r.backend_addr != f.backend { return ctx(format!("flow({id}).backend_addr = {:?}, first resolution = {:?}", r.backend_addr, f.backend)); }
                }
                (None, None) => {}
            }
        }
        if !flows.is_empty() && m.poll_timeout().is_none() { return ctx(format!("{} live flows but no timer armed", flows.len())); }
    }
    None
}

fn main() {
    let tier = std::env::args().nth(1).unwrap_or_else(|| "quick".into());
    let depth: usize = if tier == "thorough" { 7 } else { 6 };
    std::panic::set_hook(Box::new(|_| {}));
    let threads = 16usize;
    let total: u64 = (OPS.len() as u64).pow(depth as u32);
    let handles: Vec<_> = (0..threads).map(|t| {
        std::thread::spawn(move || {
            let mut fails: Vec<(String, String)> = Vec::new();
            let (mut n, mut nontrivial) = (0u64, 0u64);
            let mut k = t as u64;
            while k < total {
                let mut seq = Vec::with_capacity(depth);
                let mut x = k;
                for _ in 0..depth { seq.push(OPS[(x % OPS.len() as u64) as usize]); x /= OPS.len() as u64; }
                for with_port in [true, false] {
                    n += 1;
                    if seq.iter().any(|o| matches!(o, Op::Cd(_))) { nontrivial += 1; }
                    let r = catch_unwind(AssertUnwindSafe(|| run(&seq, with_port)));
                    let r = match r { Ok(r) => r, Err(e) => Some(format!("[affinity_with_port = {with_port}] the real code panicked: {}", e.downcast_ref::<String>().cloned().or_else(|| e.downcast_ref::<&str>().map(|s| s.to_string())).unwrap_or_default())) };
                    if let Some(obs) = r { if fails.len() < 3 { fails.push((format!("{seq:?}"), obs)); } }
                }
                k += threads as u64;
            }
            (n, nontrivial, fails)
        })
    }).collect();
    let (mut n, mut nontrivial, mut fails) = (0u64, 0u64, Vec::new());
    for h in handles { let (a, b, f) = h.join().unwrap(); n += a; nontrivial += b; fails.extend(f); }
    fails.sort_by_key(|f| f.0.len());
    fails.truncate(3);
    let js = |s: &str| format!("{:?}", s);
    let fl: Vec<String> = fails.iter().map(|(i, o)| format!("{{\"input\": {}, \"observed\": {}}}", js(i), js(o))).collect();
    println!("{{\"bound\": \"every history of {depth} operations over {} operations x 2 affinity modes, cap 2, 3 client sources, 2 backends, 30 s timeouts\", \"states\": {n}, \"pairs\": {n}, \"nontrivial_pairs\": {nontrivial}, \"failures\": [{}]}}", OPS.len(), fl.join(", "));
}
