//! Replay driver for C09 (unit U-gather): the REAL main-process hub (CommandHub::run) with one registered
//! worker that never answers; worker_timeout = 1 s. A client sends a worker-bound request over the real
//! command socket and reads the final answer. Required: a failure. (debug assertions are off here: with them
//! on, the same schedule panics the main process in WorkerTask::on_finish.)
//! usage: c09_hub silent-worker
use std::{os::fd::IntoRawFd, os::unix::net::UnixStream as StdUnixStream, time::Duration};

use mio::net::UnixListener;
use sozu::command::server::CommandHub;
use sozu_command_lib::{
    channel::Channel,
    config::Config,
    proto::command::{request::RequestType, Cluster, Request, Response, ResponseStatus, WorkerRequest, WorkerResponse},
    scm_socket::ScmSocket,
};

fn out(found: bool, input: &str, observed: String, required: &str) -> ! {
    println!("{{\"found\": {found}, \"scenario\": \"silent-worker\", \"input\": {input:?}, \"observed\": {observed:?}, \"required\": {required:?}}}");
    std::process::exit(0)
}

fn main() {
    if std::env::var("VERIF_DEBUG").is_ok() { let _ = sozu_command_lib::logging::setup_default_logging(false, "debug", "VERIF"); }
    let dir = std::env::temp_dir().join(format!("verif-c09-{}", std::process::id()));
    std::fs::create_dir_all(&dir).unwrap();
    let path = dir.join("cmd.sock");
    let _ = std::fs::remove_file(&path);
    let listener = UnixListener::bind(&path).expect("bind");
    let mut config = Config::default();
    config.worker_timeout = 1;
    config.worker_automatic_restart = false;
    config.worker_count = 1;
    config.command_buffer_size = 16384;
    config.max_command_buffer_size = 1 << 20;
    config.command_socket = path.to_string_lossy().to_string();
    let mut hub = CommandHub::new(listener, config, "sozu".to_owned()).expect("hub");

    // one worker whose end of the channel is kept open but never read nor answered
    let (main_side, worker_side): (Channel<WorkerRequest, WorkerResponse>, Channel<WorkerResponse, WorkerRequest>) =
        Channel::generate_nonblocking(16384, 1 << 20).expect("channel");
    let (scm_a, scm_b) = StdUnixStream::pair().unwrap();
    let scm = ScmSocket::new(scm_a.into_raw_fd()).expect("scm");
    hub.server.register_worker(0, std::process::id() as i32, main_side, scm).expect("register worker");
    std::mem::forget(worker_side);
    std::mem::forget(scm_b);

    let client_path = path.clone();
    std::thread::spawn(move || {
        std::thread::sleep(Duration::from_millis(300));
        let mut ch: Channel<Request, Response> =
            Channel::from_path(client_path.to_str().unwrap(), 16384, 1 << 20).expect("client connect");
        ch.blocking().unwrap();
        let req: Request = RequestType::AddCluster(Cluster { cluster_id: "c".into(), ..Default::default() }).into();
        ch.write_message(&req).expect("send");
        let input = "main process with 1 registered worker that stays silent, worker_timeout = 1 s; client sends AddCluster{cluster_id: \"c\"}";
        loop {
            match ch.read_message_blocking_timeout(Some(Duration::from_secs(8))) {
                Ok(resp) => {
                    let st = ResponseStatus::try_from(resp.status).ok();
                    match st {
                        Some(ResponseStatus::Processing) => continue,
                        Some(ResponseStatus::Ok) => out(true, input, format!("final answer: OK {:?}", resp.message),
                            "the final answer is a failure when a worker did not answer within the worker timeout"),
                        _ => out(false, input, format!("final answer: {:?} {:?}", st, resp.message), ""),
                    }
                }
                Err(e) => out(true, input, format!("no final answer within 8 s: {e:?}"), "exactly one final answer, a failure, after the worker timeout"),
            }
        }
    });
    hub.run();
}
