    // Kani harnesses for lib/src/protocol/mux/router.rs SNI binding helpers — appended to the REAL file in a scratch copy.
    const ALPHA: [u8; 8] = [b'a', b'B', b'b', b'.', b'*', b':', b'1', b'c'];

    fn sym<const N: usize>() -> [u8; N] {
        let mut a = [0u8; N];
        let mut i = 0;
        while i < N {
            let k: u8 = kani::any();
            a[i] = ALPHA[(k & 7) as usize];
            i += 1;
        }
        a
    }
    fn as_str(b: &[u8]) -> &str { unsafe { std::str::from_utf8_unchecked(b) } }   // ALPHA is ASCII

    // ---- independent specification (byte level) ----
    fn lower(b: u8) -> u8 { if b >= b'A' && b <= b'Z' { b + 32 } else { b } }
    fn ci_eq(a: &[u8], b: &[u8]) -> bool {
        if a.len() != b.len() { return false; }
        let mut i = 0;
        while i < a.len() { if lower(a[i]) != lower(b[i]) { return false; } i += 1; }
        true
    }
    fn has(b: &[u8], c: u8) -> bool { let mut i = 0; while i < b.len() { if b[i] == c { return true; } i += 1; } false }
    fn all_digits(b: &[u8]) -> bool { let mut i = 0; while i < b.len() { if !(b[i] >= b'0' && b[i] <= b'9') { return false; } i += 1; } true }
    // authority without an all-digit, non-empty port
    fn spec_strip_port(a: &[u8]) -> &[u8] {
        let mut i = a.len();
        while i > 0 {
            if a[i - 1] == b':' {
                let port = &a[i..];
                if !port.is_empty() && all_digits(port) { return &a[..i - 1]; }
                return a;
            }
            i -= 1;
        }
        a
    }
    fn spec_host(a: &[u8]) -> &[u8] {
        let h = spec_strip_port(a);
        if !h.is_empty() && h[h.len() - 1] == b'.' { &h[..h.len() - 1] } else { h }
    }
    // RFC 6125 §6.4.3
    fn covers(name: &[u8], host: &[u8]) -> bool {
        if name.len() >= 2 && name[0] == b'*' && name[1] == b'.' {
            let suffix = &name[2..];
            if has(suffix, b'*') { return false; }
            // host = <label> '.' <rest>, label non-empty, first dot splits
            let mut d = 0;
            while d < host.len() && host[d] != b'.' { d += 1; }
            if d == 0 || d >= host.len() { return false; }
            ci_eq(&host[d + 1..], suffix)
        } else {
            !has(name, b'*') && ci_eq(name, host)
        }
    }

    fn check_cert(auth: &[u8], name: &[u8]) {
        let names = vec![as_str(name).to_string()];
        match authority_matched_cert_name(as_str(auth), &names) {
            Some(n) => {
                assert!(n.as_bytes() == name);
                let host = spec_host(auth);
                assert!(!host.is_empty());
                assert!(covers(name, host));
            }
            None => {}
        }
    }

    #[kani::proof]
    #[kani::unwind(12)]
    fn cert_name_covers_authority() {
        let a: [u8; 5] = sym();
        let n: [u8; 5] = sym();
        kani::cover!(a[0] == b'a');
        assert!(authority_matched_cert_name(as_str(&a[..4]), &[]).is_none());
        check_cert(&a[..4], &n[..4]);
    }

    fn check_sni(auth: &[u8], sni: &[u8]) {
        if authority_matches_sni(as_str(auth), as_str(sni)) {
            let host = spec_strip_port(auth);
            assert!(host.len() == sni.len());
            let mut i = 0;
            while i < sni.len() { assert!(host[i].to_ascii_lowercase() == sni[i]); i += 1; }
        }
    }

    #[kani::proof]
    #[kani::unwind(12)]
    fn sni_binding_exact() {
        let a: [u8; 4] = sym();
        let s: [u8; 4] = sym();
        kani::cover!(a[0] == b'a');
        check_sni(&a[..4], &s[..2]); check_sni(&a[..3], &s[..3]);
    }
