    // Kani harness for lib/src/protocol/mux/converter.rs — appended to the REAL file in a scratch copy.
    use kawa::{Buffer, Kind, OutBlock, SliceBuffer, repr::Slice as KSlice};

    // loona_hpack::Encoder::encode_header_into is a Kani ICE trigger when reachable (measured); the Chunk path
    // never calls it — the stub only keeps the compiler alive.
    fn stub_encode_header_into<'a: 'a, W: std::io::Write>(
        _enc: &mut loona_hpack::Encoder<'a>,
        _header: (&[u8], &[u8]),
        _writer: &mut W,
    ) -> std::io::Result<()> {
        Ok(())
    }

    #[kani::proof]
    #[kani::unwind(12)]
    #[kani::stub(loona_hpack::Encoder::encode_header_into, stub_encode_header_into)]
    fn chunk_conservation() {
        let mut encoder = loona_hpack::Encoder::new();
        let max_frame_size: usize = kani::any();
        kani::assume(max_frame_size >= 1);
        let w0: i32 = kani::any();
        let sid: u32 = kani::any();
        kani::assume(sid < 0x8000_0000);
        let mut conv = H2BlockConverter {
            max_frame_size,
            window: w0,
            stream_id: sid,
            encoder: &mut encoder,
            out: Vec::new(),
            scheme: b"https",
            lowercase_buf: Vec::new(),
            cookie_buf: Vec::new(),
            position_is_client: kani::any(),
            incremental_mode: kani::any(),
            incremental_peer_count: kani::any(),
            pending_table_size_update: None,
            size_update_emitted: false,
            pending_oversized_abort: false,
        };
        let mut buf = [0u8; 16];
        let mut kawa = Kawa::new(Kind::Response, Buffer::new(SliceBuffer(&mut buf)));
        let start: u32 = kani::any();
        let len: u32 = kani::any();
        kani::assume(start <= 2 && len <= 3);
        let data = Store::Slice(KSlice { start, len });

        let _cont = conv.call(Block::Chunk(Chunk { data }), &mut kawa);

        kani::cover!(w0 > 0 && (len as i64) > (w0 as i64));
        if w0 <= 0 {
            // stalled: nothing emitted, the whole chunk is back at the front, window untouched
            assert!(kawa.out.is_empty());
            assert!(conv.window == w0);
            match kawa.blocks.front() {
                Some(Block::Chunk(Chunk { data: Store::Slice(s) })) => assert!(s.start == start && s.len == len),
                _ => assert!(false),
            }
        } else {
            let fits = (len as i64) <= (w0 as i64) && (len as usize) <= max_frame_size;
            let n: u32 = if fits { len } else { std::cmp::min(max_frame_size, w0 as usize) as u32 };
            assert!((n as i64) <= (w0 as i64) && (n as usize) <= max_frame_size);
            assert!(conv.window as i64 == w0 as i64 - n as i64);
            assert!(kawa.out.len() == 2);
            // 9-byte DATA frame header
            match kawa.out.front() {
                Some(OutBlock::Store(Store::Alloc(h, 0))) => {
                    assert!(h.len() == 9);
                    let plen = ((h[0] as u32) << 16) | ((h[1] as u32) << 8) | (h[2] as u32);
                    assert!(plen == n);
                    assert!(h[3] == 0 && h[4] == 0);
                    assert!(u32::from_be_bytes([h[5], h[6], h[7], h[8]]) == sid);
                }
                _ => assert!(false),
            }
            // followed by exactly the first n bytes of the chunk
            match kawa.out.back() {
                Some(OutBlock::Store(Store::Slice(s))) => assert!(s.start == start && s.len == n),
                _ => assert!(false),
            }
            // and the rest (if any) requeued at the front, in order
            if n < len {
                match kawa.blocks.front() {
                    Some(Block::Chunk(Chunk { data: Store::Slice(s) })) => assert!(s.start == start + n && s.len == len - n),
                    _ => assert!(false),
                }
            } else {
                assert!(kawa.blocks.is_empty());
            }
        }
    }
