    // Kani harness for lib/src/timer.rs — appended to the REAL file in a scratch copy. No clock is involved: the
    // harness drives the clock-free internals (set_timeout_at / cancel_timeout / poll_to / next_tick) that the
    // public clock-reading wrappers (set_timeout, poll, next_poll_date) delegate to.
    const OPS: usize = 3;
    const HORIZON: u64 = 5;   // ticks 0..=5 over a 4-slot wheel: a second lap is reached

    fn min_live(live: &[Option<Timeout>; OPS]) -> Option<u64> {
        let mut m: Option<u64> = None;
        let mut i = 0;
        while i < OPS {
            if let Some(t) = &live[i] { m = Some(match m { None => t.tick, Some(x) => if t.tick < x { t.tick } else { x } }); }
            i += 1;
        }
        m
    }

    #[kani::proof]
    #[kani::unwind(10)]
    fn pending_timeouts_fire_once_and_wakeup_is_never_late() {
        let mut t: Timer<u8> = Timer::new(1, 4, OPS, unsafe { std::mem::zeroed() });
        let mut live: [Option<Timeout>; OPS] = [None, None, None];
        let mut step = 0;
        while step < OPS {
            let op: u8 = kani::any();
            match op % 3 {
                0 => {
                    // arm a timeout `d` ticks after start (state = its index)
                    let d: u64 = kani::any();
                    kani::assume(d <= HORIZON);
                    let now = t.tick;
                    let to = t.set_timeout_at(Duration::from_millis(d), step as u8);
                    // never in the past, never later than asked (tick_ms = 1: tick == ms)
                    assert!(to.tick == if d <= now { now + 1 } else { d });
                    live[step] = Some(to);
                }
                1 => {
                    // cancel one armed timeout: returns its own state, exactly once
                    let i: usize = kani::any();
                    kani::assume(i < OPS);
                    if let Some(to) = live[i].take() {
                        let r = t.cancel_timeout(&to);
                        assert!(r == Some(i as u8));
                        // a second cancel finds nothing
                        assert!(t.cancel_timeout(&to).is_none());
                    }
                }
                _ => {
                    // the event loop drains poll() until None
                    let target: u64 = kani::any();
                    kani::assume(target <= HORIZON);
                    let mut fired = 0;
                    while fired <= OPS {
                        match t.poll_to(target) {
                            Some(s) => {
                                let s = s as usize;
                                assert!(s < OPS);
                                // only an armed, not cancelled, not yet fired timeout fires, and not before its tick
                                assert!(live[s].is_some());
                                assert!(live[s].as_ref().unwrap().tick <= if target < t.tick { t.tick } else { target });
                                live[s] = None;
                                fired += 1;
                            }
                            None => break,
                        }
                    }
                    assert!(fired <= OPS);
                    // every timeout due by `target` has fired
                    let mut i = 0;
                    while i < OPS {
                        if let Some(to) = &live[i] { assert!(to.tick > target); }
                        i += 1;
                    }
                }
            }
            // quiescent point: the wake-up the event loop computes is never later than the earliest pending timeout
            match min_live(&live) {
                Some(m) => {
                    let nt = t.next_tick();
                    assert!(nt.is_some());
                    assert!(nt.unwrap() <= m);
                }
                None => {}
            }
            step += 1;
        }
        kani::cover!(live[0].is_some() && live[1].is_some() && live[2].is_none());
    }
