    // Bounded native scenario for C02 (unit N-h1late): a REAL in-process worker (HTTP listener with a 1 s backend timeout, one
    // cluster, one keep-alive HTTP/1.1 backend) and a scripted backend, appended as a test module to e2e/src/tests/tests.rs
    // in a scratch copy. "Every request gets exactly one answer" — its own: the backend holds request 1 longer than the
    // backend timeout and only then answers it ("late-answer-to-1"); the client, which got sozu's 504 for request 1, sends
    // request 2 on the same connection. Whatever connection sozu uses for request 2, the client must never be handed
    // "late-answer-to-1" as the answer to request 2.
    use std::io::{Read, Write};
    use std::net::TcpStream;
    use sozu_command_lib::{config::ListenerBuilder, proto::command::{request::RequestType, ActivateListener, ListenerType, Request}};

    fn read_response(c: &mut TcpStream, wait: Duration) -> String {
        c.set_read_timeout(Some(Duration::from_millis(200))).unwrap();
        let deadline = Instant::now() + wait;
        let mut all = Vec::new();
        let mut buf = [0u8; 8192];
        while Instant::now() < deadline {
            match c.read(&mut buf) {
                Ok(0) => break,
                Ok(n) => { all.extend_from_slice(&buf[..n]); let t = String::from_utf8_lossy(&all); if let Some(p) = t.find("\r\n\r\n") { let head = t[..p].to_ascii_lowercase(); let cl = head.lines().find(|l| l.starts_with("content-length:")).and_then(|l| l[15..].trim().parse::<usize>().ok()); if let Some(n) = cl { if all.len() >= p + 4 + n { break; } } } }
                Err(_) => {}
            }
        }
        String::from_utf8_lossy(&all).into_owned()
    }

    #[test]
    fn enumerate() {
        let front_address = create_local_address();
        let back_address = create_local_address();
        let (config, mut listeners, state) = Worker::empty_config();
        crate::port_registry::attach_reserved_http_listener(&mut listeners, front_address);
        let mut worker = Worker::start_new_worker_owned("VERIF-H1LATE", config, listeners, state);
        worker.send_proxy_request(Request { request_type: Some(RequestType::AddHttpListener(ListenerBuilder::new_http(front_address.into()).with_back_timeout(Some(1)).to_http(None).unwrap())) });
        worker.send_proxy_request(Request { request_type: Some(RequestType::ActivateListener(ActivateListener { address: front_address.into(), proxy: ListenerType::Http.into(), from_scm: false })) });
        worker.send_proxy_request(Request { request_type: Some(RequestType::AddCluster(Worker::default_cluster("cluster_0"))) });
        worker.send_proxy_request(Request { request_type: Some(RequestType::AddHttpFrontend(Worker::default_http_frontend("cluster_0", front_address))) });
        worker.send_proxy_request(RequestType::AddBackend(Worker::default_backend("cluster_0", "cluster_0-0", back_address, None)).into());
        worker.read_to_last();
        let back = crate::port_registry::bind_std_listener(back_address, "scripted backend");
        // the backend: every connection is served by a thread; on each, the FIRST request is answered late (after 2.2 s) when
        // its path is /one, everything else at once; answers name the request they answer
        let backend = thread::spawn(move || {
            back.set_nonblocking(true).unwrap();
            let stop = Instant::now() + Duration::from_secs(9);
            let mut handlers = Vec::new();
            while Instant::now() < stop {
                match back.accept() {
                    Ok((mut conn, _)) => handlers.push(thread::spawn(move || {
                        conn.set_nonblocking(false).unwrap();
                        conn.set_read_timeout(Some(Duration::from_millis(100))).unwrap();
                        let mut pending = Vec::new();
                        let mut buf = [0u8; 8192];
                        let end = Instant::now() + Duration::from_secs(8);
                        while Instant::now() < end {
                            match conn.read(&mut buf) { Ok(0) => break, Ok(n) => pending.extend_from_slice(&buf[..n]), Err(_) => {} }
                            while let Some(p) = pending.windows(4).position(|w| w == b"\r\n\r\n") {
                                let head = String::from_utf8_lossy(&pending[..p]).into_owned();
                                pending.drain(..p + 4);
                                let path = head.split(' ').nth(1).unwrap_or("").to_string();
                                if path == "/one" { thread::sleep(Duration::from_millis(2200)); }
                                let body = if path == "/one" { "late-answer-to-1".to_string() } else { format!("answer-to-{path}") };
                                let _ = conn.write_all(format!("HTTP/1.1 200 OK\r\nContent-Length: {}\r\n\r\n{body}", body.len()).as_bytes());
                            }
                        }
                    })),
                    Err(_) => thread::sleep(Duration::from_millis(10)),
                }
            }
            for h in handlers { let _ = h.join(); }
        });
        let mut client = TcpStream::connect(front_address).expect("connect");
        client.write_all(b"GET /one HTTP/1.1\r\nHost: localhost\r\nContent-Length: 0\r\n\r\n").unwrap();
        let first = read_response(&mut client, Duration::from_secs(4));
        let mut observed = String::new();
        let mut nontrivial = 0u64;
        if first.starts_with("HTTP/1.1 504") {
            nontrivial = 1;
            // the same client connection, when sozu keeps it; a new one otherwise
            let second = if client.write_all(b"GET /two HTTP/1.1\r\nHost: localhost\r\nContent-Length: 0\r\n\r\n").is_ok() { read_response(&mut client, Duration::from_secs(4)) } else { String::new() };
            let second = if second.is_empty() { let mut c2 = TcpStream::connect(front_address).expect("reconnect"); c2.write_all(b"GET /two HTTP/1.1\r\nHost: localhost\r\nContent-Length: 0\r\n\r\n").unwrap(); read_response(&mut c2, Duration::from_secs(4)) } else { second };
            if second.contains("late-answer-to-1") { observed = format!("request 2 (GET /two) was answered with the backend's late answer to request 1: {second:?}"); }
        }
        worker.soft_stop();
        let _ = worker.wait_for_server_stop();
        let _ = backend.join();
        let fl = if observed.is_empty() { String::new() } else { format!("{{\"input\": {:?}, \"observed\": {:?}}}", "1 s backend timeout; GET /one (backend answers after 2.2 s), client receives 504; GET /two", observed) };
        println!("{{\"bound\": \"one scripted scenario on a real worker: a backend answer that arrives after the 504\", \"states\": 1, \"pairs\": 1, \"nontrivial_pairs\": {nontrivial}, \"failures\": [{fl}]}}");
    }
