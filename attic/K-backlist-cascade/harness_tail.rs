// Two further K-backlist harnesses that were tried and abandoned: CBMC reaches 44 GB (available_backends) and
// dies at the 30 GB ceiling after 16 min (cascade) on `.iter().filter().map(Clone::clone).collect()` over
// Vec<Rc<RefCell<Backend>>> even with 2 backends. Kept for the record; not registered, not claimed.
    #[kani::proof]
    #[kani::unwind(5)]
    #[kani::stub(std::time::Instant::elapsed, stub_elapsed)]
    #[kani::stub(std::time::Instant::now, stub_now)]
    #[kani::stub(crate::server::push_event, stub_push_event)]
    fn available_backends_is_exactly_the_eligible_subset() {
        let (mut l, facts) = setup(Box::new(RoundRobin::new()));
        let backup: bool = kani::any();
        let v = l.available_backends(backup);
        // exactly the backends with that backup flag that are eligible, in list order
        let mut expect = 0usize;
        let mut i = 0;
        while i < N {
            if facts[i].backup == backup && facts[i].eligible() {
                assert!(expect < v.len());
                assert!(Rc::ptr_eq(&v[expect], &l.backends[i]));
                expect += 1;
            }
            i += 1;
        }
        assert!(v.len() == expect);
        kani::cover!(v.len() == 2);
    }

    #[kani::proof]
    #[kani::unwind(5)]
    #[kani::stub(std::time::Instant::elapsed, stub_elapsed)]
    #[kani::stub(std::time::Instant::now, stub_now)]
    #[kani::stub(crate::server::push_event, stub_push_event)]
    fn cascade_primary_then_backup_then_fail_open() {
        let lb: Box<dyn LoadBalancingAlgorithm> = if kani::any() { Box::new(RoundRobin { next_backend: kani::any() }) }
            else { Box::new(LeastLoaded { metric: LoadMetric::Connections }) };
        let (mut l, facts) = setup(lb);
        let r = l.next_available_backend_with_key(None);
        let any_primary = (0..N).any(|i| !facts[i].backup && facts[i].eligible());
        let any_backup = (0..N).any(|i| facts[i].backup && facts[i].eligible());
        let any_open = (0..N).any(|i| facts[i].fail_open());
        match &r {
            None => assert!(!any_primary && !any_backup && !any_open),
            Some(b) => {
                let i = index_of(&l, b);
                assert!(i < N);                                      // a member of the cluster's list
                if any_primary { assert!(!facts[i].backup && facts[i].eligible()); }
                else if any_backup { assert!(facts[i].backup && facts[i].eligible()); }
                else { assert!(any_open && facts[i].fail_open()); }
            }
        }
        kani::cover!(r.is_some() && any_primary);
        kani::cover!(r.is_some() && !any_primary && any_backup);
        kani::cover!(r.is_some() && !any_primary && !any_backup);
        kani::cover!(r.is_none());
    }
