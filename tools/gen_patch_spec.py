"""Prints the `some-written-none-preserved` clause for a (listener struct, patch struct) pair, from the
prost struct definitions alone (field name correspondence) — used once to write units/U-statepatch/unit.rs."""
import re, sys
sys.path.insert(0, '/verif/tools')
import rustscan
src = open('/repo/command/src/proto/command.rs').read()
items = rustscan.parse_items(src)

def fields(name):
    it = [i for i in items if i.name == name and i.kind == 'struct'][0]
    body = src[it.start:it.end]
    out = []
    for m in re.finditer(r'pub (\w+):\s*((?:[^,<\n]|<[^>]*(?:<[^>]*>[^>]*)*>|\n)+),', body):
        out.append((m.group(1), re.sub(r'\s+', '', m.group(2)).replace('::core::option::', '').replace('::prost::alloc::string::', '').replace('::prost::alloc::vec::', '')))
    return out

def gen(listener, patch, special):
    lf = dict(fields(listener)); pf = dict(fields(patch))
    lines = []
    for f, t in fields(listener):
        if f in special:
            if special[f]:
                lines.append(special[f])
            continue
        if f not in pf or f == 'address':
            lines.append(f'n.{f} == o.{f}')
        elif pf[f] == f'Option<{t}>':
            lines.append(f'n.{f} == (if let Some(v) = patch.{f} {{ v }} else {{ o.{f} }})')
        elif pf[f] == t and t.startswith('Option<'):
            lines.append(f'n.{f} == (if patch.{f} is Some {{ patch.{f} }} else {{ o.{f} }})')
        else:
            lines.append(f'/* {f}: {t} <- {pf[f]} : not generated */ true')
    return lines

if __name__ == '__main__':
    sp = {'http_answers': None, 'sticky_name': None, 'sozu_id_header': None, 'alpn_protocols': None, 'answers': None}
    for l in gen(sys.argv[1], sys.argv[2], sp):
        print('    //@        &&& ' + l)
