"""Engine N: a BOUNDED stand-in — native enumeration on the real crate, never counted as proved.

unit.toml:  engine = "native", crate = "<replay-drivers subdir>", bin = "<driver>", obligation, clause,
            quick_args / thorough_args.  The driver prints one JSON object {bound, states, pairs, failures:[{input, observed}]}.
"""
from __future__ import annotations
import json
import os
import shutil
import subprocess
import time
import tomllib

VERIF_ROOT = os.path.dirname(os.path.dirname(os.path.abspath(__file__)))
WORK_ROOT = os.environ.get('VERIF_WORK', '/var/tmp/sozu-verif')


def run_unit(unit_dir: str, repo_root: str = '/repo', tier: str = 'quick', keep: bool = False) -> dict:
    unit = os.path.basename(unit_dir.rstrip('/'))
    cfg = tomllib.load(open(os.path.join(unit_dir, 'unit.toml'), 'rb'))
    t0 = time.time()
    res = {'unit': unit, 'engine': 'native', 'status': 'ok', 'tool_error': None, 'obligations': [], 'failures': [],
           'functions': [], 'assumed_contracts': [], 'assumption_scan': [], 'rules': {}, 'substitutions': [],
           'vacuity': {}, 'solver_time_s': 0.0, 'wall_s': 0.0, 'checker_cmd': '', 'items': [], 'bounded': [],
           'extra_assumptions': ['bounded stand-in: exhaustive native enumeration up to the stated bound, NOT a proof']}
    if cfg.get('inside'):
        return _run_inside(unit, unit_dir, cfg, res, repo_root, tier, keep, t0)
    crate = os.path.join(VERIF_ROOT, 'replay-drivers', cfg['crate'])
    # one build directory and one private copy of the driver crate per (process, unit): the units of a property run
    # concurrently, and two checks may run at the same time
    tag = f'{os.getpid()}-{unit}'
    target = os.path.join(WORK_ROOT, f'native-target-{tag}')
    os.makedirs(WORK_ROOT, exist_ok=True)
    # the driver links /repo by absolute path; for another tree the copy of the driver crate is re-pointed
    tmp_crate = os.path.join(WORK_ROOT, f'native-crate-{tag}')
    crate_used = tmp_crate
    try:
        shutil.rmtree(tmp_crate, ignore_errors=True)
        shutil.copytree(crate, tmp_crate, ignore=shutil.ignore_patterns('target', 'Cargo.lock'))
        if os.path.abspath(repo_root) != '/repo':
            ct = open(os.path.join(tmp_crate, 'Cargo.toml')).read().replace('/repo/', repo_root.rstrip('/') + '/')
            open(os.path.join(tmp_crate, 'Cargo.toml'), 'w').write(ct)
        shutil.copy(os.path.join(repo_root, 'Cargo.lock'), os.path.join(crate_used, 'Cargo.lock'))
        env = dict(os.environ, CARGO_TARGET_DIR=target, CARGO_NET_OFFLINE='true')
        b = subprocess.run(['cargo', 'build', '--offline', '--bin', cfg['bin']], cwd=crate_used, env=env, capture_output=True, text=True, timeout=1800)
        if b.returncode != 0:
            res['status'] = 'tool-error'
            res['tool_error'] = 'driver does not build against the current tree: ' + b.stderr[-500:]
            return res
        args = cfg.get('thorough_args' if tier == 'thorough' else 'quick_args', [])
        exe = os.path.join(target, 'debug', cfg['bin'])
        res['checker_cmd'] = f'cargo run --offline --bin {cfg["bin"]} -- ' + ' '.join(args) + f'   (crate replay-drivers/{cfg["crate"]}, linked against the real crate by path)'
        t1 = time.time()
        r = subprocess.run([exe] + args, capture_output=True, text=True, timeout=cfg.get('timeout_s', 1800))
        res['solver_time_s'] = round(time.time() - t1, 2)
        line = next((l[l.index('{"bound"'):] for l in r.stdout.split('\n') if '{"bound"' in l), None)
        if line is None:
            if r.returncode == 101 or 'panicked at' in r.stderr:
                # a panic of the real code during the enumeration is itself a failure (a driver killed by a signal — the
                # OOM killer, a timeout — or exiting otherwise without a result is a tool error, not a verdict)
                res['status'] = 'violation'
                res['bounded'].append({'id': cfg['obligation'], 'bound': 'driver aborted', 'status': 'fail', 'clause': cfg.get('clause', '')})
                res['failures'].append({'id': cfg['obligation'], 'message': 'the real code panicked during the enumeration', 'kind': 'native',
                                        'clause': cfg.get('clause', ''), 'rendered': r.stderr[-2000:],
                                        'exit': {'file': cfg.get('file', ''), 'line': 0, 'text': 'panic'},
                                        'replay': {'attempted': True, 'found': True, 'observed': r.stderr[-800:], 'cmd': res['checker_cmd']}})
                return res
            res['status'] = 'tool-error'
            res['tool_error'] = 'driver produced no result'
            return res
        j = json.loads(line)
        fails = j.get('failures', [])
        if not fails and not (j.get('nontrivial_pairs') or 0):
            # vacuity guard: an enumeration in which no case exercised the property proves nothing
            res['status'] = 'tool-error'
            res['tool_error'] = f'vacuous enumeration: {j.get("states")} cases, none non-trivial'
            return res
        res['bounded'].append({'id': cfg['obligation'], 'bound': j.get('bound', ''), 'status': 'fail' if fails else 'pass',
                               'clause': cfg.get('clause', ''), 'states': j.get('states'), 'pairs': j.get('pairs')})
        res['enumeration'] = {'states': j.get('states'), 'pairs': j.get('pairs'), 'nontrivial_pairs': j.get('nontrivial_pairs')}
        for k, f in enumerate(fails):
            res['failures'].append({'id': cfg['obligation'], 'message': 'bounded enumeration found a failing pair', 'kind': 'native',
                                    'clause': cfg.get('clause', ''), 'rendered': json.dumps(f)[:2500],
                                    'exit': {'file': cfg.get('file', ''), 'line': 0, 'text': f.get('observed', '')[:200].split(';')[0]},
                                    'replay': {'attempted': True, 'found': True, 'input': f.get('input'), 'observed': f.get('observed'),
                                               'required': cfg.get('clause', ''), 'cmd': res['checker_cmd']}})
        if fails:
            res['status'] = 'violation'
        return res
    except subprocess.TimeoutExpired:
        res['status'] = 'tool-error'
        res['tool_error'] = 'native driver timed out'
        return res
    finally:
        res['wall_s'] = round(time.time() - t0, 2)
        shutil.rmtree(target, ignore_errors=True)
        shutil.rmtree(tmp_crate, ignore_errors=True)


INSIDE_TARGET = os.path.join(VERIF_ROOT, 'cache', 'inside-target')


def _run_inside(unit, unit_dir, cfg, res, repo_root, tier, keep, t0):
    """`inside = "<file>"`: the driver is a #[cfg(test)] module appended to that file in a scratch copy of the tree (the
    same device as the Kani engine), so that it can reach private modules; it runs under `cargo test` of the real crate
    (dev profile: the repository's debug assertions are active) and prints the same one-line JSON."""
    import re
    import fcntl
    work = os.path.join(WORK_ROOT, f'nwork-{os.getpid()}-{unit}')
    os.makedirs(WORK_ROOT, exist_ok=True)
    os.makedirs(INSIDE_TARGET, exist_ok=True)
    # inside units share one cache of third-party build artefacts and some bind e2e ports: one at a time, across
    # threads and across concurrently running checks
    lock = open(os.path.join(WORK_ROOT, 'inside.lock'), 'w')
    fcntl.flock(lock, fcntl.LOCK_EX)
    t0 = time.time()
    try:
        r = subprocess.run(['rsync', '-a', '--delete', '--exclude', 'target', '--exclude', '.git', repo_root.rstrip('/') + '/', work + '/'],
                           capture_output=True, text=True)
        if r.returncode != 0:
            res['status'] = 'tool-error'; res['tool_error'] = 'rsync failed: ' + r.stderr[-300:]
            return res
        src = os.path.join(work, cfg['inside'])
        if not os.path.exists(src):
            res['status'] = 'tool-error'; res['tool_error'] = f'lost anchor: {cfg["inside"]} not found'
            return res
        text = open(os.path.join(unit_dir, cfg.get('module', 'inside.rs'))).read()
        mod = 'verif_native_' + re.sub(r'\W', '_', unit).lower()
        with open(src, 'a') as f:
            f.write(f'\n\n#[cfg(test)]\n#[allow(unused, clippy::all)]\nmod {mod} {{\n    use super::*;\n' + text + '\n}\n')
        args = cfg.get('thorough_args' if tier == 'thorough' else 'quick_args', [])
        env = dict(os.environ, CARGO_TARGET_DIR=INSIDE_TARGET, CARGO_NET_OFFLINE='true', VERIF_NATIVE_ARGS=' '.join(args), RUST_BACKTRACE='0')
        pkg = cfg.get('package', 'sozu-lib')
        cmd = ['cargo', 'test', '--offline', '-p', pkg, '--lib', f'{mod}::', '--', '--nocapture', '--test-threads', '1']
        res['checker_cmd'] = 'VERIF_NATIVE_ARGS="' + ' '.join(args) + '" ' + ' '.join(cmd) + f'   (module units/{unit}/{cfg.get("module", "inside.rs")} appended to {cfg["inside"]} in a scratch copy)'
        b = subprocess.run(['cargo', 'test', '--offline', '-p', pkg, '--lib', '--no-run'], cwd=work, env=env, capture_output=True, text=True, timeout=3600)
        if b.returncode != 0:
            res['status'] = 'tool-error'
            res['tool_error'] = 'driver module does not build against the current tree: ' + ' | '.join(l for l in b.stderr.split('\n') if l.startswith('error'))[:600]
            return res
        t1 = time.time()
        r = subprocess.run(cmd, cwd=work, env=env, capture_output=True, text=True, timeout=cfg.get('timeout_s', 1800))
        res['solver_time_s'] = round(time.time() - t1, 2)
        line = next((l[l.index('{"bound"'):] for l in r.stdout.split('\n') if '{"bound"' in l), None)
        if line is None:
            if 'panicked' in (r.stdout + r.stderr):
                tail = (r.stdout + r.stderr)[-2000:]
                res['status'] = 'violation'
                res['bounded'].append({'id': cfg['obligation'], 'bound': 'driver aborted', 'status': 'fail', 'clause': cfg.get('clause', '')})
                res['failures'].append({'id': cfg['obligation'], 'message': 'the real code panicked during the enumeration', 'kind': 'native',
                                        'clause': cfg.get('clause', ''), 'rendered': tail,
                                        'exit': {'file': cfg.get('file', ''), 'line': 0, 'text': 'panic'},
                                        'replay': {'attempted': True, 'found': True, 'observed': tail[-800:], 'cmd': res['checker_cmd']}})
                return res
            res['status'] = 'tool-error'; res['tool_error'] = 'driver produced no result: ' + (r.stdout + r.stderr)[-300:]
            return res
        j = json.loads(line)
        fails = j.get('failures', [])
        if not fails and not (j.get('nontrivial_pairs') or 0):
            # vacuity guard: an enumeration in which no case exercised the property proves nothing
            res['status'] = 'tool-error'
            res['tool_error'] = f'vacuous enumeration: {j.get("states")} cases, none non-trivial'
            return res
        res['bounded'].append({'id': cfg['obligation'], 'bound': j.get('bound', ''), 'status': 'fail' if fails else 'pass',
                               'clause': cfg.get('clause', ''), 'states': j.get('states'), 'pairs': j.get('pairs')})
        res['enumeration'] = {'states': j.get('states'), 'pairs': j.get('pairs'), 'nontrivial_pairs': j.get('nontrivial_pairs')}
        for f in fails:
            res['failures'].append({'id': cfg['obligation'], 'message': 'bounded enumeration found a failing pair', 'kind': 'native',
                                    'clause': cfg.get('clause', ''), 'rendered': json.dumps(f)[:2500],
                                    'exit': {'file': cfg.get('file', ''), 'line': 0, 'text': f.get('observed', '')[:200].split(';')[0]},
                                    'replay': {'attempted': True, 'found': True, 'input': f.get('input'), 'observed': f.get('observed'),
                                               'required': cfg.get('clause', ''), 'cmd': res['checker_cmd']}})
        if fails:
            res['status'] = 'violation'
        return res
    except subprocess.TimeoutExpired:
        res['status'] = 'tool-error'; res['tool_error'] = 'native (inside) driver timed out'
        return res
    finally:
        res['wall_s'] = round(time.time() - t0, 2)
        if not keep:
            shutil.rmtree(work, ignore_errors=True)
        # drop sozu artefacts from the cache target, keep third-party deps
        try:
            for root, dirs, files in os.walk(INSIDE_TARGET):
                for n in files:
                    if 'sozu' in n:
                        os.remove(os.path.join(root, n))
                for d in list(dirs):
                    if 'sozu' in d:
                        shutil.rmtree(os.path.join(root, d), ignore_errors=True)
                        dirs.remove(d)
        except Exception:
            pass
        fcntl.flock(lock, fcntl.LOCK_UN)
        lock.close()
