"""Engine V: emit a unit from /repo's current text, run Verus on it, name the obligations.

Result dictionary (see run_unit) is consumed by vcheck, which aggregates units per property.
"""
from __future__ import annotations
import json
import os
import re
import shutil
import subprocess
import sys
import time
import tomllib

sys.path.insert(0, os.path.dirname(os.path.abspath(__file__)))
import extract
from extract import LostAnchor, OutLine, Emitted, FnInfo

VERUS = shutil.which('verus') or '/usr/local/bin/verus'
WORK_ROOT = os.environ.get('VERIF_WORK', '/var/tmp/sozu-verif')

VERIF_MSGS = [
    ('postcondition not satisfied', 'ensures'),
    ('precondition not satisfied', 'requires'),
    ('assertion failed', 'assert'),
    ('possible arithmetic underflow/overflow', 'overflow'),
    ('possible division by zero', 'overflow'),
    ('possible bit shift underflow/overflow', 'overflow'),
    ('invariant not satisfied before loop', 'loopinv'),
    ('invariant not satisfied at end of loop body', 'loopinv'),
    ('loop invariant not satisfied', 'loopinv'),
    ('decreases not satisfied', 'decreases'),
    ('could not prove termination', 'decreases'),
    ('failed to prove termination', 'decreases'),
    ('loop ensures not satisfied', 'loopinv'),
    ('unreachable', 'assert'),
    ('constructed value may fail to meet its declared type invariant', 'assert'),
]
TOOL_MSGS = ['Resource limit (rlimit) exceeded', 'rlimit', 'timed out', 'z3 process']


def unit_config(unit_dir: str) -> dict:
    p = os.path.join(unit_dir, 'unit.toml')
    if os.path.exists(p):
        return tomllib.load(open(p, 'rb'))
    return {}


def build_vacuity(em: Emitted) -> tuple[list[OutLine], list[str]]:
    """copy of the emitted file in which every function under contract has a twin with `ensures false`"""
    lines = list(em.lines)
    mutants: list[str] = []
    inserts: list[tuple[int, list[OutLine]]] = []
    for f in em.fns:
        if f.external_body or f.directive.no_vacuity:
            continue
        vname = f.name + '__vacuity'
        twin: list[OutLine] = []
        renamed = False
        e0, e1 = f.sect_idx['ensures']
        for i in range(f.out_first, f.out_last + 1):
            if e0 <= i < e1:
                continue
            if i == e1:
                twin.append(OutLine('    ensures false,', ('gen', 'vacuity'), vname))
            text = em.lines[i].text
            if not renamed and i < f.body_first and re.search(r'\bfn\s+' + re.escape(f.name) + r'\b', text):
                text = re.sub(r'\bfn\s+' + re.escape(f.name) + r'\b', f'fn {vname}', text, count=1)
                renamed = True
            twin.append(OutLine(text, ('gen', 'vacuity'), vname))
        if not renamed:
            raise LostAnchor(f'vacuity twin of {f.name}: could not rename')
        inserts.append((f.out_last + 1, twin))
        mutants.append(vname)
    for pos, twin in sorted(inserts, key=lambda x: -x[0]):
        lines[pos:pos] = twin
    return lines, mutants


def run_verus(path: str, rlimit: int | None, extra: list[str], timeout: int) -> dict:
    cmd = [VERUS, path, '--output-json', '--time', '--multiple-errors', '50']
    if rlimit:
        cmd += ['--rlimit', str(rlimit)]
    cmd += extra + ['--', '--error-format=json']
    t0 = time.time()
    try:
        p = subprocess.run(cmd, capture_output=True, text=True, timeout=timeout, cwd=os.path.dirname(path))
        out, err, rc = p.stdout, p.stderr, p.returncode
    except subprocess.TimeoutExpired as e:
        return {'cmd': cmd, 'timeout': True, 'wall_s': time.time() - t0, 'diags': [], 'json': None, 'rc': -1, 'raw_err': ''}
    wall = time.time() - t0
    js = None
    try:
        js = json.loads(out[out.index('{'):]) if '{' in out else None
    except Exception:
        js = None
    diags, raw = [], []
    for l in err.split('\n'):
        l = l.strip()
        if l.startswith('{'):
            try:
                diags.append(json.loads(l))
                continue
            except Exception:
                pass
        if l:
            raw.append(l)
    return {'cmd': cmd, 'timeout': False, 'wall_s': wall, 'diags': diags, 'json': js, 'rc': rc, 'raw_err': '\n'.join(raw)}


def fn_breakdown(js: dict) -> dict:
    res = {}
    try:
        for m in js['times-ms']['smt']['smt-run-module-times']:
            for f in m.get('function-breakdown', []):
                name = f['function'].split('::', 1)[1] if '::' in f['function'] else f['function']
                r = res.setdefault(name, {'ms': 0.0, 'success': True, 'rlimit': 0})
                r['ms'] += f.get('time-micros', 0) / 1000.0
                r['rlimit'] += f.get('rlimit', 0)
                r['success'] = r['success'] and bool(f.get('success'))
    except Exception:
        pass
    return res


def template_fn_at(lines: list[OutLine], idx: int) -> str | None:
    """name of the hand-written function containing output line idx (scan upwards)"""
    for j in range(idx, -1, -1):
        m = re.match(r'\s*(?:pub\s+)?(?:open\s+|closed\s+)?(?:broadcast\s+)?(?:proof\s+|exec\s+|spec\s+)?fn\s+(\w+)', lines[j].text)
        if m:
            return m.group(1)
    return None


def static_obligations(unit: str, em: Emitted) -> tuple[list[dict], list[dict]]:
    """the named obligation table derived from the template + extracted code; and the assumed contracts"""
    obs: list[dict] = []
    assumed: list[dict] = []
    contract_fns = {f.name: f for f in em.fns}
    for f in em.fns:
        d = f.directive
        base = f'{unit}.{f.name}'
        if f.external_body:
            for c in d.ensures:
                assumed.append({'id': f'{base}.{c.label or "ensures@T%d" % c.tline}', 'fn': f.name,
                                'clause': re.sub(r'\s+', ' ', c.text).strip(), 'why': 'external_body (body not verified by Verus)'})
            continue
        for c in d.ensures:
            obs.append({'id': f'{base}.{c.label or "ensures@T%d" % c.tline}', 'kind': 'ensures', 'fn': f.name,
                        'clause': re.sub(r'\s+', ' ', c.text).strip().rstrip(','), 'tline': c.tline})
        for k, ls in sorted(d.loops.items()):
            for c in ls.clauses:
                obs.append({'id': f'{base}.loop[{k}].{c.label or "inv@T%d" % c.tline}', 'kind': 'loopinv', 'fn': f.name,
                            'clause': re.sub(r'\s+', ' ', c.text).strip().rstrip(','), 'tline': c.tline})
        for da in f.dasserts:
            if da['dropped']:
                continue
            obs.append({'id': f'{base}.dassert[{da["k"]}]', 'kind': 'dassert', 'fn': f.name,
                        'clause': da['cond'], 'repo_line': da['line']})
        for n, (anchor, nth, pl) in enumerate(d.before):
            if any('assert' in raw for raw, _ in pl):
                obs.append({'id': f'{base}.hint[{n}]', 'kind': 'hint', 'fn': f.name,
                            'clause': ' '.join(raw.strip() for raw, _ in pl)[:200], 'tline': pl[0][1] if pl else d.tline})
        # call-site preconditions
        body = '\n'.join(l.text for l in em.lines[f.out_first:f.out_last + 1])
        seen = set()
        for g in em.fns:
            if not g.directive.requires:
                continue
            sigtxt = '\n'.join(l.text for l in em.lines[g.out_first:g.body_first])
            if re.search(r'\bself\b', sigtxt):
                n = len(re.findall(r'(?:\.|\bSelf::)' + re.escape(g.name) + r'\s*\(', body))
            else:
                n = len(re.findall(r'(?<![.\w])(?:\w+::)*' + re.escape(g.name) + r'\s*\(', body))
                if g.name == f.name:
                    n -= 1
            if n > 0 and g.name not in seen:
                seen.add(g.name)
                obs.append({'id': f'{base}.pre@{g.name}', 'kind': 'requires', 'fn': f.name,
                            'clause': f'{n} call site(s) of {g.name} meet its requires: ' +
                                      '; '.join(re.sub(r"\s+", " ", c.text).strip().rstrip(',') for c in g.directive.requires)})
        obs.append({'id': f'{base}.safety', 'kind': 'safety', 'fn': f.name,
                    'clause': 'no arithmetic overflow/underflow, no out-of-bounds index, callee preconditions of std shims, termination of loops with decreases'})
    # hand-written exec/proof functions in the template
    lines = em.lines
    for i, ol in enumerate(lines):
        if ol.origin[0] != 'tmpl' or ol.fn is not None:
            continue
        m = re.match(r'\s*(?:pub\s+)?(?:broadcast\s+)?(proof\s+|exec\s+)?fn\s+(\w+)', ol.text)
        if not m or re.match(r'\s*(?:pub\s+)?(?:open\s+|closed\s+)?spec\s+fn', ol.text):
            continue
        prev = lines[i - 1].text if i > 0 else ''
        prev2 = lines[i - 2].text if i > 1 else ''
        if 'external_body' in prev or 'external_body' in prev2 or 'external_fn_specification' in prev:
            continue
        # trait method declarations without a body (end with ';' before any '{') are not obligations
        j = i
        has_body = False
        while j < len(lines) and j < i + 40:
            t = lines[j].text
            if '{' in t:
                has_body = True
                break
            if t.rstrip().endswith(';'):
                break
            j += 1
        if not has_body:
            continue
        if m.group(2) == 'main':
            continue
        kind = 'lemma' if (m.group(1) or '').strip() == 'proof' else 'shim'
        obs.append({'id': f'{unit}.{kind}.{m.group(2)}', 'kind': kind, 'fn': m.group(2),
                    'clause': f'hand-written {"proof fn (lemma)" if kind == "lemma" else "exec shim"} verifies against its own contract',
                    'tline': ol.origin[1]})
    return obs, assumed


def scan_assumptions(em: Emitted) -> list[str]:
    out = []
    pat = re.compile(r'\bassume\s*\(|\badmit\s*\(|external_body|assume_specification|external_fn_specification|external_type_specification|#\[verifier::external\]|\baxiom\b')
    for i, ol in enumerate(em.lines):
        code = ol.text.split('//')[0]
        if pat.search(code):
            where = f'template:{ol.origin[1]}' if ol.origin[0] == 'tmpl' else (f'{ol.origin[1]}:{ol.origin[2]}' if ol.origin[0] == 'repo' else 'generated')
            nxt = ''
            for j in range(i, min(i + 4, len(em.lines))):
                m = re.search(r'\bfn\s+(\w+)|\[\s*([\w:<>, ]+?)\s*\]|struct\s+(\w+)', em.lines[j].text)
                if m and j > i or (m and 'assume_specification' in em.lines[j].text):
                    nxt = next(g for g in m.groups() if g)
                    break
            out.append(f'{where}: {ol.text.strip()[:110]}' + (f'  -> {nxt}' if nxt else ''))
    return out


def classify(msg: str):
    for m, k in VERIF_MSGS:
        if msg.startswith(m) or m in msg:
            return k
    return None


def run_unit(unit_dir: str, repo_root: str = '/repo', tier: str = 'quick', keep: bool = False) -> dict:
    unit = os.path.basename(unit_dir.rstrip('/'))
    cfg = unit_config(unit_dir)
    t0 = time.time()
    res: dict = {'unit': unit, 'engine': 'verus', 'status': 'ok', 'tool_error': None, 'obligations': [], 'failures': [],
                 'functions': [], 'assumed_contracts': [], 'assumption_scan': [], 'rules': {}, 'substitutions': [],
                 'vacuity': {}, 'solver_time_s': 0.0, 'wall_s': 0.0, 'checker_cmd': '', 'items': [], 'bounded': []}
    work = os.path.join(WORK_ROOT, f'v-{unit}-{os.getpid()}')
    os.makedirs(work, exist_ok=True)
    try:
        try:
            em = extract.emit(unit_dir, repo_root)
            vac_lines, mutants = build_vacuity(em)
        except LostAnchor as e:
            res['status'] = 'tool-error'
            res['tool_error'] = f'lost anchor / extraction: {e}'
            return res
        modname = re.sub(r'\W', '_', unit).lower()
        main_path = os.path.join(work, f'{modname}.rs')
        vac_path = os.path.join(work, f'{modname}_vacuity.rs')
        open(main_path, 'w').write(extract.render(em))
        open(vac_path, 'w').write('\n'.join(l.text for l in vac_lines) + '\n')
        outdir = os.path.join(os.path.dirname(os.path.dirname(os.path.abspath(__file__))), 'out')
        os.makedirs(outdir, exist_ok=True)
        shutil.copy(main_path, os.path.join(outdir, f'{unit}.rs'))
        rlimit = cfg.get('rlimit')
        extra = cfg.get('verus_args', [])
        timeout = cfg.get('timeout_s', 600)
        from concurrent.futures import ThreadPoolExecutor
        with ThreadPoolExecutor(3) as ex:
            fut_main = ex.submit(run_verus, main_path, rlimit, extra, timeout)
            fut_vac = ex.submit(run_verus, vac_path, rlimit, extra, timeout)
            fut_stab = None
            if tier == 'thorough':
                # stability run: different rlimit / spinoff-all; a proof that only passes at one setting is unstable
                fut_stab = ex.submit(run_verus, main_path, max(5, (rlimit or 10) // 2), extra + ['-V', 'spinoff-all'], timeout)
            r_main, r_vac = fut_main.result(), fut_vac.result()
            r_stab = fut_stab.result() if fut_stab else None
        res['checker_cmd'] = ' '.join(r_main['cmd']).replace(work, '<work>')
        res['rules'] = {k: v for k, v in em.rules.items() if not k.endswith('_lines')}
        res['rules_detail'] = {k: v for k, v in em.rules.items() if k.endswith('_lines')}
        res['substitutions'] = em.substitutions
        res['items'] = em.items
        res['imports'] = em.imports
        obs, assumed = static_obligations(unit, em)
        res['assumed_contracts'] = assumed
        res['assumption_scan'] = scan_assumptions(em)
        if r_main['timeout']:
            res['status'] = 'tool-error'
            res['tool_error'] = f'verus timed out after {timeout}s'
            return res
        js = r_main['json']
        vr = (js or {}).get('verification-results')
        errs = [d for d in r_main['diags'] if d.get('level') == 'error' and not d['message'].startswith('aborting due to')]
        if js is None or vr is None or vr.get('encountered-vir-error') or any(d.get('code') for d in errs):
            res['status'] = 'tool-error'
            msgs = [d['message'] + ' @' + ','.join(_loc(em.lines, s) for s in d['spans'][:1]) for d in errs][:6]
            res['tool_error'] = 'unsupported construct / type error in emitted file: ' + ' | '.join(msgs) + (' | ' + r_main['raw_err'][:400] if not msgs else '')
            return res
        bd = fn_breakdown(js)
        res['solver_time_s'] = round(sum(v['ms'] for v in bd.values()) / 1000.0, 3)
        for f in em.fns:
            b = bd.get(_qual(em, f), bd.get(f.name)) or next((v for k, v in bd.items() if k.endswith('::' + f.name) or k == f.name), None)
            res['functions'].append({'name': f.name, 'selector': f.selector, 'file': f.file, 'line': f.repo_line,
                                     'sha256': f.sha256[:16], 'smt_ms': round(b['ms'], 1) if b else None,
                                     'external_body': f.external_body,
                                     'loops': f.loops_found, 'dasserts': len(f.dasserts),
                                     'dasserts_dropped': [x for x in f.dasserts if x['dropped']]})
            if not f.external_body and b is None and (f.directive.ensures or f.directive.requires):
                # function never reached the solver: contract did not attach
                pass
        # ---- map diagnostics to obligations
        ob_by_id = {o['id']: o for o in obs}
        for o in obs:
            o['status'] = 'discharged'
        failures = []
        # a resource-limit diagnostic inside a function that ALSO has a proper refutation is secondary:
        # Verus keeps searching for further errors after the first one and may run out there.
        def fn_of(d):
            for sp in d['spans']:
                i = sp['line_start'] - 1
                if 0 <= i < len(em.lines):
                    return em.lines[i].fn or template_fn_at(em.lines, i)
            return None
        refuted_fns = {fn_of(d) for d in errs if classify(d['message']) and not any(t in d['message'] for t in TOOL_MSGS)}
        incomplete = []
        for d in errs:
            msg = d['message']
            if any(t in msg for t in TOOL_MSGS):
                if fn_of(d) in refuted_fns:
                    incomplete.append(f'{fn_of(d)}: {msg} (after a refutation was already found in this function)')
                    continue
                res['status'] = 'tool-error'
                res['tool_error'] = f'solver resource limit: {msg}'
                return res
            kind = classify(msg)
            if kind is None:
                res['status'] = 'tool-error'
                res['tool_error'] = f'unclassified verus diagnostic: {msg}'
                return res
            fl = _name_failure(unit, em, d, kind)
            failures.append(fl)
            oid = fl['id']
            if oid in ob_by_id:
                ob_by_id[oid]['status'] = 'failed'
            else:
                # safety-class failures are folded into <fn>.safety; others are added dynamically
                fold = fl.get('fold')
                if fold and fold in ob_by_id:
                    ob_by_id[fold]['status'] = 'failed'
                else:
                    o = {'id': oid, 'kind': kind, 'fn': fl.get('fn'), 'clause': fl.get('clause', ''), 'status': 'failed', 'dynamic': True}
                    obs.append(o)
                    ob_by_id[oid] = o
        # functions reported unsuccessful by the solver but without a mapped diagnostic -> tool error
        res['failures'] = failures
        res['incomplete_after_refutation'] = incomplete
        if vr.get('errors', 0) > 0 and not failures:
            res['status'] = 'tool-error'
            res['tool_error'] = 'verus reported errors but no diagnostic could be mapped'
            return res
        # ---- vacuity
        vac = {'mutants': len(mutants), 'rejected': 0, 'accepted': []}
        if r_vac['timeout'] or r_vac['json'] is None or (r_vac['json'].get('verification-results') or {}).get('encountered-vir-error'):
            res['status'] = 'tool-error'
            res['tool_error'] = 'vacuity run did not complete: ' + '; '.join(d['message'] for d in r_vac['diags'] if d.get('level') == 'error')[:300]
            return res
        vbd = fn_breakdown(r_vac['json'])
        for mname in mutants:
            hit = [v for k, v in vbd.items() if k == mname or k.endswith('::' + mname)]
            if hit and not all(h['success'] for h in hit):
                vac['rejected'] += 1
            elif hit:
                vac['accepted'].append(mname)
            else:
                # not in the breakdown: look for an error diagnostic inside the twin
                vac['accepted'].append(mname + ' (not reached)')
        res['vacuity'] = vac
        if vac['accepted']:
            res['status'] = 'tool-error'
            res['tool_error'] = f'vacuity guard: `ensures false` verified for {vac["accepted"]} (contradictory requires or unreachable contract)'
            return res
        if r_stab is not None:
            sj = r_stab['json']
            svr = (sj or {}).get('verification-results') or {}
            res['stability'] = {'cmd': ' '.join(r_stab['cmd']).replace(work, '<work>'),
                                'verified': svr.get('verified'), 'errors': svr.get('errors')}
            if not r_stab['timeout'] and sj is not None and svr.get('errors', 0) != vr.get('errors', 0):
                res['status'] = 'tool-error'
                res['tool_error'] = (f'unstable proof: main run {vr.get("verified")} verified/{vr.get("errors")} errors, '
                                     f'stability run {svr.get("verified")}/{svr.get("errors")}')
                return res
        res['obligations'] = obs
        res['verus_summary'] = {'verified': vr.get('verified'), 'errors': vr.get('errors')}
        if not obs:
            res['status'] = 'tool-error'
            res['tool_error'] = 'no obligations generated'
            return res
        if failures:
            res['status'] = 'violation'
        return res
    finally:
        res['wall_s'] = round(time.time() - t0, 2)
        if not keep:
            shutil.rmtree(work, ignore_errors=True)


def _qual(em, f):
    return f.name


def _loc(lines, span) -> str:
    i = span['line_start'] - 1
    if 0 <= i < len(lines):
        o = lines[i].origin
        if o[0] == 'repo':
            return f'{o[1]}:{o[2]}'
        if o[0] == 'tmpl':
            return f'template:{o[1]}'
    return f'emitted:{span["line_start"]}'


def _name_failure(unit: str, em: Emitted, d: dict, kind: str) -> dict:
    lines = em.lines
    spans = d['spans']

    def ol_of(s):
        i = s['line_start'] - 1
        return lines[i] if 0 <= i < len(lines) and s['file_name'].endswith('.rs') and 'vstd' not in s['file_name'] else None
    prim = next((s for s in spans if s['is_primary']), spans[0] if spans else None)
    fl: dict = {'message': d['message'], 'kind': kind, 'rendered': d.get('rendered', ''), 'exit': None}
    # which function: the one containing any repo-origin span, else the primary span's
    fn = None
    for s in spans:
        o = ol_of(s)
        if o is not None and o.fn:
            fn = o.fn
            break
    tmpl_fn = None
    if fn is None and prim is not None and ol_of(prim) is not None:
        tmpl_fn = template_fn_at(lines, prim['line_start'] - 1)
    fl['fn'] = fn or tmpl_fn
    finfo = next((f for f in em.fns if f.name == fn), None)
    base = f'{unit}.{fn}' if fn else f'{unit}.tmpl.{tmpl_fn}'

    def exit_of(s):
        o = ol_of(s)
        if o is not None and o.origin[0] == 'repo':
            return {'file': o.origin[1], 'line': o.origin[2], 'text': o.text.strip()}
        if o is not None:
            return {'file': 'template', 'line': o.origin[1], 'text': o.text.strip()}
        return None

    if fn is None:
        # failure inside a hand-written function (lemma / shim)
        k2 = 'lemma' if any(l['name'] == tmpl_fn for l in em.lemmas) else 'shim'
        fl['id'] = f'{unit}.{k2}.{tmpl_fn}'
        fl['exit'] = exit_of(prim) if prim else None
        return fl
    if kind == 'ensures':
        cl = next((s for s in spans if (s.get('label') or '').startswith('failed this postcondition')), prim)
        ex = next((s for s in spans if s is not cl), None)
        o = ol_of(cl)
        label = None
        if o is not None and o.origin[0] == 'tmpl' and len(o.origin) > 3:
            label = o.origin[3] or f'ensures@T{_clause_start(finfo, "ensures", o.origin[1])}'
        fl['id'] = f'{base}.{label or "ensures"}'
        fl['clause'] = o.text.strip() if o else ''
        fl['exit'] = exit_of(ex) if ex else None
    elif kind == 'requires':
        cl = next((s for s in spans if (s.get('label') or '').startswith('failed precondition')), None)
        fl['exit'] = exit_of(prim)
        callee = 'vstd'
        if cl is not None:
            o = ol_of(cl)
            if o is not None:
                callee = o.fn or template_fn_at(lines, cl['line_start'] - 1) or 'template'
                fl['clause'] = o.text.strip()
        fl['id'] = f'{base}.pre@{callee}'
        if callee == 'vstd':
            fl['fold'] = f'{base}.safety'
            fl['id'] = f'{base}.safety'
            fl['detail'] = 'std/vstd precondition (index in bounds, slice range, unwrap on Some, …)'
    elif kind == 'assert':
        o = ol_of(prim)
        fl['exit'] = exit_of(prim)
        if o is not None and o.origin[0] == 'repo' and finfo is not None:
            ln = o.origin[2]
            da = next((x for x in finfo.dasserts if x['line'] <= ln <= x['end_line']), None)
            fl['id'] = f'{base}.dassert[{da["k"]}]' if da else f'{base}.assert@{ln}'
            fl['clause'] = da['cond'] if da else o.text.strip()
        elif o is not None and o.origin[0] == 'tmpl':
            # hint block: find its ordinal
            n = None
            if finfo is not None:
                for k, (anchor, nth, pl) in enumerate(finfo.directive.before):
                    if pl and pl[0][1] <= o.origin[1] <= pl[-1][1]:
                        n = k
            fl['id'] = f'{base}.hint[{n}]' if n is not None else f'{base}.hint@T{o.origin[1]}'
            fl['clause'] = o.text.strip()
        else:
            fl['id'] = f'{base}.assert'
    elif kind == 'loopinv':
        o = ol_of(prim)
        fl['exit'] = exit_of(prim)
        if o is not None and o.origin[0] == 'tmpl' and finfo is not None:
            tl = o.origin[1]
            # locate the clause: text match against loop clauses
            for k, ls in finfo.directive.loops.items():
                for c in ls.clauses:
                    if c.text.strip().rstrip(',') and c.text.strip().rstrip(',').split('\n')[0].strip() in o.text:
                        fl['id'] = f'{base}.loop[{k}].{c.label or "inv@T%d" % c.tline}'
                        fl['clause'] = c.text.strip()
            fl.setdefault('id', f'{base}.loopinv@emitted')
        else:
            fl['id'] = f'{base}.loopinv'
    else:
        fl['exit'] = exit_of(prim)
        fl['id'] = f'{base}.safety'
        fl['detail'] = d['message']
    return fl


def _clause_start(finfo: FnInfo | None, sect: str, tline: int) -> int:
    if finfo is None:
        return tline
    best = tline
    for c in getattr(finfo.directive, sect):
        if c.tline <= tline:
            best = c.tline
    return best


if __name__ == '__main__':
    r = run_unit(sys.argv[1], tier=(sys.argv[2] if len(sys.argv) > 2 else 'quick'), keep='--keep' in sys.argv)
    for o in r['obligations']:
        print(f"{o['status']:11s} {o['id']}")
    for f in r['failures']:
        print('FAIL', f['id'], f['message'], f.get('exit'))
    print(json.dumps({k: v for k, v in r.items() if k not in ('obligations', 'failures', 'functions', 'substitutions', 'rules_detail')}, indent=1)[:3000])
