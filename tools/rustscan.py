"""Token-level Rust scanner and item indexer (stdlib only).

Used by extract.py to locate real items in /repo by name on every run and to
copy their text verbatim.  It understands exactly as much Rust as is needed to
find item boundaries reliably: comments (nested block comments), string / raw
string / byte string / char literals, lifetimes, attributes, and bracket
matching.  Anything it cannot classify raises ScanError, which the callers turn
into exit 2 ("lost anchor"), never into an alarm.
"""
from __future__ import annotations
import re
from dataclasses import dataclass, field


class ScanError(Exception):
    pass


@dataclass
class Tok:
    kind: str   # 'ident' 'num' 'str' 'char' 'life' 'punct' 'lcomment' 'bcomment'
    text: str
    start: int  # char offset
    end: int
    line: int   # 1-based line of start


IDENT_START = re.compile(r'[A-Za-z_]')
IDENT_RE = re.compile(r'[A-Za-z_][A-Za-z0-9_]*')
NUM_RE = re.compile(r'[0-9][A-Za-z0-9_]*(\.[0-9][A-Za-z0-9_]*)?')


def tokenize(src: str) -> list[Tok]:
    toks: list[Tok] = []
    i, n, line = 0, len(src), 1
    while i < n:
        c = src[i]
        if c == '\n':
            line += 1
            i += 1
            continue
        if c in ' \t\r':
            i += 1
            continue
        # comments
        if src.startswith('//', i):
            j = src.find('\n', i)
            if j < 0:
                j = n
            toks.append(Tok('lcomment', src[i:j], i, j, line))
            i = j
            continue
        if src.startswith('/*', i):
            depth, j = 1, i + 2
            while j < n and depth:
                if src.startswith('/*', j):
                    depth += 1
                    j += 2
                elif src.startswith('*/', j):
                    depth -= 1
                    j += 2
                else:
                    j += 1
            if depth:
                raise ScanError(f'unterminated block comment at line {line}')
            toks.append(Tok('bcomment', src[i:j], i, j, line))
            line += src.count('\n', i, j)
            i = j
            continue
        # raw strings r"..", r#".."#, br".."
        m = re.match(r'(b|c)?r(#*)"', src[i:i + 40])
        if m and (i == 0 or not (src[i - 1].isalnum() or src[i - 1] == '_')):
            hashes = m.group(2)
            close = '"' + hashes
            j = src.find(close, i + m.end())
            if j < 0:
                raise ScanError(f'unterminated raw string at line {line}')
            j += len(close)
            toks.append(Tok('str', src[i:j], i, j, line))
            line += src.count('\n', i, j)
            i = j
            continue
        # strings "..", b"..", c".."
        if c == '"' or (c in 'bc' and i + 1 < n and src[i + 1] == '"'
                        and (i == 0 or not (src[i - 1].isalnum() or src[i - 1] == '_'))):
            j = i + (1 if c == '"' else 2)
            while j < n and src[j] != '"':
                j += 2 if src[j] == '\\' else 1
            if j >= n:
                raise ScanError(f'unterminated string at line {line}')
            j += 1
            toks.append(Tok('str', src[i:j], i, j, line))
            line += src.count('\n', i, j)
            i = j
            continue
        # char literal / byte char / lifetime
        if c == "'" or (c == 'b' and i + 1 < n and src[i + 1] == "'"
                        and (i == 0 or not (src[i - 1].isalnum() or src[i - 1] == '_'))):
            k = i + (1 if c == "'" else 2)
            # char literal forms: 'x'  '\n'  '\x7f' '\u{..}' '\''
            if k < n and src[k] == '\\':
                j = k + 2
                while j < n and src[j] != "'":
                    j += 1
                j += 1
                toks.append(Tok('char', src[i:j], i, j, line))
                i = j
                continue
            if k + 1 < n and src[k + 1] == "'" and src[k] != "'":
                j = k + 2
                toks.append(Tok('char', src[i:j], i, j, line))
                i = j
                continue
            # multi-byte unicode char like 'é'
            if c == "'" and k < n and not (src[k].isalnum() or src[k] == '_'):
                j = src.find("'", k + 1)
                if 0 < j <= k + 5:
                    j += 1
                    toks.append(Tok('char', src[i:j], i, j, line))
                    i = j
                    continue
            if c == "'":
                m2 = IDENT_RE.match(src, k)
                if m2:
                    j = m2.end()
                    # 'a' single-letter char literal was handled above; here lifetime
                    toks.append(Tok('life', src[i:j], i, j, line))
                    i = j
                    continue
            raise ScanError(f'cannot classify quote at line {line}')
        if IDENT_START.match(c):
            m3 = IDENT_RE.match(src, i)
            j = m3.end()
            # raw identifier r#name
            toks.append(Tok('ident', src[i:j], i, j, line))
            i = j
            continue
        if c.isdigit():
            m4 = NUM_RE.match(src, i)
            j = m4.end()
            # avoid eating `..` of ranges: NUM_RE requires digit after '.'
            toks.append(Tok('num', src[i:j], i, j, line))
            i = j
            continue
        toks.append(Tok('punct', c, i, i + 1, line))
        i += 1
    return toks


def code_tokens(toks: list[Tok]) -> list[Tok]:
    return [t for t in toks if t.kind not in ('lcomment', 'bcomment')]


OPEN = {'(': ')', '[': ']', '{': '}'}
CLOSE = {')': '(', ']': '[', '}': '{'}


def match_close(ct: list[Tok], i: int) -> int:
    """ct[i] is an opening bracket; return index of its matching close."""
    assert ct[i].kind == 'punct' and ct[i].text in OPEN, ct[i]
    stack = [ct[i].text]
    j = i + 1
    while j < len(ct):
        t = ct[j]
        if t.kind == 'punct':
            if t.text in OPEN:
                stack.append(t.text)
            elif t.text in CLOSE:
                if not stack or stack[-1] != CLOSE[t.text]:
                    raise ScanError(f'bracket mismatch at line {t.line}')
                stack.pop()
                if not stack:
                    return j
        j += 1
    raise ScanError(f'unclosed bracket from line {ct[i].line}')


@dataclass
class Item:
    kind: str            # fn struct enum union trait impl mod const static type use macro other
    name: str            # for impl: self type name
    trait: str | None    # for impl: trait name (last path segment) or None
    attr_start: int      # char offset where leading attrs / doc comments begin
    start: int           # char offset of first token after attrs (visibility or keyword)
    end: int             # char offset one past the item
    line: int            # line of `start`
    body_open: int | None = None   # char offset of body '{' (fn/impl/mod/trait)
    body_close: int | None = None  # char offset of the matching '}'
    children: list['Item'] = field(default_factory=list)
    header: str = ''     # text of impl header / fn signature
    cfg_test: bool = False


QUALS = {'pub', 'const', 'async', 'unsafe', 'extern', 'default', 'crate'}
ITEM_KW = {'fn', 'struct', 'enum', 'union', 'trait', 'impl', 'mod', 'static', 'type', 'use', 'macro_rules'}


def parse_items(src: str, toks: list[Tok] | None = None) -> list[Item]:
    all_toks = toks if toks is not None else tokenize(src)
    ct = code_tokens(all_toks)
    # map: for attr_start we want the earliest contiguous doc comment before an item
    doc_before: dict[int, int] = {}
    prev_code_end = 0
    pending = None
    for t in all_toks:
        if t.kind in ('lcomment', 'bcomment'):
            is_doc = t.text.startswith('///') or t.text.startswith('/**') or t.text.startswith('//!')
            if is_doc and pending is None:
                pending = t.start
            elif not is_doc:
                # ordinary comment directly above an item: keep as part of leading trivia but not anchor
                pass
        else:
            if pending is not None:
                doc_before[t.start] = pending
            pending = None
    return _parse_block(src, ct, 0, len(ct), doc_before)


def _parse_block(src, ct, lo, hi, doc_before) -> list[Item]:
    items: list[Item] = []
    i = lo
    while i < hi:
        t = ct[i]
        if t.kind == 'punct' and t.text == ';':
            i += 1
            continue
        first = i
        attr_start = doc_before.get(t.start, t.start)
        cfg_test = False
        # attributes
        while i < hi and ct[i].kind == 'punct' and ct[i].text == '#':
            j = i + 1
            if j < hi and ct[j].kind == 'punct' and ct[j].text == '!':
                j += 1
            if j >= hi or not (ct[j].kind == 'punct' and ct[j].text == '['):
                raise ScanError(f'bad attribute at line {ct[i].line}')
            k = match_close(ct, j)
            atext = src[ct[i].start:ct[k].end]
            if re.search(r'cfg\s*\(\s*test\s*\)', atext):
                cfg_test = True
            i = k + 1
        if i >= hi:
            break
        start_tok = i
        # visibility and qualifiers
        while i < hi and ct[i].kind == 'ident' and ct[i].text in QUALS:
            if ct[i].text == 'pub' and i + 1 < hi and ct[i + 1].kind == 'punct' and ct[i + 1].text == '(':
                i = match_close(ct, i + 1) + 1
                continue
            if ct[i].text == 'extern' and i + 1 < hi and ct[i + 1].kind == 'str':
                i += 2
                continue
            if ct[i].text == 'const' and i + 1 < hi and ct[i + 1].kind == 'ident' and ct[i + 1].text not in ('fn', 'unsafe', 'async', 'extern'):
                break  # const item
            if ct[i].text == 'unsafe' and i + 1 < hi and ct[i + 1].kind == 'ident' and ct[i + 1].text in ('impl', 'fn', 'extern', 'trait'):
                i += 1
                continue
            if ct[i].text == 'extern' and i + 1 < hi and ct[i + 1].kind == 'ident' and ct[i + 1].text == 'crate':
                break
            i += 1
        if i >= hi:
            raise ScanError(f'dangling qualifiers at line {ct[start_tok].line}')
        kw = ct[i]
        it = Item(kind='other', name='', trait=None, attr_start=attr_start,
                  start=ct[start_tok].start, end=0, line=ct[start_tok].line, cfg_test=cfg_test)

        def until_semicolon(j):
            while j < hi:
                tt = ct[j]
                if tt.kind == 'punct':
                    if tt.text in OPEN:
                        j = match_close(ct, j)
                    elif tt.text == ';':
                        return j
                j += 1
            raise ScanError(f'no terminating ; from line {kw.line}')

        def find_body_open(j):
            """first '{' at paren/bracket depth 0, or ';' -> returns (idx, is_brace)"""
            while j < hi:
                tt = ct[j]
                if tt.kind == 'punct':
                    if tt.text in '([':
                        j = match_close(ct, j)
                    elif tt.text == '{':
                        return j, True
                    elif tt.text == ';':
                        return j, False
                j += 1
            raise ScanError(f'no body from line {kw.line}')

        if kw.kind == 'punct' and kw.text == '{':
            # extern "C" { .. } foreign block
            k = match_close(ct, i)
            it.kind = 'other'
            it.end = ct[k].end
            i = k + 1
        elif kw.kind == 'ident' and kw.text == 'fn':
            it.kind = 'fn'
            it.name = ct[i + 1].text
            j, brace = find_body_open(i + 2)
            it.header = src[ct[start_tok].start:ct[j].start]
            if brace:
                k = match_close(ct, j)
                it.body_open, it.body_close = ct[j].start, ct[k].start
                it.end = ct[k].end
                i = k + 1
            else:
                it.end = ct[j].end
                i = j + 1
        elif kw.kind == 'ident' and kw.text in ('struct', 'union', 'enum'):
            it.kind = 'struct' if kw.text != 'enum' else 'enum'
            it.name = ct[i + 1].text
            j = i + 2
            # generics / where / tuple / brace
            while j < hi:
                tt = ct[j]
                if tt.kind == 'punct' and tt.text == '{':
                    k = match_close(ct, j)
                    it.body_open, it.body_close = ct[j].start, ct[k].start
                    it.end = ct[k].end
                    i = k + 1
                    break
                if tt.kind == 'punct' and tt.text == '(':
                    j = match_close(ct, j) + 1
                    continue
                if tt.kind == 'punct' and tt.text == ';':
                    it.end = tt.end
                    i = j + 1
                    break
                j += 1
            else:
                raise ScanError(f'unterminated {kw.text} at line {kw.line}')
        elif kw.kind == 'ident' and kw.text in ('trait', 'mod'):
            it.kind = kw.text
            it.name = ct[i + 1].text
            j, brace = find_body_open(i + 2)
            it.header = src[ct[start_tok].start:ct[j].start]
            if brace:
                k = match_close(ct, j)
                it.body_open, it.body_close = ct[j].start, ct[k].start
                it.end = ct[k].end
                it.children = _parse_block(src, ct, j + 1, k, doc_before)
                i = k + 1
            else:
                it.end = ct[j].end
                i = j + 1
        elif kw.kind == 'ident' and kw.text == 'impl':
            it.kind = 'impl'
            j, brace = find_body_open(i + 1)
            if not brace:
                raise ScanError(f'impl without body at line {kw.line}')
            hdr = ct[i + 1:j]
            it.header = src[ct[start_tok].start:ct[j].start]
            # skip generics
            p = 0
            if hdr and hdr[0].kind == 'punct' and hdr[0].text == '<':
                depth = 0
                while p < len(hdr):
                    if hdr[p].kind == 'punct' and hdr[p].text == '<':
                        depth += 1
                    elif hdr[p].kind == 'punct' and hdr[p].text == '>' and not (p > 0 and hdr[p - 1].text == '-'):
                        depth -= 1
                        if depth == 0:
                            p += 1
                            break
                    p += 1
            rest = hdr[p:]
            # cut at `where`
            for q, tt in enumerate(rest):
                if tt.kind == 'ident' and tt.text == 'where':
                    rest = rest[:q]
                    break
            # find `for` at angle depth 0
            depth = 0
            for_idx = None
            for q, tt in enumerate(rest):
                if tt.kind == 'punct' and tt.text == '<':
                    depth += 1
                elif tt.kind == 'punct' and tt.text == '>' and not (q > 0 and rest[q - 1].text == '-'):
                    depth -= 1
                elif tt.kind == 'ident' and tt.text == 'for' and depth == 0:
                    for_idx = q
                    break

            def last_path_ident(seq):
                depth2 = 0
                name = None
                for tt in seq:
                    if tt.kind == 'punct' and tt.text == '<':
                        depth2 += 1
                    elif tt.kind == 'punct' and tt.text == '>':
                        depth2 -= 1
                    elif tt.kind == 'ident' and depth2 == 0 and tt.text not in ('dyn', 'mut', 'const', 'crate', 'self', 'super', 'std'):
                        name = tt.text
                return name
            if for_idx is not None:
                it.trait = last_path_ident(rest[:for_idx])
                it.name = last_path_ident(rest[for_idx + 1:]) or ''
            else:
                it.name = last_path_ident(rest) or ''
            k = match_close(ct, j)
            it.body_open, it.body_close = ct[j].start, ct[k].start
            it.end = ct[k].end
            it.children = _parse_block(src, ct, j + 1, k, doc_before)
            i = k + 1
        elif kw.kind == 'ident' and kw.text in ('const', 'static'):
            it.kind = 'const'
            j = i + 1
            if ct[j].kind == 'ident' and ct[j].text == 'mut':
                j += 1
            it.name = ct[j].text
            k = until_semicolon(j)
            it.end = ct[k].end
            i = k + 1
        elif kw.kind == 'ident' and kw.text == 'type':
            it.kind = 'type'
            it.name = ct[i + 1].text
            k = until_semicolon(i + 1)
            it.end = ct[k].end
            i = k + 1
        elif kw.kind == 'ident' and kw.text in ('use', 'extern'):
            it.kind = 'use'
            k = until_semicolon(i + 1)
            it.end = ct[k].end
            i = k + 1
        else:
            # macro invocation item: path ! (..) ; | path ! {..} | macro_rules! name {..}
            j = i
            while j < hi and not (ct[j].kind == 'punct' and ct[j].text == '!'):
                if ct[j].kind == 'punct' and ct[j].text not in (':',):
                    raise ScanError(f'unrecognised item at line {kw.line}: {kw.text!r}')
                j += 1
            if j >= hi:
                raise ScanError(f'unrecognised item at line {kw.line}: {kw.text!r}')
            it.kind = 'macro'
            it.name = kw.text
            j += 1
            if ct[j].kind == 'ident':
                it.name = ct[j].text
                j += 1
            k = match_close(ct, j)
            it.end = ct[k].end
            i = k + 1
            if i < hi and ct[i].kind == 'punct' and ct[i].text == ';':
                it.end = ct[i].end
                i += 1
        items.append(it)
    return items
