"""Engine K: Kani on the real crate, in an instrumented scratch copy of /repo's current working tree.

Nothing under /repo is modified.  Per run:
  1. rsync /repo (minus target/, .git/) to a fixed scratch path outside /repo, /verif and /tmp (flock-ed);
  2. neutralise the logging / metrics macro cores in the copy (Kani ICE trigger; the analogue of rule R2);
  3. append units/<u>/harness.rs as `#[cfg(kani)] mod verif_kani { use super::*; .. }` to the unit's source file,
     so private items are reachable and the function under proof is the compiled real function;
  4. cargo kani -p <crate> -Z function-contracts -Z stubbing --harness ..;
  5. delete the scratch copy; only third-party dependency artefacts stay in the cache target dir.

Harness classification (declared in unit.toml, printed in evidence, never blurred):
  complete  loop-free (or constant trip counts with unwinding assertions) over full-domain inputs -> counts as proved
  bounded   input length / unwind bounded -> reported under bounded_obligations, never as discharged
"""
from __future__ import annotations
import fcntl
import os
import re
import shutil
import subprocess
import sys
import time
import tomllib

sys.path.insert(0, os.path.dirname(os.path.abspath(__file__)))
import rustscan

WORK_ROOT = os.environ.get('VERIF_WORK', '/var/tmp/sozu-verif')
VERIF_ROOT = os.path.dirname(os.path.dirname(os.path.abspath(__file__)))
CACHE_TARGET = os.path.join(VERIF_ROOT, 'cache', 'kani-target')

STUB_MACROS = {
    'command/src/logging/logs.rs': {
        # arguments are NOT evaluated: they are format! / log-context strings whose construction dominates CBMC cost
        '_log': 'macro_rules! _log {\n    ($lvl:expr, $format:expr $(, $args:expr)*) => {{}};\n}',
    },
    'lib/src/metrics/mod.rs': {
        # same arms as the originals; only the value argument is evaluated, the thread-local METRICS access is gone
        'count': 'macro_rules! count (\n  ($key:expr, $value: expr) => ({ let _v = $value; });\n);',
        'incr': 'macro_rules! incr (\n  ($key:expr) => ({});\n  ($key:expr, $cluster_id:expr, $backend_id:expr) => ({});\n);',
        'gauge': 'macro_rules! gauge (\n  ($key:expr, $value: expr) => ({ let _v = $value; });\n  ($key:expr, $value:expr, $cluster_id:expr, $backend_id:expr) => ({ let _v = $value; });\n);',
        'gauge_add': 'macro_rules! gauge_add (\n  ($key:expr, $value: expr) => ({ let _v = $value; });\n  ($key:expr, $value:expr, $cluster_id:expr, $backend_id:expr) => ({ let _v = $value; });\n);',
        'time': 'macro_rules! time (\n  ($key:expr, $value: expr) => ({ let _v = $value; });\n  ($key:expr, $cluster_id:expr, $value: expr) => ({ let _v = $value; });\n);',
    },
}


def neutralise_macros(root: str) -> list[str]:
    notes = []
    for rel, macros in STUB_MACROS.items():
        p = os.path.join(root, rel)
        if not os.path.exists(p):
            continue
        src = open(p).read()
        items = rustscan.parse_items(src)
        edits = []
        for it in items:
            if it.kind == 'macro' and it.name in macros:
                edits.append((it.start, it.end, macros[it.name]))
                notes.append(f'{rel}: macro {it.name}! replaced by an argument-evaluating no-op (scratch copy only)')
        for s, e, new in sorted(edits, reverse=True):
            src = src[:s] + new + src[e:]
        open(p, 'w').write(src)
    return notes


def _blank(unit: str) -> dict:
    return {'unit': unit, 'engine': 'kani', 'status': 'ok', 'tool_error': None, 'obligations': [], 'failures': [],
            'functions': [], 'assumed_contracts': [], 'assumption_scan': [], 'rules': {}, 'substitutions': [],
            'vacuity': {}, 'solver_time_s': 0.0, 'wall_s': 0.0, 'checker_cmd': '', 'items': [], 'bounded': [],
            'extra_assumptions': []}


def run_unit(unit_dir: str, repo_root: str = '/repo', tier: str = 'quick', keep: bool = False) -> dict:
    return run_group([unit_dir], repo_root, tier, keep)[os.path.basename(unit_dir.rstrip('/'))]



def _run_group_kill(cmd, cwd, env, timeout):
    """subprocess.run(capture_output, text) in its own process group; on timeout the whole group (cargo, kani-driver,
    cbmc) is killed so no orphan solver keeps burning memory."""
    import signal
    def _limits():
        # address-space ceiling per process (cbmc has reached 44 GB on this 62 GB / no-swap machine): a solver that
        # needs more dies with an allocation failure, which is reported as a tool error, never as a verdict
        import resource
        lim = int(os.environ.get('VERIF_KANI_AS_GB', '30')) << 30
        resource.setrlimit(resource.RLIMIT_AS, (lim, lim))
    proc = subprocess.Popen(cmd, cwd=cwd, env=env, stdout=subprocess.PIPE, stderr=subprocess.PIPE, text=True, start_new_session=True,
                            preexec_fn=_limits)
    try:
        out, err = proc.communicate(timeout=timeout)
    except subprocess.TimeoutExpired:
        try:
            os.killpg(proc.pid, signal.SIGKILL)
        except ProcessLookupError:
            pass
        proc.communicate()
        raise
    return subprocess.CompletedProcess(cmd, proc.returncode, out, err)

def run_group(unit_dirs: list, repo_root: str = '/repo', tier: str = 'quick', keep: bool = False) -> dict:
    """all units must target the same crate: ONE scratch copy, ONE cargo kani build, every harness of every unit"""
    t0 = time.time()
    units = []
    for d in unit_dirs:
        u = os.path.basename(d.rstrip('/'))
        cfg = tomllib.load(open(os.path.join(d, 'unit.toml'), 'rb'))
        hs = [h for h in cfg.get('harness', []) if tier == 'thorough' or h.get('quick', True)]
        units.append({'name': u, 'dir': d, 'cfg': cfg, 'harnesses': hs, 'res': _blank(u)})
    out_res = {x['name']: x['res'] for x in units}

    def fail_all(msg):
        for x in units:
            x['res']['status'] = 'tool-error'
            x['res']['tool_error'] = msg
        return out_res

    crates = {x['cfg']['crate'] for x in units}
    if len(crates) != 1:
        return fail_all(f'run_group: units of different crates {crates}')
    crate = crates.pop()
    for x in units:
        if not x['harnesses']:
            if x['cfg'].get('harness'):
                # every harness of this unit belongs to the thorough tier: nothing to run at this tier (not an error)
                x['res']['status'] = 'skipped'
                x['res'].setdefault('extra_assumptions', []).append('no harness of this unit runs in the quick tier (all are marked quick = false); see the thorough tier')
            else:
                x['res']['status'] = 'tool-error'
                x['res']['tool_error'] = 'no harness declared'
    os.makedirs(WORK_ROOT, exist_ok=True)
    os.makedirs(CACHE_TARGET, exist_ok=True)
    lock = open(os.path.join(WORK_ROOT, 'kani.lock'), 'w')
    fcntl.flock(lock, fcntl.LOCK_EX)
    work = os.path.join(WORK_ROOT, 'kwork')
    try:
        shutil.rmtree(work, ignore_errors=True)
        r = subprocess.run(['rsync', '-a', '--exclude', 'target', '--exclude', '.git', repo_root.rstrip('/') + '/', work + '/'],
                           capture_output=True, text=True)
        if r.returncode != 0:
            return fail_all('rsync failed: ' + r.stderr[-300:])
        notes = neutralise_macros(work)
        names_seen = set()
        for x in units:
            x['res']['extra_assumptions'] += notes
            for tgt in x['cfg'].get('target', []):
                src_path = os.path.join(work, tgt['file'])
                if not os.path.isfile(src_path):
                    x['res']['status'] = 'tool-error'
                    x['res']['tool_error'] = f'lost anchor: {tgt["file"]} not found'
                    continue
                htext = open(os.path.join(x['dir'], tgt['harness_file'])).read()
                modname = 'verif_kani_' + re.sub(r'\W', '_', x['name']).lower()
                with open(src_path, 'a') as f:
                    f.write(f'\n\n#[cfg(kani)]\n#[allow(unused, clippy::all)]\npub(crate) mod {modname} {{\n    use super::*;\n' + htext + '\n}\n')
                src = open(src_path).read()
                for fn in tgt.get('requires_fns', []):
                    if not re.search(r'\bfn\s+' + re.escape(fn) + r'\b', src):
                        x['res']['status'] = 'tool-error'
                        x['res']['tool_error'] = f'lost anchor: fn {fn} not found in {tgt["file"]}'
            for h in x['harnesses']:
                if h['name'] in names_seen:
                    return fail_all(f'duplicate harness name {h["name"]}')
                names_seen.add(h['name'])
        live = [x for x in units if x['res']['status'] == 'ok']
        for x in units:
            if x['res']['status'] == 'skipped':
                x['res']['status'] = 'ok'
        if not live:
            return out_res
        cmd = ['cargo', 'kani', '-p', crate, '-Z', 'function-contracts', '-Z', 'stubbing',
               '--target-dir', CACHE_TARGET, '--output-format', 'terse']
        # harnesses run sequentially: with -j Kani interleaves the per-harness result blocks and they cannot be attributed
        for x in live:
            for h in x['harnesses']:
                cmd += ['--harness', h['name']]
        env = dict(os.environ, CARGO_NET_OFFLINE='true')
        for x in live:
            x['res']['checker_cmd'] = ' '.join(cmd).replace(work, '<scratch>')
        timeout = sum(x['cfg'].get('timeout_s', 1500) if tier == 'quick' else x['cfg'].get('timeout_thorough_s', 5400) for x in live)
        try:
            p = _run_group_kill(cmd, work, env, timeout)
            out = p.stdout + '\n' + p.stderr
        except subprocess.TimeoutExpired:
            return fail_all(f'cargo kani timed out after {timeout}s')
        if keep:
            open(os.path.join(WORK_ROOT, 'kani-' + '+'.join(x['name'] for x in live) + '.log'), 'w').write(out)
        results = parse_kani(out)
        if 'internal compiler error' in out or 'error: could not compile' in out or (not results and p.returncode != 0):
            err = [l for l in out.split('\n') if l.startswith('error') or 'panicked' in l][:5]
            return fail_all('kani build failed / ICE: ' + ' | '.join(err)[:600])
        for x in live:
            _fill_unit(x, results, work, env)
            x['res']['wall_s'] = round(time.time() - t0, 2)
        return out_res
    finally:
        for x in units:
            x['res']['wall_s'] = x['res']['wall_s'] or round(time.time() - t0, 2)
        if not keep:
            shutil.rmtree(work, ignore_errors=True)
        # drop sozu artefacts from the cache target, keep third-party deps
        try:
            for root, dirs, files in os.walk(CACHE_TARGET):
                for n in files:
                    if 'sozu' in n:
                        os.remove(os.path.join(root, n))
                for d in list(dirs):
                    if 'sozu' in d:
                        shutil.rmtree(os.path.join(root, d), ignore_errors=True)
                        dirs.remove(d)
        except Exception:
            pass
        fcntl.flock(lock, fcntl.LOCK_UN)
        lock.close()


def _fill_unit(x: dict, results: dict, work: str, env: dict) -> None:
    res, cfg, harnesses = x['res'], x['cfg'], x['harnesses']
    tgt0 = cfg.get('target', [{}])[0]
    sol = 0.0
    for h in harnesses:
        name = h['name']
        r = next((v for k, v in results.items() if k == name or k.endswith('::' + name)), None)
        kind = h.get('kind', 'bounded')
        ob = {'id': h['obligation'], 'kind': 'kani-' + kind, 'fn': h.get('fn', ''), 'clause': h.get('clause', ''), 'harness': name}
        if r is None:
            res['status'] = 'tool-error'
            res['tool_error'] = f'harness {name} produced no result (lost anchor or filtered out)'
            return
        sol += r.get('time_s', 0.0)
        if r['status'] == 'SUCCESSFUL':
            if h.get('cover', False) and r.get('covers_satisfied', 0) == 0:
                res['status'] = 'tool-error'
                res['tool_error'] = f'vacuity guard: no cover satisfied in harness {name}'
                return
            if kind in ('complete', 'modular'):
                ob['status'] = 'discharged'
                res['obligations'].append(ob)
            else:
                res['bounded'].append({'id': h['obligation'], 'bound': h.get('bound', ''), 'status': 'pass',
                                       'clause': h.get('clause', ''), 'harness': name})
        elif r['status'] == 'FAILED':
            fails = r.get('failed_checks', [])
            mcrash = re.search(r'CBMC failed with status \d+|CBMC timed out|out of memory|std::bad_alloc|Killed', r.get('raw', ''))
            if mcrash or not fails:
                # the solver died (memory ceiling, crash) or Kani reports FAILED without naming any failed check:
                # nothing was refuted -> undecided, never an alarm
                res['status'] = 'tool-error'
                res['tool_error'] = f'harness {name}: solver did not finish ({mcrash.group(0) if mcrash else "FAILED without a failed check"})'
                return
            if fails and any('not currently supported by Kani' in f or 'unsupported' in f.lower() for f in fails):
                res['status'] = 'tool-error'
                res['tool_error'] = f'harness {name}: construct outside Kani: {fails[0][:160]}'
                return
            if fails and all('unwinding assertion' in f for f in fails):
                res['status'] = 'tool-error'
                res['tool_error'] = f'harness {name}: unwinding bound too small ({fails[0][:120]})'
                return
            ob['status'] = 'failed'
            if kind in ('complete', 'modular'):
                res['obligations'].append(ob)
            else:
                res['bounded'].append({'id': h['obligation'], 'bound': h.get('bound', ''), 'status': 'fail',
                                       'clause': h.get('clause', ''), 'harness': name})
            loc = r.get('failed_locs', [{}])[0] if r.get('failed_locs') else {}
            res['failures'].append({'id': h['obligation'], 'message': '; '.join(fails[:3]) or 'VERIFICATION FAILED',
                                    'kind': 'kani', 'fn': h.get('fn', ''), 'clause': h.get('clause', ''),
                                    'rendered': r.get('raw', '')[-2500:],
                                    'exit': {'file': loc.get('file', tgt0.get('file', '')), 'line': loc.get('line', 0),
                                             'text': loc.get('text', fails[0] if fails else '')}})
        else:
            res['status'] = 'tool-error'
            res['tool_error'] = f'harness {name}: {r["status"]}'
            return
    for fl in res['failures']:
        hname = next(h['name'] for h in harnesses if h['obligation'] == fl['id'])
        fl['replay'] = concrete_playback(work, cfg, hname, env)
    res['solver_time_s'] = round(sol, 2)
    res['functions'] = [{'name': f, 'file': t.get('file'), 'line': None, 'sha256': None, 'smt_ms': None, 'external_body': False}
                        for t in cfg.get('target', []) for f in t.get('requires_fns', [])]
    res['assumption_scan'] = scan_harness(x['dir'], cfg)
    if res['failures']:
        res['status'] = 'violation'


def concrete_playback(work: str, cfg: dict, harness: str, env: dict) -> dict:
    info = {'attempted': True, 'found': False}
    try:
        cmd = ['cargo', 'kani', '-p', cfg['crate'], '-Z', 'function-contracts', '-Z', 'stubbing', '-Z', 'concrete-playback',
               '--concrete-playback=inplace', '--target-dir', CACHE_TARGET, '--output-format', 'terse', '--harness', harness]
        p = subprocess.run(cmd, cwd=work, env=env, capture_output=True, text=True, timeout=1500)
        out = p.stdout + p.stderr
        # the generated unit tests now sit in the scratch copy's source file: one per failed check AND one per satisfied
        # cover; a cover's test is not a counterexample, so tests generated for anything but a cover come first
        cands = []
        for tgt in cfg.get('target', []):
            txt = open(os.path.join(work, tgt['file'])).read()
            for mm in re.finditer(r'(///[^\n]*\n\s*)*#\[test\]\s*fn (kani_concrete_playback_' + re.escape(harness) + r'_\w+)\(\) \{.*?concrete_playback_run\([^)]*\);\s*\}', txt, re.S):
                block = mm.group(0)
                is_cover = bool(re.search(r'Check for `cover`', block))
                cands.append((is_cover, mm.group(2), block))
        if not cands:
            info['reason'] = 'kani produced no concrete playback test'
            return info
        cands.sort(key=lambda c: c[0])
        env2 = dict(env, CARGO_TARGET_DIR=os.path.join(CACHE_TARGET, 'playback'))
        last = ''
        for is_cover, tname, block in cands[:4]:
            cmd2 = ['cargo', 'kani', 'playback', '-Z', 'concrete-playback', '-p', cfg['crate'], '--', tname]
            p2 = subprocess.run(cmd2, cwd=work, env=env2, capture_output=True, text=True, timeout=2400)
            out2 = p2.stdout + p2.stderr
            last = out2
            info['cmd'] = ' '.join(cmd2)
            if re.search(r'test result: FAILED|panicked at|error: test failed', out2):
                info['found'] = True
                info['input'] = 'concrete values chosen by CBMC (bytes per kani::any()): ' + re.sub(r'\s+', ' ', block)[:1500]
                pm = re.search(r"panicked at ([^\n]*)\n([^\n]*)", out2)
                info['observed'] = ('the real function, run natively on these values, fails: ' + (pm.group(0) if pm else 'test FAILED'))[:600]
                info['required'] = 'the harness assertions (see clause)'
                return info
        info['input'] = 'concrete values chosen by CBMC (bytes per kani::any()): ' + re.sub(r'\s+', ' ', cands[0][2])[:1500]
        info['reason'] = 'no playback test failed natively: ' + last[-400:]
        return info
    except Exception as e:  # noqa
        info['reason'] = f'playback error: {e}'
        return info


def scan_harness(unit_dir: str, cfg: dict) -> list[str]:
    out = []
    for tgt in cfg.get('target', []):
        p = os.path.join(unit_dir, tgt['harness_file'])
        for i, l in enumerate(open(p).read().split('\n'), 1):
            if re.search(r'kani::assume\s*\(|kani::stub\b|stub_verified|kani::unwind', l):
                out.append(f'{tgt["harness_file"]}:{i}: {l.strip()[:120]}')
    return out


def parse_kani(out: str) -> dict:
    """terse output: one block per harness"""
    res = {}
    blocks = re.split(r'(?m)^(?:Thread \d+: )?Checking harness ', out)
    for b in blocks[1:]:
        name = b.split('...')[0].strip().split()[0]
        st = re.search(r'VERIFICATION:- (\w+)', b)
        status = st.group(1) if st else 'NO-RESULT'
        fails = re.findall(r'(?m)^Failed Checks: (.*)$', b)
        locs = []
        for m in re.finditer(r'(?m)^ File: "([^"]+)", line (\d+), in (\S+)', b):
            locs.append({'file': m.group(1), 'line': int(m.group(2)), 'text': m.group(3)})
        tm = re.search(r'Verification Time: ([0-9.]+)s', b)
        covers = len(re.findall(r'SATISFIED', b))
        cov_summary = re.search(r'(\d+) of (\d+) cover properties satisfied', b)
        res[name] = {'status': status, 'failed_checks': fails, 'failed_locs': locs,
                     'time_s': float(tm.group(1)) if tm else 0.0,
                     'covers_satisfied': int(cov_summary.group(1)) if cov_summary else covers, 'raw': b}
    return res


if __name__ == '__main__':
    import json
    r = run_unit(sys.argv[1], tier=(sys.argv[2] if len(sys.argv) > 2 else 'quick'), keep='--keep' in sys.argv)
    print(json.dumps({k: v for k, v in r.items() if k not in ('functions',)}, indent=1)[:6000])
