"""Mechanical extractor: unit template + real /repo source -> one Verus file.

A unit template (units/<u>/unit.rs) is a Verus source file.  Lines beginning
with `//@` are directives; everything else is copied as is (it is the
hand-written part: shims, spec functions, lemmas, impl headers).

    //@item <file> <kind> <Name>          copy a struct/enum/const/type/fn item verbatim (rules R1, R4)
    //@fn <file> <Selector>               copy a function verbatim and splice the contract below into it
    //@  ret <name>                       name the return value:  -> T   becomes   -> (name: T)
    //@  rename <new>                     emit under another name (trait-impl methods emitted as inherent ones)
    //@  opaque_body                      R7b: emit signature + contract with an `unimplemented!()` body (assumed contract of a callee outside the unit)
    //@  attr <text>                      attribute line put in front (e.g. #[verifier::external_body])
    //@  sig "<a>" => "<b>"               exact-text substitution in the signature, must match once (R6)
    //@  subst "<a>" => "<b>"             exact-text substitution in the body, must match once (R6)
    //@  substall "<a>" => "<b>"          same, >= 1 matches, count recorded
    //@  requires | ensures | decreases   followed by clause lines (indented >= 4 after //@);  `// [label]` names the clause
                                          (directive keywords sit at indent < 4, their content lines at indent >= 4)
    //@  loop <k>                         followed by invariant / decreases / ensures lines for loop ordinal k
    //@  before "<anchor>" [#n]           followed by proof-only lines inserted before the n-th occurrence of anchor
                                          (anchor "@end": just before the closing brace of the function body)
    //@  keep_dassert | drop_dassert <k>  (default keep) drop the k-th debug_assert with a reason recorded
    //@  cut_readonly ...                    as cut, and the dropped text must be read-only on `self` (checked syntactically: no assignment
                                          to self.*, no `&mut self.*`, only a fixed list of `&self` std methods) — exit 2 otherwise
    //@  (cut: the <from> anchor "@start" means: from just after the opening brace of the function body)
    //@  cut "<from>" .. "<until>" => "<r>" R8: delete the body text from the unique anchor <from> (inclusive) up to the
                                          unique anchor <until> (exclusive) and put <r> there; lines + sha256 of the cut recorded
    //@end
    //@global-subst "<a>" => "<b>"        applied to every extracted text (count recorded)

Selector: `Type::method` (inherent impl), `Trait for Type::method`, or `name` (free fn).

Nothing but the named rewrite rules touches extracted text.  Every rule firing
is counted; every extracted item is hashed before rewriting.  Failure to find an
item, or a substitution that does not match exactly once, raises LostAnchor
(exit 2 in the callers).
"""
from __future__ import annotations
import hashlib
import os
import re
from dataclasses import dataclass, field

import rustscan
from rustscan import ScanError, tokenize, code_tokens, match_close, parse_items, Item

LOG_MACROS = {'trace', 'debug', 'info', 'warn', 'error', 'incr', 'count', 'gauge', 'gauge_add',
              'time', 'log_access', 'info_access', 'error_access', 'println', 'eprintln', 'log',
              'fixme', 'record_backend_metrics', 'log_context'}
DASSERT_MACROS = {'debug_assert', 'debug_assert_eq', 'debug_assert_ne', 'assert', 'assert_eq', 'assert_ne'}


_RO_METHODS = {'clone', 'as_ref', 'is_empty', 'is_some', 'is_none', 'len', 'get', 'iter', 'contains_key', 'to_owned',
               'borrow', 'as_deref', 'as_str', 'as_slice', 'keys', 'values', 'first', 'last'}


def _not_readonly_on_self(region: str) -> str | None:
    """cut_readonly: the dropped text may mention `self` only in read-only forms — a field path that is read, borrowed
    immutably, or receives one of a fixed list of `&self` std methods. Anything else (assignment, `&mut self...`, any other
    method call on self or on a field path of self) is refused, so a cut region replaced by a shim taking `&self.x`
    cannot hide a write to the listener."""
    code = re.sub(r'//[^\n]*', '', region)
    for m in re.finditer(r'\bself\b', code):
        pre = code[max(0, m.start() - 8):m.start()]
        if re.search(r'&\s*mut\s*$', pre):
            return f'`&mut self...` at offset {m.start()}'
        rest = code[m.end():]
        mm = re.match(r'((?:\s*\.\s*\w+)*)\s*(.?)(.?)', rest, re.S)
        chain = [x.strip() for x in mm.group(1).split('.') if x.strip()]
        nxt, nxt2 = mm.group(2), mm.group(3)
        if nxt == '(':
            if not chain or chain[-1] not in _RO_METHODS:
                return f'call `self.{".".join(chain)}(` is not in the read-only method list'
        elif nxt == '=' and nxt2 != '=':
            return f'assignment to `self.{".".join(chain)}`'
        elif nxt in '+-*/|&^%' and nxt2 == '=':
            return f'compound assignment to `self.{".".join(chain)}`'
    return None


def _crate_path_macro(ct, i) -> bool:
    """ct[i] is an identifier preceded by the tokens `crate` `:` `:` (or a single `::` token)."""
    if i >= 3 and ct[i - 1].text == ':' and ct[i - 2].text == ':' and ct[i - 3].text == 'crate':
        return ct[i].text in LOG_MACROS
    return False


class LostAnchor(Exception):
    pass


@dataclass
class Clause:
    text: str
    label: str | None
    tline: int          # template line (1-based)


@dataclass
class LoopSpec:
    ordinal: int
    lines: list[tuple[str, int]] = field(default_factory=list)   # raw text, template line
    clauses: list[Clause] = field(default_factory=list)          # invariant clauses (for the table)


@dataclass
class FnDirective:
    file: str
    selector: str
    tline: int
    ret: str | None = None
    rename: str | None = None
    attrs: list[str] = field(default_factory=list)
    sig_subst: list[tuple[str, str, int]] = field(default_factory=list)
    subst: list[tuple[str, str, int, bool]] = field(default_factory=list)
    requires: list[Clause] = field(default_factory=list)
    ensures: list[Clause] = field(default_factory=list)
    decreases: list[Clause] = field(default_factory=list)
    loops: dict[int, LoopSpec] = field(default_factory=dict)
    before: list[tuple[str, int, list[tuple[str, int]]]] = field(default_factory=list)
    before_kind: list[str] = field(default_factory=list)
    drop_dassert: dict[int, str] = field(default_factory=dict)
    cuts: list[tuple[str, str, str, int]] = field(default_factory=list)
    cut_readonly: set = field(default_factory=set)
    resubst: list = field(default_factory=list)
    external_body: bool = False
    opaque_body: bool = False
    no_vacuity: bool = False


@dataclass
class OutLine:
    text: str
    origin: tuple      # ('tmpl', line) | ('repo', file, line) | ('gen', what)
    fn: str | None = None


@dataclass
class FnInfo:
    name: str                 # emitted name
    selector: str
    file: str
    repo_line: int
    repo_end_line: int
    sha256: str
    directive: FnDirective
    dasserts: list[dict] = field(default_factory=list)   # {k, line, end_line, text, dropped}
    loops_found: int = 0
    out_first: int = 0
    out_last: int = 0
    external_body: bool = False
    opaque_body: bool = False
    callees: list[str] = field(default_factory=list)
    sect_idx: dict = field(default_factory=dict)   # section -> (first, last+1) output indices
    body_first: int = 0


@dataclass
class Emitted:
    lines: list[OutLine]
    fns: list[FnInfo]
    items: list[dict]
    rules: dict
    substitutions: list[dict]
    lemmas: list[dict]
    template: str
    imports: list = field(default_factory=list)


_SUBST_RE = re.compile(r'^"((?:[^"\\]|\\.)*)"\s*=>\s*"((?:[^"\\]|\\.)*)"\s*$')


def _unesc(s: str) -> str:
    return s.replace('\\n', '\n').replace('\\"', '"').replace('\\\\', '\\')


def _parse_subst(arg: str, tline: int):
    m = _SUBST_RE.match(arg.strip())
    if not m:
        raise LostAnchor(f'template line {tline}: malformed substitution: {arg}')
    return _unesc(m.group(1)), _unesc(m.group(2))


_LABEL_RE = re.compile(r'//\s*\[([A-Za-z0-9_.:\-]+)\]\s*$')


def _split_clauses(lines: list[tuple[str, int]]) -> list[Clause]:
    """group raw lines into clauses; a clause ends at a line whose code part ends with ',' at bracket balance 0"""
    out: list[Clause] = []
    cur: list[str] = []
    cur_line = None
    label = None
    bal = 0
    for raw, tl in lines:
        m = _LABEL_RE.search(raw)
        code = raw
        if m:
            label = m.group(1)
            code = raw[:m.start()].rstrip()
        else:
            # strip ordinary trailing comment
            k = code.find('//')
            if k >= 0:
                code = code[:k].rstrip()
        if not code.strip():
            continue
        if cur_line is None:
            cur_line = tl
        cur.append(code)
        for ch in code:
            if ch in '([{':
                bal += 1
            elif ch in ')]}':
                bal -= 1
        if bal == 0 and code.rstrip().endswith(','):
            out.append(Clause('\n'.join(cur), label, cur_line))
            cur, cur_line, label = [], None, None
    if cur:
        out.append(Clause('\n'.join(cur), label, cur_line))
    return out


def parse_template(path: str):
    """returns list of segments: ('text', [(line, tline)]) | ('item', file, kind, name, tline) | ('fn', FnDirective)"""
    segs = []
    gsubst = []
    cur_text: list[tuple[str, int]] = []
    lines = open(path).read().split('\n')
    i = 0
    while i < len(lines):
        ln = lines[i]
        s = ln.strip()
        tl = i + 1
        if s.startswith('//@global-subst'):
            a, b = _parse_subst(s[len('//@global-subst'):], tl)
            gsubst.append((a, b, tl))
            i += 1
            continue
        if s.startswith('//@item'):
            if cur_text:
                segs.append(('text', cur_text))
                cur_text = []
            parts = s.split()
            if len(parts) < 4:
                raise LostAnchor(f'template line {tl}: //@item <file> <kind> <name>')
            opts = parts[4:]
            segs.append(('item', parts[1], parts[2], parts[3], tl, opts))
            i += 1
            continue
        if s.startswith('//@import'):
            if cur_text:
                segs.append(('text', cur_text))
                cur_text = []
            parts = s.split(None, 2)
            segs.append(('import', parts[1], parts[2].strip(), tl))
            i += 1
            continue
        if s.startswith('//@fn'):
            if cur_text:
                segs.append(('text', cur_text))
                cur_text = []
            parts = s.split(None, 2)
            d = FnDirective(file=parts[1], selector=parts[2].strip(), tline=tl)
            i += 1
            section = None
            sect_lines: list[tuple[str, int]] = []
            cur_loop = None
            cur_before = None

            def flush():
                nonlocal section, sect_lines, cur_loop, cur_before
                if section in ('requires', 'ensures', 'decreases'):
                    getattr(d, section).extend(_split_clauses(sect_lines))
                elif section == 'loop':
                    cur_loop.lines = sect_lines
                    # invariant clauses for the table
                    inv, mode = [], None
                    for raw, l2 in sect_lines:
                        w = raw.strip().split(None, 1)
                        if w and w[0] in ('invariant', 'invariant_except_break', 'ensures', 'decreases'):
                            mode = w[0]
                            rest = w[1] if len(w) > 1 else ''
                            if mode.startswith('invariant') and rest.strip():
                                inv.append((rest, l2))
                        elif mode and mode.startswith('invariant'):
                            inv.append((raw, l2))
                    cur_loop.clauses = _split_clauses(inv)
                    d.loops[cur_loop.ordinal] = cur_loop
                elif section == 'before':
                    d.before.append((cur_before[0], cur_before[1], sect_lines))
                    d.before_kind.append(cur_before[2])
                section, sect_lines, cur_loop, cur_before = None, [], None, None

            while i < len(lines):
                s2 = lines[i].strip()
                tl2 = i + 1
                if s2.startswith('//') and not s2.startswith('//@'):
                    i += 1
                    continue   # plain comment inside a directive block
                if not s2.startswith('//@'):
                    raise LostAnchor(f'template line {tl2}: expected //@ directive line inside //@fn block')
                body = s2[3:]
                w = body.strip().split(None, 1)
                key = w[0] if w else ''
                arg = w[1] if len(w) > 1 else ''
                if body.startswith('end'):
                    flush()
                    i += 1
                    break
                indent = len(body) - len(body.lstrip())
                if not body.strip():
                    i += 1
                    continue
                if indent >= 4:
                    # continuation line of the current section
                    if section is None:
                        raise LostAnchor(f'template line {tl2}: clause outside a section')
                    sect_lines.append((body, tl2))
                    i += 1
                    continue
                flush()
                if key == 'ret':
                    d.ret = arg.strip()
                elif key == 'rename':
                    d.rename = arg.strip()
                elif key == 'attr':
                    d.attrs.append(arg)
                elif key == 'external_body':
                    d.external_body = True
                    d.attrs.append('#[verifier::external_body]')
                elif key == 'opaque_body':
                    # R7b: signature + contract only; the body is NOT copied (it need not even type-check against the
                    # unit's shims). The contract is an assumption, listed as such; no vacuity twin.
                    d.external_body = True
                    d.opaque_body = True
                    d.no_vacuity = True
                    d.attrs.append('#[verifier::external_body]')
                elif key == 'no_vacuity':
                    d.no_vacuity = True
                elif key == 'sig':
                    a, b = _parse_subst(arg, tl2)
                    d.sig_subst.append((a, b, tl2))
                elif key in ('subst', 'substall', 'optsubst'):
                    a, b = _parse_subst(arg, tl2)
                    # optsubst: applied where the text occurs (any number of times, also zero): for statements whose
                    # mere presence is what a contract is about, so that their removal fails the contract, not the extraction
                    d.subst.append((a, b, tl2, {'subst': False, 'substall': True, 'optsubst': 'opt'}[key]))
                elif key in ('resubst', 'optresubst'):
                    # R6 with a regular expression: must match exactly once in the body (optresubst: at most once, for a
                    # statement whose presence is what a contract is about); the replacement may use \\1..\\9
                    a, b = _parse_subst(arg, tl2)
                    d.resubst.append((a, b, tl2, key == 'optresubst'))
                elif key in ('requires', 'ensures', 'decreases'):
                    section = key
                    if arg.strip():
                        sect_lines.append((' ' + arg, tl2))
                elif key == 'loop':
                    section = 'loop'
                    cur_loop = LoopSpec(ordinal=int(arg.strip()))
                elif key in ('before', 'exec_before'):
                    m = re.match(r'^"((?:[^"\\]|\\.)*)"\s*(?:#(\d+))?\s*$', arg.strip())
                    if not m:
                        raise LostAnchor(f'template line {tl2}: {key} "<anchor>" [#n]')
                    section = 'before'
                    cur_before = (_unesc(m.group(1)), int(m.group(2) or 0), 'exec' if key == 'exec_before' else 'proof')
                elif key in ('cut', 'cut_readonly'):
                    m = re.match(r'^"((?:[^"\\]|\\.)*)"\s*\.\.\s*"((?:[^"\\]|\\.)*)"\s*=>\s*"((?:[^"\\]|\\.)*)"\s*$', arg.strip())
                    if not m:
                        raise LostAnchor(f'template line {tl2}: cut "<from>" .. "<until>" => "<replacement>"')
                    d.cuts.append((_unesc(m.group(1)), _unesc(m.group(2)), _unesc(m.group(3)), tl2))
                    if key == 'cut_readonly':
                        d.cut_readonly.add(tl2)
                elif key == 'drop_dassert':
                    w2 = arg.split(None, 1)
                    d.drop_dassert[int(w2[0])] = w2[1] if len(w2) > 1 else 'unsupported construct'
                else:
                    raise LostAnchor(f'template line {tl2}: unknown directive {key!r}')
                i += 1
            else:
                raise LostAnchor(f'template line {tl}: //@fn without //@end')
            segs.append(('fn', d))
            continue
        cur_text.append((ln, tl))
        i += 1
    if cur_text:
        segs.append(('text', cur_text))
    return segs, gsubst


class RepoFile:
    def __init__(self, root: str, rel: str):
        self.rel = rel
        self.path = os.path.join(root, rel)
        if not os.path.isfile(self.path):
            raise LostAnchor(f'file not found: {rel}')
        self.src = open(self.path).read()
        try:
            self.toks = tokenize(self.src)
            self.items = parse_items(self.src, self.toks)
        except ScanError as e:
            raise LostAnchor(f'{rel}: scanner: {e}')
        # char offset -> line
        self.line_starts = [0]
        for m in re.finditer('\n', self.src):
            self.line_starts.append(m.end())

    def line_of(self, off: int) -> int:
        import bisect
        return bisect.bisect_right(self.line_starts, off)

    def find_fn(self, selector: str) -> Item:
        sel = selector.strip()
        trait = None
        m = re.match(r'^(\w+)\s+for\s+(\w+)::(\w+)$', sel)
        cands: list[Item] = []
        if m:
            trait, ty, fn = m.groups()
            for it in self._all_impls():
                if it.name == ty and it.trait == trait:
                    cands += [c for c in it.children if c.kind == 'fn' and c.name == fn]
        elif '::' in sel:
            ty, fn = sel.split('::')
            for it in self._all_impls():
                if it.name == ty and it.trait is None:
                    cands += [c for c in it.children if c.kind == 'fn' and c.name == fn]
            if not cands:
                # trait default methods: Trait::method
                for it in self._all(self.items):
                    if it.kind == 'trait' and it.name == ty:
                        cands += [c for c in it.children if c.kind == 'fn' and c.name == fn and c.body_open]
        else:
            cands = [it for it in self.items if it.kind == 'fn' and it.name == sel]
            if not cands:
                for it in self.items:
                    if it.kind == 'mod' and not it.cfg_test:
                        cands += [c for c in it.children if c.kind == 'fn' and c.name == sel]
        if len(cands) != 1:
            raise LostAnchor(f'{self.rel}: function {selector!r} found {len(cands)} times (need exactly 1)')
        if cands[0].body_open is None:
            raise LostAnchor(f'{self.rel}: function {selector!r} has no body')
        return cands[0]

    def _all(self, items):
        for it in items:
            yield it
            if it.kind in ('mod',) and not it.cfg_test:
                yield from self._all(it.children)

    def _all_impls(self):
        for it in self._all(self.items):
            if it.kind == 'impl':
                yield it

    def find_item(self, kind: str, name: str) -> Item:
        kinds = {'struct': ('struct',), 'enum': ('enum',), 'const': ('const',), 'type': ('type',), 'fn': ('fn',)}[kind]
        if '::' in name and kind in ('const', 'type'):
            ty, nm = name.split('::')
            cands = []
            for it in self._all_impls():
                if it.name == ty:
                    cands += [c for c in it.children if c.kind in kinds and c.name == nm]
        else:
            cands = [it for it in self._all(self.items) if it.kind in kinds and it.name == name]
        if len(cands) != 1:
            raise LostAnchor(f'{self.rel}: {kind} {name!r} found {len(cands)} times (need exactly 1)')
        return cands[0]


# ---------------------------------------------------------------------------------------------
# text editing with origin tracking

@dataclass
class Edit:
    start: int
    end: int
    new: str
    origin: tuple | None   # origin for the inserted text; None = origin of `start` in the source


def apply_edits(src: str, base_off: int, rf: RepoFile, edits: list[Edit]) -> list[tuple[str, tuple]]:
    """src is rf.src[base_off: base_off+len(src)]; returns list of (line_text, origin)"""
    edits = sorted(edits, key=lambda e: (e.start, e.end))
    for a, b in zip(edits, edits[1:]):
        if b.start < a.end:
            raise LostAnchor(f'{rf.rel}: overlapping rewrites near line {rf.line_of(base_off + b.start)} '
                             f'({a.new[:30]!r} / {b.new[:30]!r})')
    chunks: list[tuple[str, tuple | None, int]] = []   # text, fixed origin or None, src offset
    pos = 0
    for e in edits:
        if e.start > pos:
            chunks.append((src[pos:e.start], None, pos))
        if e.new:
            org = e.origin if e.origin is not None else ('repo', rf.rel, rf.line_of(base_off + e.start))
            chunks.append((e.new, org, e.start))
        pos = max(pos, e.end)
    if pos < len(src):
        chunks.append((src[pos:], None, pos))
    # now split into lines, origin per line = origin of first non-blank char (or first char)
    out: list[tuple[str, tuple]] = []
    cur = ''
    cur_org = None
    for text, org, off in chunks:
        k = 0
        for ch in text:
            if cur_org is None and not ch.isspace():
                cur_org = org if org is not None else ('repo', rf.rel, rf.line_of(base_off + off + k))
            if ch == '\n':
                if cur_org is None:
                    cur_org = org if org is not None else ('repo', rf.rel, rf.line_of(base_off + off + k))
                out.append((cur, cur_org))
                cur, cur_org = '', None
            else:
                cur += ch
            k += 1
    if cur or cur_org is not None:
        out.append((cur, cur_org or ('gen', 'tail')))
    return out


def _top_level_args(ct, lo, hi):
    """split code tokens ct[lo:hi] (inside parens) at top-level commas -> list of (lo, hi)"""
    args = []
    start = lo
    j = lo
    while j < hi:
        t = ct[j]
        if t.kind == 'punct' and t.text in rustscan.OPEN:
            j = match_close(ct, j)
        elif t.kind == 'punct' and t.text == ',':
            args.append((start, j))
            start = j + 1
        j += 1
    if start < hi:
        args.append((start, hi))
    return args


def rewrite_body(rf: RepoFile, it: Item, d: FnDirective, rules: dict, info: FnInfo) -> list[Edit]:
    """rules R2, R3, R5 + loop contracts + before-anchors + substitutions, on the fn item text (sig+body)."""
    base = it.start
    text = rf.src[it.start:it.end]
    toks = [t for t in rf.toks if it.start <= t.start < it.end]
    ct = code_tokens(toks)
    edits: list[Edit] = []
    body_open_idx = next(i for i, t in enumerate(ct) if t.start == it.body_open)
    # anchors never match inside comments (an insertion there could un-comment code)
    comment_ranges = [(t.start - base, t.end - base) for t in toks if t.kind in ('lcomment', 'bcomment')]

    def in_comment(pos: int) -> bool:
        return any(lo <= pos < hi for lo, hi in comment_ranges)

    # strip comments inside (doc comments inside fn bodies are harmless; keep ordinary comments)
    # R2 / R3: macros
    deferred_r2: list[tuple[int, str]] = []
    dk = 0
    i = body_open_idx
    while i < len(ct) - 2:
        t = ct[i]
        if t.kind == 'ident' and ct[i + 1].kind == 'punct' and ct[i + 1].text == '!' \
                and ct[i + 2].kind == 'punct' and ct[i + 2].text in '([{' \
                and not (i > 0 and ct[i - 1].kind == 'punct' and ct[i - 1].text in '.:'
                         and not _crate_path_macro(ct, i)):
            name = t.text
            close = match_close(ct, i + 2)
            if name in LOG_MACROS and _crate_path_macro(ct, i):
                # `crate::incr!(..)`: the same metrics macro named by its crate path; dropped like the bare form
                t = ct[i - 3]
                i0 = i - 3
            else:
                i0 = i
            if name in LOG_MACROS:
                argtext = rf.src[ct[i + 2].end:ct[close].start]
                if re.search(r'&\s*mut\b|[+\-*/|&^]=|<<=|>>=', argtext):
                    raise LostAnchor(f'{rf.rel}:{t.line}: R2 refuses to drop {name}! whose arguments may have side effects')
                end = ct[close].end
                prev = ct[i0 - 1] if i0 > 0 else None
                nxt = ct[close + 1] if close + 1 < len(ct) else None
                nl = '\n' * rf.src.count('\n', t.start, end)
                if prev is not None and prev.kind == 'punct' and prev.text == '>' and ct[i0 - 2].text == '=':
                    edits.append(Edit(t.start - base, end - base, '{}' + nl, None))
                elif prev is not None and prev.kind == 'punct' and prev.text in '{};':
                    if nxt is not None and nxt.kind == 'punct' and nxt.text == ';':
                        end = nxt.end
                    edits.append(Edit(t.start - base, end - base, nl, None))
                elif prev is not None and prev.kind == 'punct' and prev.text in '|':
                    # closure body  |x| error!(..)
                    edits.append(Edit(t.start - base, end - base, '{}' + nl, None))
                else:
                    # unclassifiable position: an error unless the macro turns out to lie inside an R8 cut region
                    deferred_r2.append((t.start - base, f'{rf.rel}:{t.line}: R2 cannot classify position of {name}!'))
                    i = close + 1
                    continue
                rules['R2'] = rules.get('R2', 0) + 1
                rules.setdefault('R2_lines', []).append(f'{rf.rel}:{t.line} {name}!')
                i = close + 1
                continue
            if name in DASSERT_MACROS:
                args = _top_level_args(ct, i + 3, close)
                end = ct[close].end
                nxt = ct[close + 1] if close + 1 < len(ct) else None
                if nxt is not None and nxt.kind == 'punct' and nxt.text == ';':
                    end = nxt.end
                nl = '\n' * rf.src.count('\n', t.start, end)

                def argtxt(a):
                    return rf.src[ct[a[0]].start:ct[a[1] - 1].end]
                if name.endswith('_eq') or name.endswith('_ne'):
                    if len(args) < 2:
                        raise LostAnchor(f'{rf.rel}:{t.line}: {name}! with <2 args')
                    op = '==' if name.endswith('_eq') else '!='
                    cond = f'({argtxt(args[0])}) {op} ({argtxt(args[1])})'
                else:
                    cond = argtxt(args[0])
                rec = {'k': dk, 'line': t.line, 'end_line': rf.line_of(end - 1), 'macro': name,
                       'cond': re.sub(r'\s+', ' ', cond), 'dropped': None}
                if dk in d.drop_dassert:
                    rec['dropped'] = d.drop_dassert[dk]
                    edits.append(Edit(t.start - base, end - base, nl, None))
                    rules['R3_dropped'] = rules.get('R3_dropped', 0) + 1
                else:
                    # `if true {..}` rather than a bare block: a bare block right after a loop body confuses Verus' parser
                    new = f'if true {{ let verif_c: bool = {cond}; assert(verif_c); }}'
                    # keep it on one logical line start; preserve line count
                    edits.append(Edit(t.start - base, end - base, new.replace('\n', ' ') + nl, None))
                    rules['R3'] = rules.get('R3', 0) + 1
                info.dasserts.append(rec)
                dk += 1
                i = close + 1
                continue
        i += 1

    # R1b: `#[cfg(debug_assertions)]` on statements / blocks inside a body is dropped, so that the repository's
    # debug-only checks are always part of the verified text (their debug_asserts become obligations)
    for j in range(body_open_idx, len(ct) - 1):
        if ct[j].kind == 'punct' and ct[j].text == '#' and ct[j + 1].kind == 'punct' and ct[j + 1].text == '[':
            close = match_close(ct, j + 1)
            atext = rf.src[ct[j].start:ct[close].end]
            if re.fullmatch(r'#\[\s*cfg\s*\(\s*debug_assertions\s*\)\s*\]', atext):
                edits.append(Edit(ct[j].start - base, ct[close].end - base, '', None))
                rules['R1b'] = rules.get('R1b', 0) + 1

    # R5: closure param `_`  ->  `_verif_x`
    for j in range(body_open_idx, len(ct) - 2):
        if ct[j].kind == 'punct' and ct[j].text == '|' and ct[j + 1].kind == 'ident' and ct[j + 1].text == '_' \
                and ct[j + 2].kind == 'punct' and ct[j + 2].text == '|':
            edits.append(Edit(ct[j + 1].start - base, ct[j + 1].end - base, '_verif_x', None))
            rules['R5'] = rules.get('R5', 0) + 1

    # R5b: a constructor/function path used as a function value in map_err(..) -> eta-expanded closure
    for j in range(body_open_idx, len(ct) - 3):
        if ct[j].kind == 'ident' and ct[j].text in ('map_err',) and ct[j + 1].kind == 'punct' and ct[j + 1].text == '(':
            close = match_close(ct, j + 1)
            inner = ct[j + 2:close]
            if inner and all((t.kind == 'ident') or (t.kind == 'punct' and t.text == ':') for t in inner) \
                    and any(t.kind == 'punct' for t in inner):
                path = rf.src[inner[0].start:inner[-1].end]
                edits.append(Edit(inner[0].start - base, inner[-1].end - base, f'|verif_e| {path}(verif_e)', None))
                rules['R5'] = rules.get('R5', 0) + 1

    # loops
    loops = []
    j = body_open_idx + 1
    body_close_idx = match_close(ct, body_open_idx)
    while j < body_close_idx:
        t = ct[j]
        if t.kind == 'ident' and t.text in ('while', 'loop', 'for'):
            if t.text == 'for' and ct[j + 1].kind == 'punct' and ct[j + 1].text == '<':
                j += 1
                continue
            if j > 0 and ct[j - 1].kind == 'punct' and ct[j - 1].text == '.':
                j += 1
                continue
            # head ends at first '{' at paren depth 0
            k = j + 1
            while k < body_close_idx:
                tt = ct[k]
                if tt.kind == 'punct' and tt.text in '([':
                    k = match_close(ct, k)
                elif tt.kind == 'punct' and tt.text == '{':
                    break
                k += 1
            loops.append((j, k))
        j += 1
    info.loops_found = len(loops)
    for ordn, spec in d.loops.items():
        if ordn >= len(loops):
            raise LostAnchor(f'{rf.rel}: {d.selector}: loop ordinal {ordn} not found ({len(loops)} loops)')
        j, k = loops[ordn]
        ins = ''
        first_tl = spec.lines[0][1] if spec.lines else d.tline
        body_lines = []
        for raw, l2 in spec.lines:
            w = raw.strip().split()
            if len(w) == 2 and w[0] == 'iter':
                # name the ghost iterator of a `for` loop:  for pat in EXPR  ->  for pat in NAME: EXPR
                if ct[j].text != 'for':
                    raise LostAnchor(f'{rf.rel}: {d.selector}: loop {ordn}: iter given on a non-for loop')
                q = j + 1
                while q < k and not (ct[q].kind == 'ident' and ct[q].text == 'in'):
                    if ct[q].kind == 'punct' and ct[q].text in rustscan.OPEN:
                        q = match_close(ct, q)
                    q += 1
                if q >= k:
                    raise LostAnchor(f'{rf.rel}: {d.selector}: loop {ordn}: no `in` found')
                edits.append(Edit(ct[q].end - base, ct[q].end - base, f' {w[1]}:', ('tmpl', l2, 'loop', ordn)))
                rules['R5_iter_named'] = rules.get('R5_iter_named', 0) + 1
            else:
                body_lines.append((raw, l2))
        ins = '\n' + '\n'.join(raw for raw, _ in body_lines) + '\n'
        edits.append(Edit(ct[k].start - base, ct[k].start - base, ins, ('tmpl', first_tl, 'loop', ordn)))
    if d.loops:
        unspecified = [n for n in range(len(loops)) if n not in d.loops]
        # loops without a spec are allowed (Verus will demand invariants only if needed) but recorded
        info.directive.__dict__.setdefault('_unspecified_loops', unspecified)

    # before-anchors (searched in body text)
    body_lo = it.body_open - base
    for anchor, nth, plines in d.before:
        if anchor == '@end':
            # the position just before the closing brace of the function body (the fall-through exit)
            occ = [len(text.rstrip()) - 1]
        else:
            occ = [m.start() for m in re.finditer(re.escape(anchor), text) if m.start() > body_lo and not in_comment(m.start())]
        if nth == 0:
            if len(occ) != 1:
                raise LostAnchor(f'{rf.rel}: {d.selector}: before-anchor {anchor!r} found {len(occ)} times (need 1)')
            pos = occ[0]
        else:
            if nth > len(occ):
                raise LostAnchor(f'{rf.rel}: {d.selector}: before-anchor {anchor!r} occurrence #{nth} not found')
            pos = occ[nth - 1]
        ins = '\n'.join(raw for raw, _ in plines) + '\n'
        edits.append(Edit(pos, pos, ins, ('tmpl', plines[0][1] if plines else d.tline, 'hint')))
        kind = d.before_kind[d.before.index((anchor, nth, plines))] if d.before_kind else 'proof'
        if kind == 'exec':
            rules['R6_inserted_stmts'] = rules.get('R6_inserted_stmts', 0) + 1
            rules.setdefault('R6_lines', []).append(f'{rf.rel}:{rf.line_of(base + pos)} inserted before {anchor!r}: ' + ' '.join(r.strip() for r, _ in plines))
        else:
            rules['hints'] = rules.get('hints', 0) + 1

    # R8 cut ranges are located first: text inside a cut is invisible to substitutions
    cut_ranges: list[tuple[int, int]] = []
    for frm, until, repl, tl in d.cuts:
        if frm == '@start':
            # from the first character after the opening brace of the function body
            occ_a = [body_lo + 1]
        else:
            occ_a = [m.start() for m in re.finditer(re.escape(frm), text) if m.start() >= body_lo and not in_comment(m.start())]
        if len(occ_a) != 1:
            raise LostAnchor(f'{rf.rel}: {d.selector}: cut start anchor {frm!r} found {len(occ_a)} times (need 1)')
        occ_b = [m.start() for m in re.finditer(re.escape(until), text) if m.start() > occ_a[0] and not in_comment(m.start())]
        if len(occ_b) < 1:
            raise LostAnchor(f'{rf.rel}: {d.selector}: cut end anchor {until!r} not found after start')
        cut_ranges.append((occ_a[0], occ_b[0]))
    for pos, msg in deferred_r2:
        if not any(lo <= pos < hi for lo, hi in cut_ranges):
            raise LostAnchor(msg)
    # regular-expression substitutions are resolved to exact-text ones first
    all_subst = list(d.subst)
    for rx, repl, tl, optional in d.resubst:
        ms = [m for m in re.finditer(rx, text) if m.start() >= body_lo
              and not any(lo <= m.start() < hi for lo, hi in cut_ranges) and not in_comment(m.start())]
        if optional and not ms:
            continue
        if len(ms) != 1:
            raise LostAnchor(f'{rf.rel}: {d.selector}: R6 regex substitution {rx!r} matched {len(ms)} times (need 1)')
        all_subst.append((ms[0].group(0), ms[0].expand(repl), tl, False))
    # substitutions (body or anywhere in item text after signature)
    subst_ranges: list[tuple[int, int]] = []
    for a, b, tl, many in all_subst:
        occ = [m.start() for m in re.finditer(re.escape(a), text) if m.start() >= body_lo
               and not any(lo <= m.start() < hi for lo, hi in cut_ranges) and not in_comment(m.start())]
        if (many is False and len(occ) != 1) or (many is True and not occ):
            raise LostAnchor(f'{rf.rel}: {d.selector}: R6 substitution {a!r} matched {len(occ)} times')
        for p in occ:
            pad = '\n' * (a.count('\n') - b.count('\n')) if a.count('\n') > b.count('\n') else ''
            subst_ranges.append((p, p + len(a)))
            edits.append(Edit(p, p + len(a), b + pad, None))
        rules['R6'] = rules.get('R6', 0) + len(occ)
    # R8 region cuts
    for (frm, until, repl, tl), (lo, hi) in zip(d.cuts, cut_ranges):
        dropped = text[lo:hi]
        if tl in d.cut_readonly:
            why = _not_readonly_on_self(dropped)
            if why:
                raise LostAnchor(f'{rf.rel}: {d.selector}: cut_readonly region starting at {frm!r} is not read-only on self: {why}')
        nl = '\n' * max(0, dropped.count('\n') - repl.count('\n'))
        subst_ranges.append((lo, hi))
        edits.append(Edit(lo, hi, repl + nl, None))
        rules['R8'] = rules.get('R8', 0) + 1
        rules.setdefault('R8_lines', []).append(
            f'{rf.rel}:{rf.line_of(base + lo)}-{rf.line_of(base + hi)} cut from {d.selector} '
            f'({dropped.count(chr(10))} lines, sha256 {hashlib.sha256(dropped.encode()).hexdigest()[:16]}) -> {repl!r}')
        # debug_asserts inside a cut region are dropped with it
        for da in info.dasserts:
            if rf.line_of(base + lo) <= da['line'] < rf.line_of(base + hi) and not da['dropped']:
                da['dropped'] = 'inside R8 cut region'
    # an R6 substitution that falls INSIDE a debug_assert macro (rewritten as a whole by R3) is applied to the
    # R3 replacement text instead of as a separate edit
    r3_edits = [e for e in edits if e.new.startswith('if true { let verif_c: bool = ')]
    absorbed = set()
    for a, b, tl, many in all_subst:
        for e in list(edits):
            if e.new.startswith(b) and (e.start, e.end) in subst_ranges and text[e.start:e.end] == a:
                host = next((r for r in r3_edits if r.start <= e.start and e.end <= r.end), None)
                if host is not None:
                    host.new = host.new.replace(a, b)
                    absorbed.add((e.start, e.end))
    if absorbed:
        edits = [e for e in edits if (e.start, e.end) not in absorbed]
        subst_ranges = [r for r in subst_ranges if r not in absorbed]
    # an R6 substitution / R8 cut wins over automatic rewrites (R2/R3/R5) that fall inside the replaced text
    edits = [e for e in edits if (e.start, e.end) in subst_ranges or
             not any(lo <= e.start and e.end <= hi for lo, hi in subst_ranges)]
    return edits


def rewrite_signature(rf: RepoFile, it: Item, d: FnDirective, rules: dict, name_out: str) -> tuple[str, list]:
    sig = rf.src[it.start:it.body_open]
    # R4: visibility -> pub
    sig2 = re.sub(r'^\s*pub\s*(\([^)]*\))?\s*', '', sig)
    if sig2 != sig:
        rules['R4'] = rules.get('R4', 0) + 1
    sig = 'pub ' + sig2.lstrip()
    for a, b, tl in d.sig_subst:
        if sig.count(a) != 1:
            raise LostAnchor(f'{rf.rel}: {d.selector}: signature substitution {a!r} matched {sig.count(a)} times')
        sig = sig.replace(a, b)
        rules['R6'] = rules.get('R6', 0) + 1
    if d.rename:
        sig, n = re.subn(r'\bfn\s+' + re.escape(it.name) + r'\b', 'fn ' + d.rename, sig, count=1)
        if n != 1:
            raise LostAnchor(f'{rf.rel}: {d.selector}: rename failed')
    if d.ret:
        # find '->' at depth 0
        depth = 0
        pos = None
        for k, ch in enumerate(sig):
            if ch in '([<':
                depth += 1 if ch != '<' else 0
            elif ch in ')]':
                depth -= 1
            elif ch == '-' and sig[k:k + 2] == '->' and depth == 0:
                pos = k
        if pos is None:
            raise LostAnchor(f'{rf.rel}: {d.selector}: ret given but no return type')
        rest = sig[pos + 2:]
        m = re.search(r'\bwhere\b', rest)
        ty = rest[:m.start()] if m else rest
        tail = rest[m.start():] if m else ''
        sig = sig[:pos] + f'-> ({d.ret}: {ty.strip()}) ' + tail
    return sig.rstrip(), []


def strip_item(rf: RepoFile, it: Item, rules: dict, pub_fields=True, keep_clone=False, structural=False) -> list[Edit]:
    """R1 (attrs, doc comments) and R4 (pub fields) on a struct/enum/const/type item. Offsets relative to it.attr_start."""
    base = it.attr_start
    toks = [t for t in rf.toks if it.attr_start <= t.start < it.end]
    edits: list[Edit] = []
    for t in toks:
        if t.kind in ('lcomment', 'bcomment'):
            nl = '\n' * t.text.count('\n')
            edits.append(Edit(t.start - base, t.end - base, nl, None))
            if t.text.startswith('///') or t.text.startswith('/**'):
                rules['R1_doc'] = rules.get('R1_doc', 0) + 1
    ct = code_tokens(toks)
    i = 0
    while i < len(ct):
        t = ct[i]
        if t.kind == 'punct' and t.text == '#' and i + 1 < len(ct) and ct[i + 1].text == '[':
            k = match_close(ct, i + 1)
            nl = '\n' * rf.src.count('\n', t.start, ct[k].end)
            atext = rf.src[t.start:ct[k].end]
            keep = ''
            if structural and t.start < it.start and re.search(r'derive\s*\(', atext) and re.search(r'\bPartialEq\b', atext):
                # R1d: the repository derives PartialEq/Eq; Verus' `Structural` gives `==` its structural meaning
                keep = '#[derive(PartialEq, Eq, Structural' + (', Clone, Copy' if re.search(r'\bCopy\b', atext) else '') + ')]'
                rules['R1d'] = rules.get('R1d', 0) + 1
            elif t.start < it.start and re.search(r'derive\s*\(', atext) and re.search(r'\bCopy\b', atext):
                # R1c: a type that is Copy in /repo stays Copy (moves out of shared references depend on it)
                keep = '#[derive(Clone, Copy)]'
                rules['R1c'] = rules.get('R1c', 0) + 1
            elif keep_clone and t.start < it.start and re.search(r'derive\s*\(', atext) and re.search(r'\bClone\b', atext):
                keep = '#[derive(Clone)]'
                rules['R1c'] = rules.get('R1c', 0) + 1
            edits.append(Edit(t.start - base, ct[k].end - base, keep + nl, None))
            rules['R1'] = rules.get('R1', 0) + 1
            i = k + 1
            continue
        i += 1
    # visibility of the item itself
    first = next(t for t in ct if t.start >= it.start)
    fi = ct.index(first)
    if first.kind == 'ident' and first.text == 'pub':
        if ct[fi + 1].kind == 'punct' and ct[fi + 1].text == '(':
            k = match_close(ct, fi + 1)
            edits.append(Edit(ct[fi + 1].start - base, ct[k].end - base, '', None))
            rules['R4'] = rules.get('R4', 0) + 1
    else:
        edits.append(Edit(first.start - base, first.start - base, 'pub ', None))
        rules['R4'] = rules.get('R4', 0) + 1
    if it.kind == 'struct' and pub_fields and it.body_open is not None:
        # fields at depth 1
        bo = next(i for i, t in enumerate(ct) if t.start == it.body_open)
        bc = match_close(ct, bo)
        j = bo + 1
        expect_field = True
        while j < bc:
            t = ct[j]
            if t.kind == 'punct' and t.text == '#':
                j = match_close(ct, j + 1) + 1
                continue
            if expect_field and t.kind == 'ident':
                if t.text == 'pub':
                    if ct[j + 1].kind == 'punct' and ct[j + 1].text == '(':
                        k = match_close(ct, j + 1)
                        edits.append(Edit(ct[j + 1].start - base, ct[k].end - base, '', None))
                        rules['R4'] = rules.get('R4', 0) + 1
                else:
                    edits.append(Edit(t.start - base, t.start - base, 'pub ', None))
                    rules['R4'] = rules.get('R4', 0) + 1
                expect_field = False
            if t.kind == 'punct' and t.text in rustscan.OPEN:
                j = match_close(ct, j) + 1
                continue
            if t.kind == 'punct' and t.text == '<':
                # skip generic args (commas inside)
                depth = 1
                j += 1
                while j < bc and depth:
                    if ct[j].kind == 'punct' and ct[j].text == '<':
                        depth += 1
                    elif ct[j].kind == 'punct' and ct[j].text == '>' and ct[j - 1].text != '-':
                        depth -= 1
                    elif ct[j].kind == 'punct' and ct[j].text in rustscan.OPEN:
                        j = match_close(ct, j)
                    j += 1
                continue
            if t.kind == 'punct' and t.text == ',':
                expect_field = True
            j += 1
    return edits


def emit(unit_dir: str, repo_root: str) -> Emitted:
    tpath = os.path.join(unit_dir, 'unit.rs')
    segs, gsubst = parse_template(tpath)
    files: dict[str, RepoFile] = {}

    def rfile(rel):
        if rel not in files:
            files[rel] = RepoFile(repo_root, rel)
        return files[rel]

    out: list[OutLine] = []
    fns: list[FnInfo] = []
    items: list[dict] = []
    rules: dict = {}
    substs: list[dict] = []
    lemmas: list[dict] = []
    gcount = {a: 0 for a, _, _ in gsubst}
    imported_units: dict = {}
    imports: list[dict] = []

    def gs(text):
        for a, b, tl in gsubst:
            c = text.count(a)
            if c:
                gcount[a] += c
                text = text.replace(a, b)
        return text

    for seg in segs:
        if seg[0] == 'text':
            for ln, tl in seg[1]:
                out.append(OutLine(ln, ('tmpl', tl)))
                m = re.match(r'\s*(?:pub\s+)?(?:broadcast\s+)?proof\s+fn\s+(\w+)', ln)
                if m:
                    lemmas.append({'name': m.group(1), 'tline': tl})
        elif seg[0] == 'item':
            _, rel, kind, name, tl, opts = seg
            rf = rfile(rel)
            it = rf.find_item(kind, name)
            raw = rf.src[it.attr_start:it.end]
            sha = hashlib.sha256(rf.src[it.start:it.end].encode()).hexdigest()
            edits = strip_item(rf, it, rules, pub_fields='nopub' not in opts, keep_clone='keepclone' in opts,
                               structural='structural' in opts)
            lines = apply_edits(raw, it.attr_start, rf, edits)
            items.append({'file': rel, 'kind': kind, 'name': name, 'line': it.line, 'sha256': sha})
            for text, org in lines:
                if text.strip() == '' and org[0] == 'repo':
                    continue
                out.append(OutLine(gs(text), org))
        elif seg[0] == 'import':
            _, other, selector, tl = seg
            opath = os.path.join(os.path.dirname(unit_dir.rstrip('/')), other, 'unit.rs')
            if other not in imported_units:
                osegs, _og = parse_template(opath)
                imported_units[other] = [x[1] for x in osegs if x[0] == 'fn']
            cands = [x for x in imported_units[other] if x.selector == selector]
            if len(cands) != 1:
                raise LostAnchor(f'template line {tl}: import {other} {selector}: {len(cands)} directives found')
            d = cands[0]
            rf = rfile(d.file)
            it = rf.find_fn(d.selector)
            name_out = d.rename or it.name
            sig, _ = rewrite_signature(rf, it, d, {}, name_out)
            out.append(OutLine('#[verifier::external_body]', ('tmpl', tl), None))
            for k, sl in enumerate(gs(sig).split('\n')):
                out.append(OutLine(sl, ('repo', d.file, it.line + k), None))
            for sect in ('requires', 'ensures'):
                cl = getattr(d, sect)
                if cl:
                    out.append(OutLine('    ' + sect, ('tmpl', tl), None))
                    for c in cl:
                        for ctext in c.text.split('\n'):
                            out.append(OutLine('       ' + ctext, ('tmpl', tl, 'import-' + sect, c.label), None))
                        if not c.text.rstrip().endswith(','):
                            out[-1].text += ','
            out.append(OutLine('{ unimplemented!() }', ('tmpl', tl), None))
            imports.append({'unit': other, 'selector': selector, 'file': d.file, 'line': it.line,
                            'clauses': [(c.label or 'ensures@T%d' % c.tline) for c in d.ensures],
                            'external_body_there': d.external_body})
        else:
            d: FnDirective = seg[1]
            rf = rfile(d.file)
            it = rf.find_fn(d.selector)
            name_out = d.rename or it.name
            sha = hashlib.sha256(rf.src[it.start:it.end].encode()).hexdigest()
            info = FnInfo(name=name_out, selector=d.selector, file=d.file, repo_line=it.line,
                          repo_end_line=rf.line_of(it.end - 1), sha256=sha, directive=d,
                          external_body=d.external_body)
            sig, _ = rewrite_signature(rf, it, d, rules, name_out)
            # R1: attrs/doc comments before the fn are simply not copied
            if it.attr_start != it.start:
                rules['R1'] = rules.get('R1', 0) + 1
            if getattr(d, 'opaque_body', False):
                rules['R7b_opaque_bodies'] = rules.get('R7b_opaque_bodies', 0) + 1
                rules.setdefault('R7b_lines', []).append(f'{d.file}:{it.line} {d.selector}: body not copied; contract assumed')
                blines = [('{ unimplemented!() }', ('tmpl', d.tline))]
            else:
                edits = rewrite_body(rf, it, d, rules, info)
                body_raw = rf.src[it.body_open:it.end]
                # shift edits to body-relative, dropping those in the signature (there are none by construction)
                shift = it.body_open - it.start
                bedits = [Edit(e.start - shift, e.end - shift, e.new, e.origin) for e in edits if e.start >= shift]
                blines = apply_edits(body_raw, it.body_open, rf, bedits)
            info.out_first = len(out)
            for a in d.attrs:
                out.append(OutLine(a, ('tmpl', d.tline), name_out))
            for k, sl in enumerate(gs(sig).split('\n')):
                out.append(OutLine(sl, ('repo', d.file, it.line + k), name_out))
            for sect in ('requires', 'ensures', 'decreases'):
                cl = getattr(d, sect)
                sect_start = len(out)
                if cl:
                    out.append(OutLine('    ' + sect, ('tmpl', cl[0].tline), name_out))
                    for c in cl:
                        for k, ctext in enumerate(c.text.split('\n')):
                            t2 = ctext if ctext.rstrip().endswith(',') or k < c.text.count('\n') else ctext
                            out.append(OutLine('       ' + t2, ('tmpl', c.tline + k, sect, c.label), name_out))
                        if not c.text.rstrip().endswith(','):
                            out[-1].text += ','
                info.sect_idx[sect] = (sect_start, len(out))
            info.body_first = len(out)
            for text, org in blines:
                out.append(OutLine(gs(text), org, name_out))
            info.out_last = len(out) - 1
            fns.append(info)
            for a, b, tl, many in d.subst:
                substs.append({'fn': d.selector, 'original': a, 'replacement': b, 'template_line': tl})
            for a, b, tl in d.sig_subst:
                substs.append({'fn': d.selector, 'original': a, 'replacement': b, 'template_line': tl, 'where': 'signature'})
    for a, b, tl in gsubst:
        substs.append({'fn': '*', 'original': a, 'replacement': b, 'template_line': tl, 'count': gcount[a]})
        if gcount[a] == 0:
            raise LostAnchor(f'global substitution {a!r} never matched')
    return Emitted(lines=out, fns=fns, items=items, rules=rules, substitutions=substs, lemmas=lemmas,
                   template=tpath, imports=imports)


def render(em: Emitted) -> str:
    return '\n'.join(l.text for l in em.lines) + '\n'


if __name__ == '__main__':
    import sys
    em = emit(sys.argv[1], sys.argv[2] if len(sys.argv) > 2 else '/repo')
    sys.stdout.write(render(em))
